"""Reproducer (runs the real library; NOT part of any check).

on_error_resume_next re-schedules its continuation with `scheduler.schedule(action, state)`
and drops the returned disposable.  Disposing the subscription between the failure of
source k and the start of source k+1 therefore does not cancel the continuation: the
user's source factory runs and the next source is subscribed *after* dispose() returned
(C02/C03: a scheduled item not held by the returned disposable).
"""
import reactivex
from reactivex.testing import ReactiveTest, TestScheduler

on_next, on_error, on_completed = ReactiveTest.on_next, ReactiveTest.on_error, ReactiveTest.on_completed
sched = TestScheduler()
xs = sched.create_hot_observable(on_next(210, 1), on_error(250, Exception("x")))
ys = sched.create_cold_observable(on_next(10, 2), on_completed(20))
calls = []


def factory(exc):
    calls.append(sched.clock)
    return ys


disposed_at = []
res = sched.start(lambda: reactivex.on_error_resume_next(xs, factory), disposed=250)
print("factory called at:", calls, "ys subscriptions:", ys.subscriptions)
bad = bool(calls) or bool(ys.subscriptions)
print("DEFECT: user factory ran / next source subscribed after dispose()" if bad else "ok: continuation cancelled")
raise SystemExit(1 if bad else 0)
