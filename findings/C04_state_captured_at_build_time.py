"""Reproducer (runs the real library; NOT part of any check).

C04: per-subscription state captured when the observable / operator application was
built, so a second subscription to the *same cold observable object* behaves differently.
Prints one line per construct; exit 1 if any construct misbehaves.
"""
import reactivex as rx
from reactivex import operators as ops


def collect(o):
    out = []
    o.subscribe(out.append, lambda e: out.append(("E", type(e).__name__)), lambda: out.append("C"))
    return out


bad = []


def case(name, o):
    a, b = collect(o), collect(o)
    ok = a == b
    print(("ok     " if ok else "DEFECT ") + name, a, b)
    if not ok:
        bad.append(name)


case("catch_with_iterable_.sources_", rx.catch(rx.throw(Exception("x")), rx.of(1, 2)))
case("on_error_resume_next_.sources_", rx.on_error_resume_next(rx.of(1), rx.of(2)))
case("zip_with_iterable_.second", rx.of("a", "b").pipe(ops.zip_with_iterable([10, 20])))
case("map_indexed_ infinite()", rx.of("a", "b").pipe(ops.map_indexed(lambda x, i: (x, i))))
n = [0]


def cond(_):
    n[0] += 1
    return n[0] % 3 != 0


case("while_do_ takewhile iterator", rx.of(7).pipe(ops.while_do(cond)))
case("for_in map object", rx.for_in([1, 2], lambda x: rx.of(x)))
calls = []


def cb(a, *handlers):
    calls.append(len(handlers))
    handlers[-1](a)


fc = rx.from_callback(cb)(21)
collect(fc), collect(fc)
ok = calls == [1, 1]
print(("ok     " if ok else "DEFECT ") + "from_callback_ arguments.append(handler): handlers passed per call =", calls)
if not ok:
    bad.append("from_callback_")
raise SystemExit(1 if bad else 0)
