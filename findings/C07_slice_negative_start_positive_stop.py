"""Reproducer (runs the real library; NOT part of any check).
source[start:stop] with start < 0 < stop composes take(stop) then take_last(-start): it selects relative to the wrong
end whenever the source is longer than stop; and source[-1] becomes slice(-1, 0) = empty."""
import reactivex as rx

bad = []
xs = list(range(10))
for (a, b) in [(-2, 5), (-8, 5), (-3, 9), (-20, 4)]:
    out = []
    rx.from_iterable(xs)[a:b].subscribe(out.append)
    if out != xs[a:b]:
        bad.append((a, b))
        print(f"DEFECT xs[{a}:{b}] -> {out}, list gives {xs[a:b]}")
out = []
rx.from_iterable(xs)[-1].subscribe(out.append)
if out != [xs[-1]]:
    bad.append(-1)
    print(f"DEFECT xs[-1] -> {out}, list gives {[xs[-1]]}")
print("ok" if not bad else f"{len(bad)} differences")
raise SystemExit(1 if bad else 0)
