"""Reproducer (runs the real library; NOT part of any check).
skip_last decides whether an element left its delay queue by `front is not None`: a None element is dropped."""
import reactivex as rx
from reactivex import operators as ops

out = []
rx.of(None, 0, False, "", 1, 2).pipe(ops.skip_last(1)).subscribe(out.append)
print(out)
ok = out == [None, 0, False, "", 1]
print("ok" if ok else "DEFECT: None element dropped by skip_last")
raise SystemExit(0 if ok else 1)
