"""Reproducer (runs the real library; NOT part of any check).
Two user callbacks were invoked while processing a notification without routing their exception to on_error:
 - distinct(comparer=...): the comparer runs inside HashSet.push with no guard -> the exception propagates into the emitter;
 - on_error_resume_next(factory): the source factory is called inside the scheduled action with no guard."""
import reactivex as rx
from reactivex import operators as ops
from reactivex.subject import Subject

bad = []
subj = Subject()
got = []


def cmp(a, b):
    raise ValueError("cmp")


subj.pipe(ops.distinct(comparer=cmp)).subscribe(got.append, lambda e: got.append(("E", type(e).__name__)))
try:
    subj.on_next(1)
    subj.on_next(2)
    ok = ("E", "ValueError") in got
except ValueError:
    ok = False
print(("ok     " if ok else "DEFECT ") + "distinct comparer:", got if ok else "exception escaped into subject.on_next()")
if not ok:
    bad.append("distinct")


def factory(exc):
    raise KeyError("factory")


got = []
try:
    rx.on_error_resume_next(rx.throw(Exception("x")), factory).subscribe(got.append, lambda e: got.append(("E", type(e).__name__)))
    ok = ("E", "KeyError") in got
except KeyError:
    ok = False
print(("ok     " if ok else "DEFECT ") + "on_error_resume_next factory:", got if ok else "exception escaped into subscribe()/the scheduler")
if not ok:
    bad.append("oern")
raise SystemExit(1 if bad else 0)
