"""A falsy exception object (a class defining __len__ / __bool__) is still the sequence's error."""
import sys
import reactivex as rx
from reactivex import operators as ops
from reactivex.testing import TestScheduler, ReactiveTest

on_next, on_error, on_completed = ReactiveTest.on_next, ReactiveTest.on_error, ReactiveTest.on_completed

class BatchError(Exception):
    def __init__(self, items=()):
        super().__init__("batch failed"); self.items = list(items)
    def __len__(self):
        return len(self.items)

bad = 0
err = BatchError()
# catch_with_iterable: every source fails -> the last error is delivered
sched = TestScheduler()
a = sched.create_cold_observable(on_next(10, 1), on_error(20, BatchError([1])))
b = sched.create_cold_observable(on_next(10, 2), on_error(20, err))
res = sched.start(lambda: rx.catch(a, b))
got = [(m.time, m.value.kind) for m in res.messages]
print("catch(a, b), both fail:", got)
if got[-1][1] != "E":
    print("  -> the sequence completed instead of failing with the last error"); bad = 1
# delay: an error is delivered immediately, pending elements dropped
sched = TestScheduler()
xs = sched.create_hot_observable(on_next(250, 1), on_error(260, err))
res = sched.start(lambda: xs.pipe(ops.delay(100)))
got = [(m.time, m.value.kind) for m in res.messages]
print("delay(100) of [1@250, error@260]:", got)
if got != [(260.0, "E")]:
    print("  -> the error was not delivered immediately / the pending element was not dropped"); bad = 1
sys.exit(bad)
