"""C13: with_latest_from emits on every primary element once every other source has a value — for every element value.

`NO_VALUE not in values` asks each stored element `element == NO_VALUE`; an element whose __eq__ answers True to
anything (unittest.mock.ANY, a wildcard pattern object) is taken for the "no value yet" marker and the operator never emits."""
import sys
from unittest import mock
from reactivex import operators as ops
from reactivex.subject import Subject

p, s = Subject(), Subject()
got = []
p.pipe(ops.with_latest_from(s)).subscribe(got.append)
s.on_next(mock.ANY)
p.on_next(1)
s.on_next("x")
p.on_next(2)
print(got)
sys.exit(0 if len(got) == 2 and got[0][0] == 1 and got[0][1] is mock.ANY and got[1] == (2, "x") else 1)
