"""C14 with an explicit ImmediateScheduler / fresh CurrentThreadScheduler: does subscribe() return after bounded work?"""
import sys, itertools
import reactivex as rx
from reactivex import operators as ops
from reactivex.scheduler import ImmediateScheduler, CurrentThreadScheduler

sys.setrecursionlimit(3000)
BUDGET = 2000
bad = 0
def run(label, make, sched):
    global bad
    produced = [0]
    def count(x):
        produced[0] += 1
        if produced[0] > BUDGET:
            raise SystemExit  # budget exceeded
        return x
    got = []
    try:
        make(count).pipe(ops.take(3)).subscribe(got.append, scheduler=sched)
        verdict = "ok" if produced[0] <= 10 else f"produced {produced[0]} elements for take(3)"
    except SystemExit:
        verdict = f"work budget exceeded (> {BUDGET} elements produced for take(3))"
    except RecursionError:
        verdict = f"RecursionError after {produced[0]} elements"
    print(f"{label:45s} {type(sched).__name__:24s} -> {verdict}; got={got[:5]}")
    if verdict != "ok":
        bad = 1
for sched in (ImmediateScheduler(), CurrentThreadScheduler()):
    run("range(0, 10**9) | map | take(3)", lambda c: rx.range(0, 10**9).pipe(ops.map(c)), sched)
    run("from_iterable(count()) | map | take(3)", lambda c: rx.from_iterable(itertools.count()).pipe(ops.map(c)), sched)
    run("repeat_value(1) | map | take(3)", lambda c: rx.repeat_value(1).pipe(ops.map(c)), sched)
    run("generate(0, True, +1) | map | take(3)", lambda c: rx.generate(0, lambda x: True, lambda x: x + 1).pipe(ops.map(c)), sched)
sys.exit(bad)
