import sys, itertools, threading
import reactivex as rx
from reactivex import operators as ops
BUDGET = 3000
BAD = []
def run(label, make):
    produced=[0]
    def count(x):
        produced[0]+=1
        if produced[0] > BUDGET: raise SystemExit
        return x
    got=[]
    try:
        make(count).subscribe(got.append)
        v = "ok" if produced[0] <= 50 else f"produced {produced[0]}"
    except SystemExit:
        v = f"BUDGET EXCEEDED (> {BUDGET} source elements)"
    except RecursionError:
        v = f"RecursionError after {produced[0]}"
    print(f"{label:70s} -> {v}; got={got[:5]}")
    if v != "ok":
        BAD.append(label)
inf = lambda c: rx.from_iterable(itertools.count()).pipe(ops.map(c))
rng = lambda c: rx.range(0, 10**9).pipe(ops.map(c))
run("from_iterable(count) | flat_map(of) | take(3)", lambda c: inf(c).pipe(ops.flat_map(lambda x: rx.of(x)), ops.take(3)))
run("range | flat_map(of) | take(3)", lambda c: rng(c).pipe(ops.flat_map(lambda x: rx.of(x)), ops.take(3)))
run("range | take_until(of(1))", lambda c: rng(c).pipe(ops.take_until(rx.of(1))))
run("from_iterable(count) | take_until(of(1))", lambda c: inf(c).pipe(ops.take_until(rx.of(1))))
run("range | merge(range) | take(3)", lambda c: rng(c).pipe(ops.merge(rx.range(0, 10**9)), ops.take(3)))
run("from_iterable(count) | switch_map(of) | take(3)", lambda c: inf(c).pipe(ops.switch_map(lambda x: rx.of(x)), ops.take(3)))
run("range | switch_map(of) | take(3)", lambda c: rng(c).pipe(ops.switch_map(lambda x: rx.of(x)), ops.take(3)))
run("range | with_latest_from(of) | take(3)", lambda c: rng(c).pipe(ops.with_latest_from(rx.of(1)), ops.take(3)))
run("combine_latest(range, of) | take(3)", lambda c: rx.combine_latest(rng(c), rx.of(1)).pipe(ops.take(3)))
run("range | share | take(3)", lambda c: rng(c).pipe(ops.share(), ops.take(3)))
run("amb(range, never) | take(3)", lambda c: rng(c).pipe(ops.amb(rx.never()), ops.take(3)))
run("concat(range, of) | take(3)", lambda c: rx.concat(rng(c), rx.of(1)).pipe(ops.take(3)))
run("repeat_value | take(3)", lambda c: rx.repeat_value(1).pipe(ops.map(c), ops.take(3)))
run("of(1) | repeat | take(3)", lambda c: rx.of(1).pipe(ops.map(c), ops.repeat(), ops.take(3)))
sys.exit(1 if BAD else 0)
