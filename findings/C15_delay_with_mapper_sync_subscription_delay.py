import sys
import reactivex as rx
from reactivex import operators as ops
from reactivex.subject import BehaviorSubject, Subject, ReplaySubject
from reactivex.testing import TestScheduler, ReactiveTest

on_next, on_completed = ReactiveTest.on_next, ReactiveTest.on_completed
bad = 0
# subscription delay that has already produced its signal when delay_with_mapper subscribes to it
for label, gate in (("BehaviorSubject", lambda: BehaviorSubject(0)), ("ReplaySubject", lambda: (lambda r: (r.on_next(0), r)[1])(ReplaySubject()))):
    sched = TestScheduler()
    xs = sched.create_hot_observable(on_next(250, 1), on_next(300, 2), on_completed(400))
    g = gate()
    res = sched.start(lambda: xs.pipe(ops.delay_with_mapper(g, lambda x: rx.timer(10, scheduler=sched))))
    got = [(m.time, m.value.kind, getattr(m.value, "value", None)) for m in res.messages]
    print(label, got, [ (s.subscribe, s.unsubscribe) for s in xs.subscriptions])
    if [v for _, k, v in got if k == "N"] != [1, 2]:
        bad = 1
sys.exit(bad)
