"""debounce / throttle_with_mapper: an element pushed into the source from inside the delivery of the previous
debounced element (a feedback loop through a Subject) is an ordinary element: it must be emitted once its own quiet
period has passed (or be flushed at completion)."""
import sys
from reactivex import operators as ops
import reactivex as rx
from reactivex.subject import Subject
from reactivex.testing import TestScheduler

bad = 0
for label, op in (("debounce(10)", lambda s: ops.debounce(10, scheduler=s)),
                  ("throttle_with_mapper(timer(10))", lambda s: ops.throttle_with_mapper(lambda x: rx.timer(10, scheduler=s)))):
    sched = TestScheduler()
    source = Subject()
    got = []

    def consumer(x):
        got.append((sched.clock, x))
        if x == "a":
            source.on_next("b")        # feedback: delivered while the operator is still inside on_next("a")

    source.pipe(op(sched)).subscribe(consumer, scheduler=sched)
    sched.schedule_absolute(100, lambda *_: source.on_next("a"))
    sched.schedule_absolute(300, lambda *_: source.on_completed())
    sched.start()
    print(label, "->", got)
    if [x for _, x in got] != ["a", "b"]:
        print("   element 'b' (pushed at 110, quiet afterwards) was lost"); bad = 1
sys.exit(bad)
