"""C16: debounce emits an element if no newer element arrives within the due time.

Cancelling a scheduled action is best effort (every scheduler's docstring says so; a real timer thread may already be running
its callback).  A superseded timer that still runs must change nothing; debounce's timer action cleared the pending flag
unconditionally, so the NEWER element's own timer then found nothing pending and the element was never emitted.
The late cancellation is modelled with a virtual-time scheduler whose handles cancel nothing (no threads, no timing luck)."""
import sys
from reactivex import operators as ops
from reactivex.disposable import Disposable
from reactivex.subject import Subject
from reactivex.testing import TestScheduler


class LateCancel(TestScheduler):
    def schedule_relative(self, duetime, action, state=None):
        super().schedule_relative(duetime, action, state)
        return Disposable()          # cancellation arrives too late: the action runs anyway


s = LateCancel()
src = Subject()
got = []
src.pipe(ops.debounce(10, scheduler=s)).subscribe(lambda x: got.append((s.clock, x)))
s.schedule_absolute(100, lambda *_: src.on_next("a"))
s.schedule_absolute(105, lambda *_: src.on_next("b"))     # supersedes a; b's own timer is due at 115
s.start()
print(got)
sys.exit(0 if got == [(115.0, "b")] else 1)
