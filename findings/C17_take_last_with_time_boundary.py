"""Reproducer (runs the real library; NOT part of any check).
take_last_with_time trims with `age >= duration` when an element arrives but keeps with `age <= duration` at
completion: whether the element whose age is exactly the duration is emitted depends on whether some *other*
element happened to arrive at the completion instant."""
from reactivex import operators as ops
from reactivex.testing import ReactiveTest, TestScheduler

on_next, on_completed = ReactiveTest.on_next, ReactiveTest.on_completed
res = {}
for extra in (False, True):
    s = TestScheduler()
    msgs = [on_next(210, "a")] + ([on_next(310, "b")] if extra else []) + [on_completed(310)]
    xs = s.create_hot_observable(*msgs)
    r = s.start(lambda: xs.pipe(ops.take_last_with_time(100)))
    res[extra] = [str(m.value.value) for m in r.messages if m.value.kind == "N"]
    print("with unrelated arrival at 310:" if extra else "alone:                        ", res[extra])
a_alone = "a" in res[False]
a_with = "a" in res[True]
ok = a_alone == a_with
print("ok: boundary rule independent of other arrivals" if ok else "DEFECT: 'a' (age == duration at completion) is emitted only when no other element arrives at that instant")
raise SystemExit(0 if ok else 1)
