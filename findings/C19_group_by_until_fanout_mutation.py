import sys
import reactivex as rx
from reactivex import operators as ops
from reactivex.subject import Subject

src = Subject()
log = []
def on_group(g):
    g.subscribe(lambda x, k=g.key: log.append(("N", k, x)), lambda e, k=g.key: log.append(("E", k)), lambda k=g.key: log.append(("C", k)))
# each group lives until the group itself terminates (a natural "duration": the group's own end)
out = src.pipe(ops.group_by_until(lambda x: x % 3, None, lambda g: g.pipe(ops.ignore_elements(), ops.catch(rx.empty()))))
out.subscribe(on_group, lambda e: log.append(("E", "outer")), lambda: log.append(("C", "outer")))
for i in range(3):
    src.on_next(i)
try:
    src.on_error(ValueError("boom"))
    esc = None
except BaseException as e:
    esc = e
print(log)
print("escaped:", repr(esc))
ok = esc is None and ("E", "outer") in log and all(("E", k) in log for k in (0, 1, 2))
sys.exit(0 if ok else 1)
