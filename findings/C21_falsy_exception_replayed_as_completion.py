"""Reproducer (runs the real library; NOT part of any check).
BehaviorSubject / AsyncSubject decide 'error or completion' for a late subscriber by the truthiness of the recorded
exception. An exception whose truth value is False (e.g. an aggregate error with __len__ == 0) is replayed as on_completed."""
from reactivex.subject import AsyncSubject, BehaviorSubject


class Problems(Exception):
    def __init__(self, items=()):
        super().__init__("problems")
        self.items = list(items)

    def __len__(self):
        return len(self.items)


bad = []
for name, subj in (("BehaviorSubject", BehaviorSubject(0)), ("AsyncSubject", AsyncSubject())):
    subj.on_error(Problems())
    got = []
    subj.subscribe(got.append, lambda e: got.append(("E", type(e).__name__)), lambda: got.append("C"))
    ok = got == [("E", "Problems")]
    print(("ok     " if ok else "DEFECT ") + name, got)
    if not ok:
        bad.append(name)
raise SystemExit(1 if bad else 0)
