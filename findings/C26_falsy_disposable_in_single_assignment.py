"""Reproducer (runs the real library; NOT part of any check).

SingleAssignmentDisposable.set_disposable decides 'already assigned' and 'dispose the late
item' by the *truthiness* of the disposable.  An empty CompositeDisposable is falsy
(__len__ == 0), so (A) a second assignment over it is accepted and the first item is
silently dropped, and (B) an empty composite assigned after dispose() is not disposed, so
whatever is added to it later is never disposed.
"""
from reactivex.disposable import CompositeDisposable, Disposable, SingleAssignmentDisposable

bad = []
sad = SingleAssignmentDisposable()
first = CompositeDisposable()
sad.disposable = first
try:
    sad.disposable = Disposable()
    print("DEFECT A: second assignment accepted (first item was an empty, falsy CompositeDisposable)")
    bad.append("A")
except Exception:
    print("ok A: second assignment rejected")
sad = SingleAssignmentDisposable()
sad.dispose()
late = CompositeDisposable()
sad.disposable = late
if not late.is_disposed:
    print("DEFECT B: item assigned after dispose() was not disposed (it is an empty, falsy CompositeDisposable)")
    bad.append("B")
else:
    print("ok B: late item disposed")
raise SystemExit(1 if bad else 0)
