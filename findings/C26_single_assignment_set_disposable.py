"""Reproducer (runs the real library; NOT part of any check).

SingleAssignmentDisposable.set_disposable tests `self.current` before taking the lock and
re-reads `self.is_disposed` after releasing it.  Two schedules (forced deterministically by
a lock wrapper that lets "the other thread" run at the lock's acquire / release point):
  A. two concurrent first assignments both pass the unlocked check -> the first item is lost
     (never disposed, not rejected);
  B. dispose() between the locked region and the post-check -> the stored item is disposed twice.
"""
from reactivex.disposable import SingleAssignmentDisposable


class Item:
    def __init__(self):
        self.n = 0

    def dispose(self):
        self.n += 1


class HookLock:
    def __init__(self, inner, on_enter=None, on_exit=None):
        self.inner, self.on_enter, self.on_exit = inner, on_enter, on_exit

    def __enter__(self):
        f, self.on_enter = self.on_enter, None
        if f:
            f()           # the other thread runs completely before we get the lock
        return self.inner.__enter__()

    def __exit__(self, *a):
        r = self.inner.__exit__(*a)
        f, self.on_exit = self.on_exit, None
        if f:
            f()           # the other thread runs right after we released the lock
        return r


bad = []
# schedule A
sad = SingleAssignmentDisposable()
a, b = Item(), Item()
rejected = []


def other_assign():
    try:
        sad.set_disposable(b)
    except Exception as e:
        rejected.append(e)


sad.lock = HookLock(sad.lock, on_enter=other_assign)
try:
    sad.set_disposable(a)
except Exception as e:
    rejected.append(e)
sad.dispose()
print("A: rejected:", len(rejected), "a disposed:", a.n, "b disposed:", b.n)
if not rejected and (a.n, b.n) != (1, 1):
    print("DEFECT A: both assignments accepted, one item lost")
    bad.append("A")
# schedule B
sad = SingleAssignmentDisposable()
c = Item()
sad.lock = HookLock(sad.lock, on_exit=sad.dispose)
sad.set_disposable(c)
print("B: c disposed", c.n, "times")
if c.n != 1:
    print("DEFECT B: item disposed twice")
    bad.append("B")
raise SystemExit(1 if bad else 0)
