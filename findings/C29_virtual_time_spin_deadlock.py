"""Reproducer (runs the real library; NOT part of any check).

VirtualTimeScheduler.start(): with a datetime clock (HistoricalScheduler) and more than
MAX_SPINNING actions due at the same instant, the spin branch executes
`self.clock += timedelta(...)` while holding the non-reentrant `_lock`: the read-only
`clock` property getter takes `_lock` again -> start() never returns (and the store would
raise AttributeError: the property has no setter).
"""
import os
import sys
import threading

from reactivex.scheduler import HistoricalScheduler

done = []


def run():
    hs = HistoricalScheduler()
    n = [0]

    def act(s, st):
        n[0] += 1
    for _ in range(150):
        hs.schedule(act)
    try:
        hs.start()
        done.append(("returned", n[0]))
    except BaseException as e:   # noqa
        done.append(("raised " + type(e).__name__, n[0]))


t = threading.Thread(target=run, daemon=True)
t.start()
t.join(5)
if t.is_alive():
    print("DEFECT: start() did not return within 5 s (self-deadlock on _lock)")
    sys.stdout.flush()
    os._exit(1)
print("start():", done)
os._exit(0 if done and done[0] == ("returned", 150) else 1)
