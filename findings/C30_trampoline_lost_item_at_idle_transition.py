"""C30: every action scheduled on a (shared) trampoline runs.

Trampoline._run() decides "the queue is empty, stop draining" under the lock, releases it, and Trampoline.run()'s
`finally` takes the lock again to set _idle = True and clear the queue.  An item another thread enqueues between the two
critical sections finds _idle == False (so it only enqueues and returns) and is then cleared: it never runs.
The interleaving is forced with a lock proxy: thread B schedules its item right after thread A left the critical section in
which it found the queue empty (no timing luck)."""
import sys
import threading
from reactivex.scheduler import TrampolineScheduler

sched = TrampolineScheduler()
tramp = sched.get_trampoline()
real = tramp._lock
ran = []
state = {"a_acq": 0, "armed": True}
a_thread = threading.current_thread()


class Proxy:
    def __enter__(self):
        if threading.current_thread() is a_thread and state["armed"]:
            state["a_acq"] += 1
        return real.__enter__()

    def __exit__(self, *a):
        r = real.__exit__(*a)
        # A's critical sections: run:enqueue, _run:dequeue, _run:empty-test -> B arrives right after the third
        if threading.current_thread() is a_thread and state["armed"] and state["a_acq"] == 3:
            state["armed"] = False
            t = threading.Thread(target=lambda: sched.schedule(lambda s, st: ran.append("B")))
            t.start()
            t.join(5)
        return r

    def acquire(self, *a, **k):
        return real.acquire(*a, **k)

    def release(self):
        return real.release()


tramp._lock = Proxy()
sched.schedule(lambda s, st: ran.append("A"))
print("ran:", ran, "idle:", tramp._idle, "left in queue:", len(tramp._queue))
sys.exit(0 if ran == ["A", "B"] else 1)
