"""Reproducer (runs the real library; NOT part of any check).

AsyncIOThreadSafeScheduler._on_self_loop_or_not_running() returns True when
asyncio.get_running_loop() raises RuntimeError, i.e. when the caller is a foreign thread
while the loop IS running.  dispose() then cancels the handles directly instead of
marshalling the cancellation onto the loop.  Forced schedule: the loop thread is inside
stage 2 of schedule_relative (call_later has returned, the timer handle is not yet
recorded) while the foreign thread disposes -> the timer is never cancelled and the action
runs after dispose() returned.
"""
import asyncio
import threading
import time

from reactivex.scheduler.eventloop import AsyncIOThreadSafeScheduler

loop = asyncio.new_event_loop()
t = threading.Thread(target=loop.run_forever, daemon=True)
t.start()
while not loop.is_running():
    time.sleep(0.001)

in_stage2 = threading.Event()
disposed = threading.Event()
orig_call_later = loop.call_later


def slow_call_later(delay, cb, *a):
    h = orig_call_later(delay, cb, *a)
    in_stage2.set()          # timer created, not yet recorded by stage2
    disposed.wait(2)         # ... the foreign thread disposes right now
    return h


loop.call_later = slow_call_later
sched = AsyncIOThreadSafeScheduler(loop)
ran = []
d = sched.schedule_relative(0.05, lambda s, st: ran.append(time.time()))
in_stage2.wait(2)
threading.Timer(0.2, disposed.set).start()   # let the loop thread continue shortly (a marshalled dispose must wait for it)
d.dispose()                                   # foreign thread, loop running
disposed.set()
t_disposed = time.time()
time.sleep(0.3)
loop.call_soon_threadsafe(loop.stop)
t.join(2)
bad = [x for x in ran if x > t_disposed]
print("action ran after dispose() returned:" if bad else "ok: action cancelled", ran)
raise SystemExit(1 if bad else 0)
