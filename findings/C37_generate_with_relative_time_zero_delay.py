"""Reproducer (runs the real library; NOT part of any check).
generate_with_relative_time asserts the truthiness of the computed delay: a zero delay raises AssertionError
inside the scheduled action instead of emitting the state immediately."""
import reactivex as rx
from reactivex.testing import TestScheduler

ts = TestScheduler()
out = []
err = None
try:
    rx.generate_with_relative_time(0, lambda s: s < 3, lambda s: s + 1, lambda s: 0).subscribe(
        out.append, lambda e: out.append(("E", type(e).__name__)), lambda: out.append("C"), scheduler=ts)
    ts.start()
except BaseException as e:  # noqa
    err = type(e).__name__
print(out, err)
ok = out == [0, 1, 2, "C"] and err is None
print("ok" if ok else "DEFECT: zero relative delay rejected")
raise SystemExit(0 if ok else 1)
