import sys
import reactivex as rx
from reactivex.testing import TestScheduler
sched = TestScheduler()
h = rx.hot("-a-|", timespan=10, scheduler=sched)
got1, got2, got3 = [], [], []
h.subscribe(got1.append, lambda e: got1.append("E"), lambda: got1.append("C"))
h.subscribe(got2.append, lambda e: got2.append("E"), lambda: got2.append("C"))
h.subscribe(got3.append, lambda e: got3.append("E"), lambda: got3.append("C"))
sched.start()
print(got1, got2, got3)
sys.exit(0 if got1 == got2 == got3 == ["a", "C"] else 1)
