"""Reproducer (runs the real library; NOT part of any check).
UtilityMixin.do(on_next, on_error, on_completed) is an alias of do_action, but the operator of the same name,
ops.do(observer), takes an *observer*: source.do(obs) != source.pipe(ops.do(obs))."""
import reactivex as rx
from reactivex import operators as ops
from reactivex.observer import Observer

seen_a, seen_b = [], []
res_a, res_b = [], []
rx.of(1, 2).pipe(ops.do(Observer(seen_a.append))).subscribe(res_a.append, lambda e: res_a.append(type(e).__name__), lambda: res_a.append("C"))
rx.of(1, 2).do(Observer(seen_b.append)).subscribe(res_b.append, lambda e: res_b.append(type(e).__name__), lambda: res_b.append("C"))
print("pipe(ops.do(observer)):", seen_a, res_a)
print("source.do(observer):   ", seen_b, res_b)
same = (seen_a, res_a) == (seen_b, res_b)
print("ok" if same else "DEFECT: the fluent method and the piped operator of the same name behave differently")
raise SystemExit(0 if same else 1)
