"""An operator must subscribe to its source(s) with the scheduler it was subscribed with: time-based sources created
without a scheduler of their own then run on that scheduler (virtual time)."""
import sys
import reactivex as rx
from reactivex import operators as ops
from reactivex.testing import TestScheduler, ReactiveTest
from reactivex.operators._do import do_after_next

bad = 0
# 1. do_after_next drops the scheduler
sched = TestScheduler()
seen = []
res = sched.start(lambda: do_after_next(rx.timer(10.0), seen.append), created=100, subscribed=200, disposed=1000)
got = [(m.time, m.value.kind) for m in res.messages]
print("do_after_next over timer(10):", got)
if got != [(210.0, "N"), (210.0, "C")]:
    bad = 1
# reference: do_action forwards it
sched = TestScheduler()
res = sched.start(lambda: rx.timer(10.0).pipe(ops.do_action(lambda x: None)), created=100, subscribed=200, disposed=1000)
print("do_action over timer(10):   ", [(m.time, m.value.kind) for m in res.messages])

# 2. timeout_with_mapper: the fallback subscribed when the timeout sequence *completes* gets no scheduler
for label, tmo in (("timeout emits", lambda s: rx.timer(50.0)), ("timeout completes", lambda s: rx.empty().pipe(ops.delay(50.0)))):
    sched = TestScheduler()
    xs = sched.create_hot_observable(ReactiveTest.on_next(210, 1))
    res = sched.start(lambda: xs.pipe(ops.timeout_with_mapper(tmo(sched), lambda x: tmo(sched), rx.timer(20.0))), created=100, subscribed=200, disposed=1000)
    got = [(m.time, m.value.kind) for m in res.messages]
    print("timeout_with_mapper,", label, "->", got)
    if got[-2:] != [(280.0, "N"), (280.0, "C")]:
        bad = 1
sys.exit(bad)
