"""Reproducer (runs the real library; NOT part of any check).
from_callback with a mapper emits the mapped value but never completes."""
import reactivex as rx


def cb(a, handler):
    handler(a)


out = []
rx.from_callback(cb, lambda args: args[0] * 2)(21).subscribe(out.append, lambda e: out.append("E"), lambda: out.append("C"))
print(out)
ok = out == [42, "C"]
print("ok" if ok else "DEFECT: from_callback(mapper) emitted but did not complete")
raise SystemExit(0 if ok else 1)
