"""run() must raise the sequence's error -- also when the exception object is falsy (defines __len__ / __bool__)."""
import sys
import reactivex as rx
from reactivex import operators as ops

class EmptyBatchError(Exception):
    """An exception carrying a (possibly empty) list of failed items; len() is the number of items."""
    def __init__(self, items=()):
        super().__init__("batch failed")
        self.items = list(items)
    def __len__(self):
        return len(self.items)

bad = 0
err = EmptyBatchError()
# 1. erroring sequence with elements: run() must raise err, not return 2
try:
    r = rx.concat(rx.of(1, 2), rx.throw(err)).run()
    print("run() returned", r, "instead of raising the sequence's error"); bad = 1
except EmptyBatchError:
    print("ok: raised the error")
except Exception as e:  # noqa
    print("run() raised", type(e).__name__, "instead of the sequence's error"); bad = 1
# 2. erroring empty sequence
try:
    r = rx.throw(err).run()
    print("run() returned", r); bad = 1
except EmptyBatchError:
    print("ok: raised the error")
except Exception as e:  # noqa
    print("run() raised", type(e).__name__, "instead of the sequence's error"); bad = 1
sys.exit(bad)
