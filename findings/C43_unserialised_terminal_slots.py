"""Reproducer (runs the real library; NOT part of any check).

Several combinators hand `observer.on_error` / an unsynchronised on_completed helper to a
source subscription while their other slots deliver under a lock.  A second source thread
can therefore terminate the downstream observer while the first thread is still inside
observer.on_next: the downstream is called from two threads at once.
Forced schedule: the downstream's on_next blocks until the other source's terminal
notification has been *attempted*; if that notification gets through while on_next is still
running, the calls overlapped.
"""
import sys
import threading

import reactivex as rx
from reactivex import operators as ops
from reactivex.subject import Subject


def overlap(build, first_emit, second_terminal):
    """build(a, b) -> observable; thread 1 runs first_emit(a, b) (an on_next that reaches downstream),
    thread 2 runs second_terminal(a, b) while the downstream on_next is still executing."""
    a, b = Subject(), Subject()
    in_next = threading.Event()
    release = threading.Event()
    state = {"inside": False, "overlap": False}

    def on_next(v):
        state["inside"] = True
        in_next.set()
        release.wait(1.0)
        state["inside"] = False

    def terminal(*_):
        if state["inside"]:
            state["overlap"] = True
        release.set()

    build(a, b).subscribe(on_next, terminal, terminal)
    t1 = threading.Thread(target=lambda: first_emit(a, b), daemon=True)
    t1.start()
    in_next.wait(2)
    t2 = threading.Thread(target=lambda: second_terminal(a, b), daemon=True)
    t2.start()
    t2.join(0.3)          # a serialized terminal call blocks here until on_next returns
    release.set()
    t1.join(2)
    t2.join(2)
    return state["overlap"]


ERR = Exception("boom")
cases = {
    "merge_all_ outer on_error": (lambda a, b: a.pipe(ops.map(lambda x: x), ops.merge_all()), lambda a, b: (a.on_next(b), b.on_next(1)), lambda a, b: a.on_error(ERR)),
    "merge_(max_concurrent) outer on_error": (lambda a, b: a.pipe(ops.map(lambda x: x), ops.merge(max_concurrent=2)), lambda a, b: (a.on_next(b), b.on_next(1)), lambda a, b: a.on_error(ERR)),
    "zip_ on_error": (lambda a, b: rx.zip(a, b), lambda a, b: (b.on_next(0), a.on_next(1)), lambda a, b: b.on_error(ERR)),
    "zip_ completed": (lambda a, b: rx.zip(a, b), lambda a, b: (b.on_next(0), a.on_next(1)), lambda a, b: b.on_completed()),
    "combine_latest_ on_error": (lambda a, b: rx.combine_latest(a, b), lambda a, b: (b.on_next(0), a.on_next(1)), lambda a, b: b.on_error(ERR)),
    "merge_all_ outer on_completed": (lambda a, b: a.pipe(ops.map(lambda x: x), ops.merge_all()), lambda a, b: (a.on_next(b), b.on_next(1)), lambda a, b: (b.on_completed(), a.on_completed())),
    "with_latest_from_ parent on_error": (lambda a, b: a.pipe(ops.map(lambda x: x), ops.with_latest_from(b)), lambda a, b: (b.on_next(0), a.on_next(1)), lambda a, b: b.on_error(ERR)),
    "with_latest_from_ child on_error": (lambda a, b: a.pipe(ops.with_latest_from(b)), lambda a, b: (b.on_next(0), a.on_next(1)), lambda a, b: b.on_error(ERR)),
}
bad = []
for name, (build, e1, e2) in cases.items():
    ov = overlap(build, e1, e2)
    print(("DEFECT " if ov else "ok     ") + name + (": downstream terminal delivered while on_next was running on another thread" if ov else ""))
    if ov:
        bad.append(name)
sys.stdout.flush()
import os
os._exit(1 if bad else 0)
