"""Reproducer (runs the real library; NOT part of any check).

C44: state kept in the operator factory (L0), shared by every application of one
operator function object.
"""
import reactivex as rx
from reactivex import operators as ops
from reactivex.disposable import Disposable

bad = []
log = []


def src(name):
    def sub(obs, sch=None):
        log.append("sub " + name)
        return Disposable(lambda: log.append("unsub " + name))
    return rx.create(sub)


rc = ops.ref_count()
a = src("A").pipe(ops.publish(), rc)
b = src("B").pipe(ops.publish(), rc)
a.subscribe()
b.subscribe()
ok = log == ["sub A", "sub B"]
print(("ok     " if ok else "DEFECT ") + "ref_count_ shared count/connection:", log)
if not ok:
    bad.append("ref_count_")


def collect(o):
    out = []
    o.subscribe(out.append, lambda e: out.append(("E", type(e).__name__)), lambda: out.append("C"))
    return out


rp = ops.replay(buffer_size=2)
x = rx.of(1, 2, 3).pipe(rp)
y = rx.of(10, 20).pipe(rp)
x.connect()
got = collect(y)   # y is not connected: must be silent
ok = got == []
print(("ok     " if ok else "DEFECT ") + "replay_ shared ReplaySubject: unconnected y saw", got)
if not ok:
    bad.append("replay_")
pv = ops.publish_value(0)
x = rx.of(1, 2, 3).pipe(pv)
y = rx.never().pipe(pv)
x.connect()
got = collect(y)   # fresh y must see its initial value 0 only
ok = got == [0]
print(("ok     " if ok else "DEFECT ") + "publish_value_ shared BehaviorSubject: y saw", got)
if not ok:
    bad.append("publish_value_")
raise SystemExit(1 if bad else 0)
