"""Recon for C43: downstream calls reachable from subscribe slots not under the combinator lock."""
import ast, os
ROOT='/repo/reactivex'
FILES=['operators/_merge.py','observable/zip.py','observable/combinelatest.py','observable/withlatestfrom.py','operators/_amb.py','operators/_windowwithtime.py','operators/_windowwithtimeorcount.py']
def is_lock_expr(e):
    s=ast.unparse(e); return s.endswith('.lock') or s=='lock'
for rel in FILES:
    tree=ast.parse(open(os.path.join(ROOT,rel)).read())
    parents={}
    for n in ast.walk(tree):
        for c in ast.iter_child_nodes(n): parents[c]=n
    defs={}
    for n in ast.walk(tree):
        if isinstance(n, ast.FunctionDef): defs.setdefault(n.name,[]).append(n)
    def sync_decorated(fn):
        return any(isinstance(d, ast.Call) and getattr(d.func,'id',None)=='synchronized' for d in fn.decorator_list)
    # downstream calls inside function body w/o lock
    def uncovered_calls(fn, held, seen):
        out=[]
        if fn in seen: return out
        seen=seen|{fn}
        def walk(node, h):
            for ch in ast.iter_child_nodes(node):
                hh=h
                if isinstance(ch, ast.With) and any(is_lock_expr(it.context_expr) for it in ch.items): hh=True
                if isinstance(ch,(ast.FunctionDef,ast.Lambda)) and ch is not fn: continue
                if isinstance(ch, ast.Call):
                    f=ch.func
                    if isinstance(f, ast.Attribute) and f.attr in('on_next','on_error','on_completed') and isinstance(f.value, ast.Name) and f.value.id=='observer':
                        if not hh: out.append((ch.lineno, ast.unparse(f)))
                    elif isinstance(f, ast.Name) and f.id in defs:
                        for d in defs[f.id]:
                            out.extend(uncovered_calls(d, hh or sync_decorated(d), seen))
                walk(ch, hh)
        walk(fn, held or sync_decorated(fn))
        return out
    print('==',rel)
    for n in ast.walk(tree):
        if isinstance(n, ast.Call) and isinstance(n.func, ast.Attribute) and n.func.attr in('subscribe','schedule_relative','schedule'):
            slots=list(n.args)+[k.value for k in n.keywords if k.arg!='scheduler']
            for i,a in enumerate(slots):
                if isinstance(a, ast.Attribute) and isinstance(a.value, ast.Name) and a.value.id=='observer':
                    print(f'  L{n.lineno} slot{i}: RAW {ast.unparse(a)}')
                elif isinstance(a, ast.Name) and a.id in defs:
                    # local var bound to synchronized(lock)(observer.x)?
                    for d in defs[a.id]:
                        u=uncovered_calls(d, False, frozenset())
                        if u: print(f'  L{n.lineno} slot{i}: {a.id} uncovered downstream {u}')
                elif isinstance(a, ast.Lambda):
                    for c in ast.walk(a):
                        if isinstance(c, ast.Call) and isinstance(c.func, ast.Name) and c.func.id in defs:
                            for d in defs[c.func.id]:
                                u=uncovered_calls(d, False, frozenset())
                                if u: print(f'  L{n.lineno} slot{i}: lambda->{c.func.id} uncovered {u}')
