"""Recon prototype for E1 staging: which bindings are mutated at a later stage than allocated."""
import ast, glob, sys, os
ROOT='/repo/reactivex'
MUT={'append','add','pop','remove','clear','extend','update','popleft','appendleft','insert','discard','setdefault','popitem','sort','reverse'}
ONESHOT_CALLS={'iter','map','filter','zip','enumerate','reversed','infinite','takewhile','dropwhile','chain','cycle','islice','repeat','count'}
class Fn:
    def __init__(s,node,parent,name):
        s.node=node; s.parent=parent; s.name=name; s.children=[]; s.binds={}; s.nonlocals=set(); s.stage=None; s.role=None
        if parent: parent.children.append(s)
    def qual(s): return (s.parent.qual()+'.' if s.parent and s.parent.name!='<module>' else '')+s.name
def build(tree):
    root=Fn(tree,None,'<module>')
    def visit(node, fn):
        for ch in ast.iter_child_nodes(node):
            if isinstance(ch,(ast.FunctionDef,ast.AsyncFunctionDef,ast.Lambda)):
                name = ch.name if not isinstance(ch,ast.Lambda) else f'<lambda@{ch.lineno}>'
                if not isinstance(ch,ast.Lambda): fn.binds.setdefault(name,[]).append(('def',ch))
                f=Fn(ch,fn,name)
                a=ch.args
                for p in a.posonlyargs+a.args+a.kwonlyargs+([a.vararg] if a.vararg else [])+([a.kwarg] if a.kwarg else []):
                    f.binds.setdefault(p.arg,[]).append(('param',p))
                if isinstance(ch,ast.Lambda): visit(ch, f)
                else:
                    for d in ch.decorator_list: visit_expr(d, fn)
                    for st in ch.body: visit_stmt(st,f)
            elif isinstance(ch, ast.ClassDef):
                fn.binds.setdefault(ch.name,[]).append(('class',ch))
                c=Fn(ch,fn,ch.name); c.is_class=True
                for st in ch.body: visit_stmt(st,c)
            else:
                visit_stmt(ch, fn)
    def visit_expr(e, fn): visit(ast.Expression(body=e) if False else e, fn) if not isinstance(e,(ast.Lambda,)) else visit(ast.Module(body=[ast.Expr(e)],type_ignores=[]),fn)
    def visit_stmt(st, fn):
        if isinstance(st,(ast.FunctionDef,ast.AsyncFunctionDef,ast.ClassDef,ast.Lambda)):
            visit(ast.Module(body=[st],type_ignores=[]), fn); return
        if isinstance(st, ast.Nonlocal): fn.nonlocals.update(st.names)
        if isinstance(st, (ast.Assign, ast.AnnAssign, ast.AugAssign)):
            tgts = st.targets if isinstance(st, ast.Assign) else [st.target]
            for t in tgts:
                for n in ast.walk(t):
                    if isinstance(n, ast.Name) and isinstance(n.ctx, ast.Store):
                        fn.binds.setdefault(n.id,[]).append(('assign', st))
        if isinstance(st,(ast.For,)):
            for n in ast.walk(st.target):
                if isinstance(n, ast.Name): fn.binds.setdefault(n.id,[]).append(('for',st))
        if isinstance(st, ast.With):
            for it in st.items:
                if it.optional_vars is not None:
                    for n in ast.walk(it.optional_vars):
                        if isinstance(n, ast.Name): fn.binds.setdefault(n.id,[]).append(('with',st))
        visit(st, fn)
    for st in tree.body: visit_stmt(st, root)
    return root
def allfns(f):
    yield f
    for c in f.children: yield from allfns(c)
def owner(fn, name):
    # resolve binding scope for name used in fn
    f=fn
    first=True
    while f is not None:
        if getattr(f,'is_class',False) and not first: f=f.parent; continue
        if name in f.binds and not (name in f.nonlocals): return f
        first=False
        f=f.parent
    return None
def direct_nodes(fn):
    # nodes in fn body excluding nested function bodies
    out=[]
    def walk(n):
        for ch in ast.iter_child_nodes(n):
            if isinstance(ch,(ast.FunctionDef,ast.AsyncFunctionDef,ast.Lambda,ast.ClassDef)):
                continue
            out.append(ch); walk(ch)
    if isinstance(fn.node, ast.Lambda): out.append(fn.node.body); walk(fn.node.body)
    elif isinstance(fn.node, ast.Module):
        walk(fn.node)
    else:
        for st in fn.node.body: out.append(st); walk(st)
    return out
def classify(root, modname):
    fns=list(allfns(root))
    byname={}
    # roles: find Observable(x) / defer(x) / .subscribe(a,b,c) / schedule*(…, x) / Disposable(x)
    sub=set(); handlers=set(); actions=set(); disp=set(); deferred=set()
    for f in fns:
        for n in direct_nodes(f):
            if isinstance(n, ast.Call):
                fnm = n.func.id if isinstance(n.func, ast.Name) else (n.func.attr if isinstance(n.func, ast.Attribute) else None)
                def res(arg):
                    if isinstance(arg, ast.Name):
                        o=owner(f,arg.id)
                        if o:
                            for k,d in o.binds[arg.id]:
                                if k=='def':
                                    for c in o.children:
                                        if c.node is d: return c
                    if isinstance(arg, ast.Lambda):
                        for c in f.children:
                            if c.node is arg: return c
                        # lambda nested deeper in expression: search all
                        for c in fns:
                            if c.node is arg: return c
                    return None
                if fnm in ('Observable','create') and n.args:
                    r=res(n.args[0]); 
                    if r: sub.add(r)
                if fnm in ('defer','defer_') and n.args:
                    r=res(n.args[0]); 
                    if r: deferred.add(r)
                if fnm=='subscribe':
                    for a in list(n.args)+[k.value for k in n.keywords if k.arg in('on_next','on_error','on_completed')]:
                        r=res(a)
                        if r: handlers.add(r)
                if fnm in ('schedule','schedule_relative','schedule_absolute','schedule_periodic'):
                    for a in n.args:
                        r=res(a)
                        if r: actions.add(r)
                if fnm=='Disposable' and n.args:
                    r=res(n.args[0])
                    if r: disp.add(r)
    for f in fns:
        if isinstance(f.node,(ast.FunctionDef,)) and f.name in ('_subscribe_core',): sub.add(f)
    # stage assignment
    def is_curry(f):
        return isinstance(f.node, ast.FunctionDef) and any((isinstance(d,ast.Name) and d.id=='curry_flip') for d in f.node.decorator_list)
    def stage(f):
        if f.stage is not None: return f.stage
        if f.parent is None: f.stage=-1; return -1
        if getattr(f,'is_class',False): f.stage=stage(f.parent); return f.stage
        ps=stage(f.parent)
        if f in handlers or f in actions or f in disp: s=3
        elif f in sub or f in deferred: s=2
        elif f.parent.parent is None or getattr(f.parent,'is_class',False) and f.parent.parent.parent is None:
            # module-level function: L1 if curry_flip else L0
            s = 1 if is_curry(f) else 0
        else:
            # nested non-role function
            # application function: returned by parent and has a param named source/left/parent? approx: parent stage 0 and returned
            s=None
            if ps==0 and isinstance(f.node, ast.FunctionDef):
                for n in direct_nodes(f.parent):
                    if isinstance(n, ast.Return) and isinstance(n.value, ast.Name) and n.value.id==f.name:
                        s=1
            if s is None: s=ps  # helper inherits (approx: lexical)
        f.stage=max(s,ps) if ps is not None else s
        return f.stage
    for f in fns: stage(f)
    # helper promotion: helper called only from later-stage code -> approx skip
    return fns
def alloc_kind(f, name):
    kinds=[]
    for k,d in f.binds.get(name,[]):
        if k=='param': kinds.append('param')
        elif k=='assign':
            v = d.value if not isinstance(d, ast.AugAssign) else None
            if v is None: kinds.append('aug'); continue
            if isinstance(v,(ast.List,ast.Dict,ast.Set,ast.ListComp,ast.DictComp,ast.SetComp)): kinds.append('mutable-display')
            elif isinstance(v, ast.GeneratorExp): kinds.append('ONESHOT-genexp')
            elif isinstance(v, ast.Call):
                fnm = v.func.id if isinstance(v.func, ast.Name) else (v.func.attr if isinstance(v.func, ast.Attribute) else '?')
                if fnm in ONESHOT_CALLS: kinds.append('ONESHOT-'+fnm)
                else: kinds.append('call:'+fnm)
            else: kinds.append(type(v).__name__)
        else: kinds.append(k)
    return kinds
hits=[]
for path in sorted(glob.glob(ROOT+'/operators/*.py')+glob.glob(ROOT+'/observable/*.py')+glob.glob(ROOT+'/operators/connectable/*.py')+[ROOT+'/__init__.py',ROOT+'/internal/utils.py']):
    if path.endswith('operators/__init__.py'): continue
    tree=ast.parse(open(path).read())
    root=build(tree)
    fns=classify(root, path)
    for f in fns:
        if f.parent is None or getattr(f,'is_class',False): continue
        for n in direct_nodes(f):
            name=None; how=None
            if isinstance(n,(ast.Assign,ast.AugAssign,ast.AnnAssign)):
                tgts = n.targets if isinstance(n, ast.Assign) else [n.target]
                for t in tgts:
                    if isinstance(t, ast.Name) and t.id in f.nonlocals: name=t.id; how='rebind'
                    elif isinstance(t,(ast.Subscript,ast.Attribute)) and isinstance(t.value, ast.Name): name=t.value.id; how='store'
            elif isinstance(n, ast.Call) and isinstance(n.func, ast.Attribute) and n.func.attr in MUT and isinstance(n.func.value, ast.Name):
                name=n.func.value.id; how='.'+n.func.attr
            elif isinstance(n, ast.Call) and isinstance(n.func, ast.Name) and n.func.id=='next' and n.args and isinstance(n.args[0], ast.Name):
                name=n.args[0].id; how='next()'
            elif isinstance(n,(ast.For,)) and isinstance(n.iter, ast.Name):
                name=n.iter.id; how='for-in'
            elif isinstance(n, ast.Delete):
                for t in n.targets:
                    if isinstance(t,ast.Subscript) and isinstance(t.value, ast.Name): name=t.value.id; how='del'
            if not name: continue
            o = owner(f, name) if how!='rebind' else owner(f.parent, name)
            if o is None or o.parent is None: continue
            if o.stage is not None and f.stage is not None and o.stage < f.stage and o.stage<=1:
                hits.append((os.path.relpath(path,ROOT), o.qual(), o.stage, name, alloc_kind(o,name), f.qual(), f.stage, how, n.lineno))
seen=set()
for h in hits:
    key=(h[0],h[1],h[2],h[3],tuple(h[4]),h[5],h[6],h[7])
    if key in seen: continue
    seen.add(key); print(h)
print(len(seen))
