"""Recon prototype for E2: unguarded user-callable invocations."""
import ast, glob, os
ROOT='/repo/reactivex'
CB_ANN=('Mapper','MapperIndexed','Predicate','PredicateIndexed','Comparer','SubComparer','Accumulator','Callable')
EXCL_ANN=('Action','OnNext','OnError','OnCompleted','StartableFactory','ScheduledAction','Future')
def is_cb(arg):
    if arg.annotation is None: return False
    s=ast.unparse(arg.annotation)
    if any(x in s for x in ('OnNext','OnError','OnCompleted','typing.Action','StartableFactory','ScheduledAction','ScheduledPeriodicAction','Future[','Subscription')): return False
    return any(x in s for x in CB_ANN)
out=[]
for path in sorted(glob.glob(ROOT+'/operators/**/*.py',recursive=True)+glob.glob(ROOT+'/observable/*.py')):
    if path.endswith('__init__.py') or '/mixins/' in path: continue
    tree=ast.parse(open(path).read())
    parents={}
    for n in ast.walk(tree):
        for c in ast.iter_child_nodes(n): parents[c]=n
    # tainted names: module-wide (flat) set of names
    tainted=set()
    for n in ast.walk(tree):
        if isinstance(n,(ast.FunctionDef,ast.Lambda)):
            a=n.args
            for p in a.posonlyargs+a.args+a.kwonlyargs:
                if is_cb(p): tainted.add(p.arg)
    # aliases & wrappers to fixpoint
    changed=True
    while changed:
        changed=False
        for n in ast.walk(tree):
            if isinstance(n,(ast.Assign,ast.AnnAssign)) and getattr(n,'value',None) is not None:
                names={m.id for m in ast.walk(n.value) if isinstance(m, ast.Name)}
                # alias only if value is Name / BoolOp of names / cast(...)
                v=n.value
                simple = isinstance(v,(ast.Name,ast.BoolOp)) or (isinstance(v,ast.Call) and isinstance(v.func,ast.Name) and v.func.id=='cast')
                if simple and names & tainted:
                    tg = n.targets if isinstance(n, ast.Assign) else [n.target]
                    for t in tg:
                        if isinstance(t, ast.Name) and t.id not in tainted: tainted.add(t.id); changed=True
            if isinstance(n, ast.FunctionDef) and n.name not in tainted:
                # wrapper: calls tainted unguarded
                for m in ast.walk(n):
                    if isinstance(m, ast.Call) and isinstance(m.func, ast.Name) and m.func.id in tainted:
                        # guarded inside n?
                        g=False; p=m
                        while p is not n:
                            pp=parents[p]
                            if isinstance(pp, ast.Try) and p in pp.body: g=True
                            p=pp
                        if not g: tainted.add(n.name); changed=True; break
    # role classification: handlers/actions by being passed to subscribe/schedule
    l3=set()
    for n in ast.walk(tree):
        if isinstance(n, ast.Call) and isinstance(n.func, ast.Attribute) and n.func.attr in ('subscribe','schedule','schedule_relative','schedule_absolute','schedule_periodic'):
            for a in list(n.args)+[k.value for k in n.keywords]:
                if isinstance(a, ast.Name): l3.add(a.id)
                if isinstance(a, ast.Lambda): l3.add(id(a))
    for n in ast.walk(tree):
        if isinstance(n, ast.Call) and isinstance(n.func, ast.Name) and n.func.id in tainted:
            # find enclosing funcs chain and try
            p=n; guarded=False; chain=[]
            while p in parents:
                pp=parents[p]
                if isinstance(pp, ast.Try) and p in pp.body:
                    for h in pp.handlers:
                        if any(isinstance(m, ast.Attribute) and m.attr=='on_error' for m in ast.walk(h)) or any(isinstance(m, ast.Call) and getattr(m.func,'id',getattr(m.func,'attr',None)) in('throw','throw_') for m in ast.walk(h)):
                            guarded=True
                if isinstance(pp,(ast.FunctionDef,ast.Lambda)): chain.append(pp)
                p=pp
            inl3 = any((isinstance(f,ast.FunctionDef) and f.name in l3) or id(f) in l3 for f in chain)
            innermost = chain[0] if chain else None
            iname = innermost.name if isinstance(innermost, ast.FunctionDef) else '<lambda>'
            is_wrapper = iname in tainted or iname=='<lambda>'
            if not guarded:
                out.append((os.path.relpath(path,ROOT), n.lineno, n.func.id, iname, 'L3' if inl3 else '-', 'wrapper' if is_wrapper else ''))
for o in out: print(o)
print(len(out))
