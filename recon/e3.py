"""Recon prototype for E3: field accesses outside the class lock."""
import ast, glob, os
ROOT='/repo/reactivex'
LOCKS={'lock','_lock','_condition'}
for path in sorted(glob.glob(ROOT+'/disposable/*.py')+glob.glob(ROOT+'/subject/*.py')+glob.glob(ROOT+'/observer/*.py')+[ROOT+'/scheduler/eventloopscheduler.py',ROOT+'/scheduler/trampoline.py',ROOT+'/scheduler/virtualtimescheduler.py']):
    tree=ast.parse(open(path).read())
    for cls in [n for n in ast.walk(tree) if isinstance(n, ast.ClassDef)]:
        # fields written anywhere outside __init__
        fields=set(); initf=set()
        for m in [n for n in cls.body if isinstance(n, ast.FunctionDef)]:
            for n in ast.walk(m):
                if isinstance(n, ast.Attribute) and isinstance(n.value, ast.Name) and n.value.id in('self','parent') and isinstance(n.ctx, ast.Store):
                    (initf if m.name=='__init__' else fields).add(n.attr)
        lockname = next((f for f in initf if f in LOCKS), None)
        if not lockname: continue
        guarded = fields - LOCKS
        rep=[]
        for m in [n for n in cls.body if isinstance(n, ast.FunctionDef) and n.name!='__init__']:
            def walk(node, held):
                for ch in ast.iter_child_nodes(node):
                    h=held
                    if isinstance(ch, ast.With):
                        for it in ch.items:
                            s=ast.unparse(it.context_expr)
                            if s.endswith('.'+lockname): h=True
                    if isinstance(ch,(ast.FunctionDef,ast.Lambda)): 
                        walk(ch, False); continue
                    if isinstance(ch, ast.Attribute) and isinstance(ch.value, ast.Name) and ch.value.id in('self','parent') and ch.attr in guarded and not h:
                        rep.append((m.name, ch.lineno, ch.attr, 'W' if isinstance(ch.ctx, ast.Store) else 'R'))
                    walk(ch, h)
            walk(m, False)
        print(os.path.relpath(path,ROOT), cls.name, 'lock=',lockname, 'guarded=',sorted(guarded))
        for r in rep: print('    unlocked', r)
