"""Recon for E5/C39: fluent method param forwarding vs ops signature."""
import ast, glob
ops_tree=ast.parse(open('/repo/reactivex/operators/__init__.py').read())
ops={}
for fn in ops_tree.body:
    if isinstance(fn, ast.FunctionDef) and not any(ast.unparse(d)=='overload' for d in fn.decorator_list):
        ops[fn.name]=fn
def sig(fn, skip_self=False):
    a=fn.args
    pos=[p.arg for p in a.posonlyargs+a.args]
    if skip_self: pos=pos[1:]
    defaults=dict(zip(reversed([p.arg for p in a.posonlyargs+a.args]), reversed([ast.unparse(d) for d in a.defaults])))
    kwo={p.arg:(ast.unparse(d) if d is not None else None) for p,d in zip(a.kwonlyargs,a.kw_defaults)}
    return pos, defaults, kwo, (a.vararg.arg if a.vararg else None)
issues=[]; n=0
for path in sorted(glob.glob('/repo/reactivex/observable/mixins/*.py')):
    tree=ast.parse(open(path).read())
    for cls in [c for c in tree.body if isinstance(c, ast.ClassDef)]:
        for m in [f for f in cls.body if isinstance(f, ast.FunctionDef) and not f.name.startswith('_')]:
            if any(ast.unparse(d)=='overload' for d in m.decorator_list): continue
            n+=1
            mpos, mdef, mkwo, mvar = sig(m, True)
            calls=[c for c in ast.walk(m) if isinstance(c, ast.Call) and isinstance(c.func, ast.Attribute) and isinstance(c.func.value, ast.Name) and c.func.value.id=='ops']
            if not calls:
                issues.append((path.split('/')[-1], m.name, 'no ops call', [ast.unparse(s)[:80] for s in m.body[-1:]])); continue
            for c in calls:
                oname=c.func.attr
                if oname!=m.name: issues.append((path.split('/')[-1], m.name, 'delegates to', oname))
                if oname not in ops: issues.append((m.name,'unknown op',oname)); continue
                opos, odef, okwo, ovar = sig(ops[oname])
                # map call args to op params
                for i,a in enumerate(c.args):
                    if isinstance(a, ast.Starred):
                        src=ast.unparse(a.value); tgt=ovar
                    else:
                        src=ast.unparse(a); tgt = opos[i] if i<len(opos) else ovar
                    base = src.split('(')[-1].rstrip(')') if src.startswith('cast') else src
                    if isinstance(a,(ast.Name,ast.Starred)) and base!=tgt and not (isinstance(a,ast.Starred)):
                        issues.append((path.split('/')[-1], m.name, f'arg {src} -> param {tgt}'))
                for k in c.keywords:
                    if isinstance(k.value, ast.Name) and k.arg!=k.value.id:
                        issues.append((path.split('/')[-1], m.name, f'kw {k.value.id} -> {k.arg}'))
                # defaults
                for p,d in list(mdef.items())+[(k,v) for k,v in mkwo.items()]:
                    od = odef.get(p, okwo.get(p,'<none>'))
                    if od!=d and od!='<none>': issues.append((path.split('/')[-1], m.name, f'default {p}: fluent {d} vs op {od}'))
                    if od=='<none>' and p not in opos and p not in okwo: issues.append((path.split('/')[-1], m.name, f'param {p} not in op {oname}{opos}'))
print(n,'methods')
for i in issues: print(i)
