"""Recon for E6 terminal pass-through: classify on_error/on_completed slots of every .subscribe( in operators/observable."""
import ast, glob, os, collections
ROOT='/repo/reactivex'
def term_call(n):
    return isinstance(n, ast.Call) and isinstance(n.func, ast.Attribute) and n.func.attr in('on_completed','on_error') 
def all_paths_terminal(body):
    """True if every path through body performs a terminal *.on_completed/on_error call (any receiver)"""
    done=False
    for st in body:
        if isinstance(st, ast.Expr) and term_call(st.value): done=True
        elif isinstance(st, ast.If):
            if all_paths_terminal(st.body) and st.orelse and all_paths_terminal(st.orelse): done=True
        elif isinstance(st, ast.Try):
            ok = (all_paths_terminal(st.body) or all_paths_terminal(st.orelse or [])) and all(all_paths_terminal(h.body) for h in st.handlers)
            if ok: done=True
            if st.finalbody and all_paths_terminal(st.finalbody): done=True
        elif isinstance(st, ast.With):
            if all_paths_terminal(st.body): done=True
        elif isinstance(st, ast.Return):
            if st.value is not None and term_call(st.value): done=True
            return done
    return done
stats=collections.Counter(); rows=[]
for path in sorted(glob.glob(ROOT+'/operators/**/*.py',recursive=True)+glob.glob(ROOT+'/observable/*.py')):
    if path.endswith('__init__.py') or '/mixins/' in path: continue
    tree=ast.parse(open(path).read())
    defs=collections.defaultdict(list)
    for n in ast.walk(tree):
        if isinstance(n, ast.FunctionDef): defs[n.name].append(n)
    for n in ast.walk(tree):
        if isinstance(n, ast.Call) and isinstance(n.func, ast.Attribute) and n.func.attr=='subscribe':
            slots=list(n.args)
            kw={k.arg:k.value for k in n.keywords}
            for idx,nm in ((1,'on_error'),(2,'on_completed')):
                a = slots[idx] if len(slots)>idx else kw.get(nm)
                if len(slots)==1 and not isinstance(slots[0],(ast.Lambda,)) and idx>0 and a is None:
                    # observer passed whole or only on_next
                    kind='(observer/none)'
                elif a is None: kind='none'
                elif isinstance(a, ast.Attribute) and a.attr==nm: kind='pass-through'
                elif isinstance(a, ast.Attribute): kind='attr:'+a.attr
                elif isinstance(a, ast.Name):
                    if a.id in defs:
                        oks=[all_paths_terminal(d.body) for d in defs[a.id]]
                        kind='handler:all-paths-terminal' if all(oks) else 'handler:CONDITIONAL'
                    else: kind='name:'+a.id
                elif isinstance(a, ast.Lambda): kind='lambda'
                else: kind=type(a).__name__
                stats[(nm,kind)]+=1
                if kind in('handler:CONDITIONAL','lambda','none') or kind.startswith('name:') or kind.startswith('attr:'):
                    rows.append((os.path.relpath(path,ROOT), n.lineno, nm, kind, ast.unparse(a)[:30] if a is not None else ''))
for k,v in sorted(stats.items()): print(k,v)
for r in rows: print(r)
