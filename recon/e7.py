"""Recon prototype for E7: subscription ownership (held-by reachability to the returned disposable)."""
import ast, glob, os, collections
ROOT='/repo/reactivex'
ACQ={'subscribe','schedule','schedule_relative','schedule_absolute','schedule_periodic'}
CONT={'CompositeDisposable','RefCountDisposable','ScheduledDisposable','Disposable'}
def fname(call):
    f=call.func
    return f.id if isinstance(f, ast.Name) else (f.attr if isinstance(f, ast.Attribute) else None)
class G:
    def __init__(s): s.e=collections.defaultdict(set); s.acq=[]
    def edge(s,a,b):
        if a is not None and b is not None: s.e[a].add(b)
def analyse_subscribe(fn, path, out):
    g=G()
    RET=('RET',)
    # map nested function name -> node (flat; names unique enough per closure tree)
    defs={}
    for n in ast.walk(fn):
        if isinstance(n,(ast.FunctionDef,)) and n is not fn: defs[n.name]=n
    cnt=[0]
    def node_of(e, cur):
        """return graph node id for expression e; create edges for nested constructs"""
        if e is None: return None
        if isinstance(e, ast.Name): return ('v', e.id)
        if isinstance(e, ast.Subscript): return node_of(e.value, cur)
        if isinstance(e, ast.Attribute):
            if e.attr=='disposable':   # x.disposable read: refcount dependent or container read
                cnt[0]+=1; nid=('acq', e.lineno, cnt[0], ast.unparse(e)[:50]); g.acq.append(nid); return nid
            return ('v', ast.unparse(e))
        if isinstance(e,(ast.List,ast.Tuple)):
            cnt[0]+=1; nid=('lst',e.lineno,cnt[0])
            for x in e.elts: g.edge(node_of(x,cur), nid)
            return nid
        if isinstance(e, ast.ListComp):
            cnt[0]+=1; nid=('lst',e.lineno,cnt[0]); g.edge(node_of(e.elt,cur), nid); return nid
        if isinstance(e, ast.BinOp):
            cnt[0]+=1; nid=('lst',e.lineno,cnt[0]); g.edge(node_of(e.left,cur),nid); g.edge(node_of(e.right,cur),nid); return nid
        if isinstance(e, ast.IfExp):
            cnt[0]+=1; nid=('if',e.lineno,cnt[0]); g.edge(node_of(e.body,cur),nid); g.edge(node_of(e.orelse,cur),nid); return nid
        if isinstance(e, ast.Starred): return node_of(e.value, cur)
        if isinstance(e, ast.Call):
            nm=fname(e)
            if nm in ACQ and isinstance(e.func, ast.Attribute):
                cnt[0]+=1; nid=('acq', e.lineno, cnt[0], ast.unparse(e.func)[:50]); g.acq.append(nid)
                # scheduled action returning disposables: returned values of the action flow to this acquisition
                for a in e.args:
                    if isinstance(a, ast.Name) and a.id in defs and nm!='subscribe':
                        g.edge(('retof',a.id), nid)
                return nid
            if nm in CONT:
                cnt[0]+=1; nid=('cont',nm,e.lineno,cnt[0])
                for a in e.args:
                    if nm=='Disposable' and isinstance(a, ast.Name) and a.id in defs:
                        # disposables disposed inside the fn are held by this Disposable
                        for m in ast.walk(defs[a.id]):
                            if isinstance(m, ast.Call) and isinstance(m.func, ast.Attribute) and m.func.attr=='dispose':
                                g.edge(node_of(m.func.value,cur), nid)
                    else:
                        g.edge(node_of(a,cur), nid)
                return nid
            if nm=='cast' and len(e.args)==2: return node_of(e.args[1],cur)
            if nm=='add_ref':
                cnt[0]+=1; return ('other',e.lineno,cnt[0])
            if isinstance(e.func, ast.Name) and e.func.id in defs:
                # local helper call: its return value
                for a in e.args: node_of(a,cur)
                return ('retof', e.func.id)
            if isinstance(e.func, ast.Call):  # synchronized(lock)(f) etc
                return None
            # generic call: evaluate args for nested acquisitions
            for a in list(e.args)+[k.value for k in e.keywords]: 
                n=node_of(a,cur)
            return None
        return None
    def stmts(body, cur):
        for st in body:
            if isinstance(st,(ast.FunctionDef,)):
                stmts(st.body, st.name); continue
            if isinstance(st, ast.ClassDef): continue
            if isinstance(st, ast.Return):
                n=node_of(st.value, cur)
                g.edge(n, RET if cur is None else ('retof',cur))
            elif isinstance(st,(ast.Assign,ast.AnnAssign)):
                if st.value is None: continue
                n=node_of(st.value,cur)
                tg = st.targets if isinstance(st, ast.Assign) else [st.target]
                for t in tg:
                    if isinstance(t, ast.Attribute) and t.attr=='disposable':
                        g.edge(n, node_of(t.value,cur))
                    elif isinstance(t, ast.Name):
                        g.edge(n, ('v',t.id)); 
                    elif isinstance(t, ast.Subscript):
                        g.edge(n, node_of(t.value,cur))
                    elif isinstance(t, ast.Attribute):
                        g.edge(n, ('v',ast.unparse(t)))
            elif isinstance(st, ast.Expr):
                v=st.value
                if isinstance(v, ast.Call) and isinstance(v.func, ast.Attribute) and v.func.attr in ('add','append') and v.args:
                    g.edge(node_of(v.args[0],cur), node_of(v.func.value,cur))
                else:
                    n=node_of(v,cur)
            # recurse into compound statements
            for fld in ('body','orelse','finalbody'):
                sub=getattr(st,fld,None)
                if isinstance(sub,list) and sub and isinstance(sub[0], ast.stmt) and not isinstance(st,(ast.FunctionDef,ast.ClassDef)):
                    stmts(sub,cur)
            if isinstance(st, ast.Try):
                for h in st.handlers: stmts(h.body,cur)
            if isinstance(st,(ast.If,ast.While)):
                node_of(st.test,cur)
    stmts(fn.body, None)
    # reachability
    def reach(n):
        seen={n}; st=[n]
        while st:
            x=st.pop()
            if x==RET: return True
            for y in g.e.get(x,()):
                if y not in seen: seen.add(y); st.append(y)
        return False
    for a in g.acq:
        ok=reach(a)
        out.append((ok, os.path.relpath(path,ROOT), fn.name, a[1], a[3]))
out=[]
for path in sorted(glob.glob(ROOT+'/operators/**/*.py',recursive=True)+glob.glob(ROOT+'/observable/*.py')+[ROOT+'/internal/utils.py',ROOT+'/notification.py']):
    if path.endswith('operators/__init__.py'): continue
    tree=ast.parse(open(path).read())
    subs=set()
    for n in ast.walk(tree):
        if isinstance(n, ast.Call) and fname(n) in ('Observable','create') and n.args and isinstance(n.args[0], ast.Name):
            subs.add(n.args[0].id)
    for n in ast.walk(tree):
        if isinstance(n, ast.FunctionDef) and (n.name in subs or n.name=='_subscribe_core'):
            # skip nested 'subscribe' helper inside merge (not passed to Observable at that level) - crude
            analyse_subscribe(n, path, out)
bad=[o for o in out if not o[0]]
print('acquisitions', len(out), 'unowned', len(bad))
for b in bad: print(b)
