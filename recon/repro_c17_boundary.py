from reactivex import operators as ops
from reactivex.testing import TestScheduler, ReactiveTest
on_next, on_completed = ReactiveTest.on_next, ReactiveTest.on_completed
for extra in (False, True):
    s=TestScheduler()
    msgs=[on_next(210,'a')]+([on_next(310,'b')] if extra else [])+[on_completed(310)]
    xs=s.create_hot_observable(*msgs)
    res=s.start(lambda: xs.pipe(ops.take_last_with_time(100)))
    print('extra' if extra else 'plain', [ (m.time, str(m.value)) for m in res.messages])
