import reactivex as rx, threading, sys
from reactivex import operators as ops
from reactivex.testing import TestScheduler, ReactiveTest
def collect(o):
    out=[]; o.subscribe(out.append, lambda e: out.append(('E',repr(e))), lambda: out.append('C')); return out
# C04 catch twice
c = rx.catch(rx.throw(Exception('x')), rx.of(1,2))
print('catch 1st', collect(c)); print('catch 2nd', collect(c))
m = rx.of('a','b').pipe(ops.map_indexed(lambda x,i:(x,i)))
print('map_indexed', collect(m), collect(m))
w = rx.of(1).pipe(ops.while_do(lambda _: next(it)))
f = rx.for_in([1,2], lambda x: rx.of(x))
print('for_in', collect(f), collect(f))
# C44
rc = ops.ref_count()
# C08
print('skip_last', collect(rx.of(None, 0, 1, 2).pipe(ops.skip_last(1))))
# C07
xs = list(range(10))
print('slice[-2:5]', collect(rx.from_iterable(xs)[-2:5]), xs[-2:5])
print('slice[-1]', collect(rx.from_iterable(xs)[-1]))
# C41
def cb(a, handler): handler(a)
print('from_callback mapper', collect(rx.from_callback(cb, lambda args: args[0]*2)(21)))
print('from_callback', collect(rx.from_callback(cb)(21)))
# C37 zero delay
from reactivex.scheduler import HistoricalScheduler
ts = TestScheduler()
out=[]
try:
    rx.generate_with_relative_time(0, lambda s: s<3, lambda s:s+1, lambda s: 0).subscribe(out.append, lambda e: out.append(('E',repr(e))), lambda: out.append('C'), scheduler=ts)
    ts.start()
except BaseException as e:
    print('gwrt raised', type(e))
print('gwrt', out)
# C29
def run():
    hs = HistoricalScheduler()
    n=[0]
    def act(s, st): n[0]+=1
    for i in range(150): hs.schedule(act)
    try:
        hs.start(); print('hist start returned', n[0])
    except BaseException as e: print('hist raised', type(e), e, n[0])
t=threading.Thread(target=run, daemon=True); t.start(); t.join(5); print('hist alive(deadlock)?', t.is_alive())
sys.stdout.flush()
import os; os._exit(0)
