import reactivex as rx
from reactivex import operators as ops
from reactivex.subject import Subject
def collect(o):
    out=[]; o.subscribe(out.append, lambda e: out.append(('E',repr(e))), lambda: out.append('C')); return out
# C04 on_error_resume_next twice
o = rx.on_error_resume_next(rx.of(1), rx.of(2))
print('oern', collect(o), collect(o))
flag=[True]
def cond(_):
    v=flag[0]; flag[0]=False; return v
w = rx.of(7).pipe(ops.while_do(lambda _: True), ops.take(2))
print('while_do', collect(w), collect(w))
cnt=[0]
def c2(_):
    cnt[0]+=1; return cnt[0]%3!=0
w2 = rx.of(7).pipe(ops.while_do(c2))
print('while_do2', collect(w2), collect(w2))
# C44 ref_count shared
rc = ops.ref_count()
s1, s2 = Subject(), Subject()
log=[]
def src(name):
    def sub(obs, sch=None):
        log.append('sub '+name)
        from reactivex.disposable import Disposable
        return Disposable(lambda: log.append('unsub '+name))
    return rx.create(sub)
a = src('A').pipe(ops.publish(), rc)
b = src('B').pipe(ops.publish(), rc)
da = a.subscribe(); db = b.subscribe()
print('ref_count shared op', log)   # expect sub A, sub B; shared count -> B never connects
rp = ops.replay(buffer_size=2)
x = rx.of(1,2,3).pipe(rp); y = rx.of(10,20).pipe(rp)
x.connect(); 
print('replay shared', collect(y))  # y should be silent before connect; shared subject replays x's values
# C09 distinct comparer raising via hot subject
subj=Subject()
def bad(a,b): raise ValueError('cmp')
got=[]
subj.pipe(ops.distinct(comparer=bad)).subscribe(got.append, lambda e: got.append(('E',repr(e))))
try:
    subj.on_next(1); subj.on_next(2); print('distinct delivered', got)
except Exception as e: print('distinct comparer escaped into emitter:', repr(e), got)
import os; os._exit(0)
