import reactivex as rx, itertools, collections
from reactivex import operators as ops
def collect(o):
    out=[]; o.subscribe(out.append, lambda e: out.append(('E',repr(e))), lambda: out.append('C')); return out
bad=collections.Counter(); tot=0
vals=[None]+list(range(-4,5))
for n in range(0,7):
    xs=list(range(n))
    for a in vals:
        for b in vals:
            for st in (None,1,2,3):
                tot+=1
                exp=xs[a:b:st]+['C']
                got=collect(rx.from_iterable(xs).pipe(ops.slice(a,b,st)))
                if got!=exp:
                    sg=lambda v: 'None' if v is None else ('neg' if v<0 else ('zero' if v==0 else 'pos'))
                    bad[(sg(a),sg(b))]+=1
print(tot, dict(bad))
# getitem int
for n in range(1,5):
    xs=list(range(n))
    for i in range(-n,n):
        got=collect(rx.from_iterable(xs)[i]); 
        if got!=[xs[i],'C']: print('getitem', n, i, got)
import os; os._exit(0)
