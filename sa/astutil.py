"""Small AST helpers shared by the engines."""
from __future__ import annotations

import ast
from typing import Iterable, List, Optional, Tuple

FLIP = {ast.Lt: ast.Gt, ast.Gt: ast.Lt, ast.LtE: ast.GtE, ast.GtE: ast.LtE,
        ast.Eq: ast.Eq, ast.NotEq: ast.NotEq}
NEG = {ast.Lt: ast.GtE, ast.Gt: ast.LtE, ast.LtE: ast.Gt, ast.GtE: ast.Lt,
       ast.Eq: ast.NotEq, ast.NotEq: ast.Eq, ast.Is: ast.IsNot, ast.IsNot: ast.Is,
       ast.In: ast.NotIn, ast.NotIn: ast.In}
OPSTR = {ast.Lt: "<", ast.Gt: ">", ast.LtE: "<=", ast.GtE: ">=", ast.Eq: "==",
         ast.NotEq: "!=", ast.Is: "is", ast.IsNot: "is not", ast.In: "in", ast.NotIn: "not in"}


def u(node: Optional[ast.AST]) -> str:
    """Normalised source text of a node (ast.unparse; position independent)."""
    if node is None:
        return ""
    try:
        return ast.unparse(node)
    except Exception:  # pragma: no cover
        return ast.dump(node)


def short(node: ast.AST, n: int = 90) -> str:
    s = " ".join(u(node).split())
    return s if len(s) <= n else s[: n - 3] + "..."


def dotted(e: ast.AST) -> Optional[str]:
    """a.b.c for Name/Attribute chains (subscripts `x[0]` kept as x[0])."""
    if isinstance(e, ast.Name):
        return e.id
    if isinstance(e, ast.Attribute):
        b = dotted(e.value)
        return None if b is None else b + "." + e.attr
    if isinstance(e, ast.Subscript):
        b = dotted(e.value)
        if b is None:
            return None
        return b + "[" + u(e.slice) + "]"
    if isinstance(e, ast.Call) and isinstance(e.func, ast.Name) and e.func.id == "super" and not e.args:
        return "super()"
    return None


def call_name(c: ast.AST) -> Optional[str]:
    """Last component of the callee of a Call."""
    if not isinstance(c, ast.Call):
        return None
    f = c.func
    if isinstance(f, ast.Name):
        return f.id
    if isinstance(f, ast.Attribute):
        return f.attr
    return None


def callee_dotted(c: ast.Call) -> Optional[str]:
    return dotted(c.func)


def is_method_call(n: ast.AST, attr: str, obj: Optional[str] = None) -> bool:
    if not (isinstance(n, ast.Call) and isinstance(n.func, ast.Attribute) and n.func.attr == attr):
        return False
    if obj is None:
        return True
    return dotted(n.func.value) == obj


def strip_cast(e: ast.AST) -> ast.AST:
    """cast(T, x) -> x ; typing.cast too."""
    while isinstance(e, ast.Call) and call_name(e) == "cast" and len(e.args) == 2:
        e = e.args[1]
    return e


def names_in(e: ast.AST) -> set:
    return {n.id for n in ast.walk(e) if isinstance(n, ast.Name)}


def arg_of(call: ast.Call, pos: int, kw: Optional[str] = None) -> Optional[ast.AST]:
    if pos is not None and pos < len(call.args) and not any(isinstance(a, ast.Starred) for a in call.args[: pos + 1]):
        return call.args[pos]
    if kw is not None:
        for k in call.keywords:
            if k.arg == kw:
                return k.value
    return None


# -- guard atoms -------------------------------------------------------------

Atom = Tuple[ast.AST, bool]  # (expression, polarity)


def atoms(test: ast.AST, pol: bool = True) -> List[Atom]:
    """Facts known when `test` evaluated to `pol`.  Conjunctions (and the
    negation of disjunctions) are split; `not` is pushed; negated comparisons
    are rewritten with the complementary operator."""
    if isinstance(test, ast.UnaryOp) and isinstance(test.op, ast.Not):
        return atoms(test.operand, not pol)
    if isinstance(test, ast.BoolOp):
        if (isinstance(test.op, ast.And) and pol) or (isinstance(test.op, ast.Or) and not pol):
            out: List[Atom] = []
            for v in test.values:
                out += atoms(v, pol)
            return out
        return [(test, pol)]
    if isinstance(test, ast.Compare) and len(test.ops) == 1 and not pol and type(test.ops[0]) in NEG:
        new = ast.Compare(left=test.left, ops=[NEG[type(test.ops[0])]()], comparators=test.comparators)
        return [(new, True)]
    return [(test, pol)]


def atom_str(a: Atom) -> str:
    e, pol = a
    s = u(e)
    return s if pol else f"not ({s})"


def compare_parts(e: ast.AST) -> Optional[Tuple[str, str, str]]:
    """(left, op, right) texts of a single comparison."""
    if isinstance(e, ast.Compare) and len(e.ops) == 1:
        return u(e.left), OPSTR.get(type(e.ops[0]), "?"), u(e.comparators[0])
    return None


def compare_norm(e: ast.AST, left_is) -> Optional[Tuple[str, ast.AST]]:
    """Normalise a single comparison so that the operand satisfying
    `left_is(node)` is on the left.  Returns (op, other) or None."""
    if not (isinstance(e, ast.Compare) and len(e.ops) == 1):
        return None
    op = type(e.ops[0])
    l, r = e.left, e.comparators[0]
    if left_is(l):
        return OPSTR.get(op, "?"), r
    if left_is(r) and op in FLIP:
        return OPSTR[FLIP[op]], l
    return None


def block_always_exits(body: List[ast.stmt]) -> bool:
    """Every path through `body` leaves the enclosing block sequence
    (return / raise / continue / break)."""
    if not body:
        return False
    last = body[-1]
    if isinstance(last, (ast.Return, ast.Raise, ast.Continue, ast.Break)):
        return True
    if isinstance(last, ast.If):
        return bool(last.orelse) and block_always_exits(last.body) and block_always_exits(last.orelse)
    if isinstance(last, (ast.With, ast.AsyncWith)):
        return block_always_exits(last.body)
    if isinstance(last, ast.Try):
        if last.finalbody and block_always_exits(last.finalbody):
            return True
        bodies = [last.body + last.orelse] + [h.body for h in last.handlers]
        return all(block_always_exits(b) for b in bodies)
    return False


def stmt_lists(node: ast.AST) -> Iterable[List[ast.stmt]]:
    for fld in ("body", "orelse", "finalbody"):
        v = getattr(node, fld, None)
        if isinstance(v, list) and v and isinstance(v[0], ast.stmt):
            yield v
    if isinstance(node, ast.Try):
        for h in node.handlers:
            yield h.body


_LOG_ROOTS = {"log", "logger", "logging", "warnings", "_log", "LOG"}


def is_noise(st: ast.AST) -> bool:
    """A statement with no effect on any property: a bare constant (stray string / `...`), `pass`, or a call on a logger
    (`log.debug(...)`, `logging.warning(...)`, `warnings.warn(...)`, `print(...)`) whose arguments call nothing."""
    if isinstance(st, ast.Pass):
        return True
    if isinstance(st, ast.Expr) and isinstance(st.value, ast.Constant):
        return True
    if isinstance(st, ast.Expr) and isinstance(st.value, ast.Call):
        c = st.value
        root = c.func
        while isinstance(root, ast.Attribute):
            root = root.value
        if isinstance(root, ast.Name) and (root.id in _LOG_ROOTS or (root.id == "print" and isinstance(c.func, ast.Name))):
            return not any(isinstance(x, ast.Call) for a in list(c.args) + [k.value for k in c.keywords] for x in ast.walk(a))
    return False


def effective(body) -> list:
    """the statements of a block that can matter (noise removed)"""
    return [st for st in body if not is_noise(st)]


def handed_callback(a: ast.AST, names=None) -> Optional[str]:
    """`self._on_error` or `lambda: self._on_error(error)` handed to a helper -> "_on_error" (names: accepted attribute names)."""
    if isinstance(a, ast.Lambda) and isinstance(a.body, ast.Call):
        a = a.body.func
    if isinstance(a, ast.Attribute) and isinstance(a.value, ast.Name) and a.value.id == "self" and (
            a.attr in names if names is not None else a.attr.startswith("_on_")):
        return a.attr
    return None
