"""Check infrastructure: obligations, violations, evidence, known findings."""
from __future__ import annotations

import ast
import hashlib
import json
import os
import time
from typing import Any, Dict, List, Optional

from .frontend import AnalysisError, Fn, Repo

VERIF = os.path.dirname(os.path.dirname(os.path.abspath(__file__)))
EVID_DIR = os.environ.get("RXSA_EVID_DIR") or os.path.join(VERIF, "evidence")
VIOL_DIR = os.path.join(EVID_DIR, "violations")
KNOWN_FILE = os.path.join(VERIF, "known_findings.json")


class Violation:
    def __init__(self, prop: str, rule: str, where: str, construct: str, detail: str):
        self.prop, self.rule, self.where, self.construct, self.detail = prop, rule, where, construct, detail

    @property
    def key(self) -> Dict[str, str]:
        return {"property": self.prop, "rule": self.rule, "where": self.where, "construct": self.construct}

    @property
    def digest(self) -> str:
        s = "|".join([self.prop, self.rule, self.where, self.construct])
        return hashlib.sha1(s.encode()).hexdigest()[:12]


class Report:
    """Collects what one property check analysed."""

    def __init__(self, prop: str, tier: str, repo: Repo):
        self.prop = prop
        self.tier = tier
        self.repo = repo
        self.obligations = 0
        self.discharged = 0
        self.nontrivial: set = set()
        self.samples: List[Dict[str, Any]] = []
        self.violations: List[Violation] = []
        self.rules: Dict[str, Dict[str, Any]] = {}
        self.notes: List[str] = []
        self.assumptions: List[str] = []
        self.explanation = ""
        self.extra: Dict[str, Any] = {}
        self._seen_v: set = set()
        self.touched: set = set()

    # -- rule registry ---------------------------------------------------
    def rule(self, rid: str, text: str, floor: int = 1) -> None:
        self.rules[rid] = {"text": text, "instances": 0, "violations": 0, "floor": floor}

    def ob(self, rule: str, where: Any, construct: str, ok: bool, detail: str = "",
           nontrivial: bool = True) -> bool:
        """Record one evaluated obligation (rule instance)."""
        if rule not in self.rules:
            raise AnalysisError(f"unregistered rule {rule}")
        w = where.ref if isinstance(where, Fn) else str(where)
        if "::" in w:
            self.touched.add(w.split("::")[0])
        self.obligations += 1
        self.rules[rule]["instances"] += 1
        if nontrivial:
            self.nontrivial.add((rule, w, construct))
        if ok:
            self.discharged += 1
        else:
            self.rules[rule]["violations"] += 1
            v = Violation(self.prop, rule, w, construct, detail)
            if v.digest not in self._seen_v:
                self._seen_v.add(v.digest)
                self.violations.append(v)
        if len(self.samples) < 400:
            self.samples.append({"rule": rule, "where": w, "construct": construct,
                                 "verdict": "ok" if ok else "VIOLATION", "detail": detail})
        return ok

    def require(self, cond: Any, what: str) -> None:
        if not cond:
            raise AnalysisError(f"{self.prop}: anchor/idiom not found: {what}")

    def new_violations(self) -> List["Violation"]:
        """violations that no recorded known finding accounts for — only these can stand in for a vanished anchor or a
        shortfall of instances (a known finding is present on the unchanged tree too and explains neither)"""
        known = load_known()
        return [v for v in self.violations if match_known(v, known) is None]

    def check_floors(self) -> None:
        # a check that already reports a violation is not passing vacuously: a shortfall of instances is then part of
        # the breakage it reports (a removed flag / counter / handler), not a blind spot
        if self.new_violations():
            return
        for rid, r in self.rules.items():
            if r["instances"] < r["floor"]:
                raise AnalysisError(
                    f"{self.prop}: rule {rid} matched {r['instances']} instances, floor {r['floor']} "
                    f"(the rule would pass vacuously)")


def run_check(mod, repo: Repo, rep: "Report") -> None:
    """Well-formedness of the property's anchor files first (E12: undefined names, cell indices), then the property's own rules,
    then the instance floors.  An anchor that vanishes *after* violations were already recorded is part of the breakage being
    reported, not a blind spot: the violations are reported (exit 1) with a note; without any violation it is an analysis error."""
    wellformed(repo, rep)
    try:
        mod.check(repo, rep)
    except AnalysisError as e:
        if not rep.new_violations():
            raise
        rep.notes.append(f"analysis stopped early ({e}); the violations recorded before that point are reported")
        return
    wellformed(repo, rep, only_touched=True)
    rep.check_floors()


_ANCHORS: Dict[str, List[str]] = {}


def anchor_files(prop: str) -> List[str]:
    if not _ANCHORS:
        with open(os.path.join(VERIF, "properties.jsonl")) as fh:
            for line in fh:
                if line.strip():
                    d = json.loads(line)
                    _ANCHORS[d["id"]] = list(d.get("anchors", {}).get("files", []))
    return _ANCHORS.get(prop, [])


def wellformed(repo: Repo, rep: "Report", only_touched: bool = False) -> None:
    from .engines import wellformed as W
    rid = "W0-wellformed"
    if rid not in rep.rules:
        rep.rule(rid, "E12: no load of a name bound nowhere (NameError), no local read on a path that has not assigned it (UnboundLocalError), no "
                      "one-element closure cell indexed past 0 (IndexError) in the property's anchor files and in every module its rules read", floor=1)
        rep.ob(rid, "sa/engines/wellformed.py", "embedded positive example is reported (witness for a zero-expected rule)", W.selfcheck(),
               "the well-formedness engine no longer reports its embedded positive example")
        rep._wf_done = set()
    rels = sorted(rep.touched) if only_touched else [r for r in anchor_files(rep.prop) if r.endswith(".py")]
    for rel in rels:
        if rel in rep._wf_done:
            continue
        rep._wf_done.add(rel)
        m = repo.modules.get(rel) if hasattr(repo, "modules") else None
        if m is None:
            continue
        cache_ = getattr(repo, "_wf_cache", None)
        if cache_ is None:
            cache_ = repo._wf_cache = {}
        if rel in cache_:
            und, bad, unb, una = cache_[rel]
            rep.ob(rid, f"{rel}::<module>", f"{rel}: names resolve, locals assigned on every path to their reads, attributes defined, cell indices in range",
                   not und and not bad and not unb and not una, _wf_detail(und, bad, unb, una))
            continue
        und = W.undefined_names(m.src, rel)
        bad = W.bad_cell_indices(m.src)
        unb = W.possibly_unbound(m.src)
        cls_ = {f"{n_.name}@{n_.lineno}": n_ for n_ in ast.walk(m.tree) if isinstance(n_, ast.ClassDef)}
        owner_ = getattr(repo, "_class_owner", None)
        if owner_ is None:
            owner_ = {}
            for mm in repo.modules.values():
                for n_ in ast.walk(mm.tree):
                    if isinstance(n_, ast.ClassDef):
                        owner_[id(n_)] = mm
            repo._class_owner = owner_

        def _resolve(k, b):
            mm = owner_.get(id(k))
            try:
                t = repo.resolve_expr(mm.fn_at(k), b.value if isinstance(b, ast.Subscript) else b) if mm is not None else None
            except Exception:  # noqa: BLE001
                t = None
            return t.node if t is not None and getattr(t, "is_class", False) else None
        una = W.undefined_attributes(cls_, _resolve) if cls_ else []
        una = list(una) + [(ln, "<type test>", f"{nm}|{txt}") for ln, nm, txt in W.misdirected_type_tests(m.src)]
        cache_[rel] = (und, bad, unb, una)
        rep.ob(rid, f"{rel}::<module>", f"{rel}: names resolve, locals assigned on every path to their reads, attributes defined, cell indices in range",
               not und and not bad and not unb and not una, _wf_detail(und, bad, unb, una))


def _wf_detail(und, bad, unb, una) -> str:
    return "; ".join(
        [f"line {ln}: `self.{a}` is read in class {c.split('@')[0]} but neither the class nor any of its bases assigns or defines it "
         f"(AttributeError when reached: the assignment in __init__ is gone)" for ln, c, a in una if c != "<type test>"] +
        [f"line {ln}: `{a.split('|')[1]}` tests `{a.split('|')[0]}`, which neither branch uses, while the branches convert / select another value: the "
         f"representation of that value is decided by looking at the wrong variable" for ln, c, a in una if c == "<type test>"] +
        [f"line {ln}: local `{nm}` of {fn_}() is read on a path on which no assignment to it has run (UnboundLocalError; the repository's own "
         f"type-check configuration, pyright strict, rejects possibly-unbound locals)" for ln, nm, fn_ in unb] +
        [f"line {ln}: `{nm}` is loaded in {sc}() but bound in no enclosing scope, not at module level and not a builtin "
         f"(NameError when reached: the assignment that defined it is gone)" for ln, nm, sc in und] +
        [f"line {ln}: one-element cell `{c}` indexed with {i} (IndexError when reached)" for ln, c, i in bad])


def load_known() -> List[Dict[str, Any]]:
    if not os.path.exists(KNOWN_FILE):
        return []
    with open(KNOWN_FILE) as fh:
        return json.load(fh).get("findings", [])


def match_known(v: Violation, known: List[Dict[str, Any]]) -> Optional[Dict[str, Any]]:
    for k in known:
        if k.get("status") != "known":
            continue
        if k.get("property") != v.prop:
            continue
        kk = k.get("key", {})
        if kk.get("rule") == v.rule and kk.get("where") == v.where and kk.get("construct") == v.construct:
            return k
    return None


def write_evidence(rep: Report, seed: int, wall: float, n_unlisted: int, known_hits: List[str],
                   front: Dict[str, Any]) -> str:
    os.makedirs(EVID_DIR, exist_ok=True)
    samples = rep.samples
    # deterministic selection; the seed only rotates which samples are shown first
    if samples:
        k = seed % len(samples)
        samples = samples[k:] + samples[:k]
    viol_samples = [s for s in samples if s["verdict"] != "ok"]
    ok_samples = [s for s in samples if s["verdict"] == "ok"]
    shown = viol_samples[:40] + ok_samples[: max(10, 60 - len(viol_samples[:40]))]
    ev = {
        "property_id": rep.prop,
        "tier": rep.tier,
        "seed": seed,
        "level": "other",
        "coverage": {
            "explanation": rep.explanation,
            "obligations": rep.obligations,
            "discharged": rep.discharged,
            "evaluations": max(rep.obligations, 0),
            "distinct_nontrivial": len(rep.nontrivial),
            "rule": "every rule instance is a (rule, function, construct) triple enumerated from the parsed tree; "
                    "non-trivial = the construct carries at least one obligation that is not vacuous",
            "rules": rep.rules,
            "samples": shown,
            "exhaustive": True,
            "front_end": front,
            "known_findings_reported": known_hits,
            "notes": rep.notes,
            **rep.extra,
        },
        "assumptions": rep.assumptions,
        "wall_s": round(wall, 3),
        "violations": n_unlisted,
    }
    path = os.path.join(EVID_DIR, f"{rep.prop}.json")
    tmp = path + ".tmp"
    with open(tmp, "w") as fh:
        json.dump(ev, fh, indent=1, default=str)
    os.replace(tmp, path)
    return path


def write_violation(v: Violation) -> str:
    os.makedirs(VIOL_DIR, exist_ok=True)
    path = os.path.join(VIOL_DIR, f"{v.prop}-{v.digest}.json")
    with open(path, "w") as fh:
        json.dump({"key": v.key, "detail": v.detail}, fh, indent=1)
    return path
