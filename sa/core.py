"""Check infrastructure: obligations, violations, evidence, known findings."""
from __future__ import annotations

import hashlib
import json
import os
import time
from typing import Any, Dict, List, Optional

from .frontend import AnalysisError, Fn, Repo

VERIF = os.path.dirname(os.path.dirname(os.path.abspath(__file__)))
EVID_DIR = os.environ.get("RXSA_EVID_DIR") or os.path.join(VERIF, "evidence")
VIOL_DIR = os.path.join(EVID_DIR, "violations")
KNOWN_FILE = os.path.join(VERIF, "known_findings.json")


class Violation:
    def __init__(self, prop: str, rule: str, where: str, construct: str, detail: str):
        self.prop, self.rule, self.where, self.construct, self.detail = prop, rule, where, construct, detail

    @property
    def key(self) -> Dict[str, str]:
        return {"property": self.prop, "rule": self.rule, "where": self.where, "construct": self.construct}

    @property
    def digest(self) -> str:
        s = "|".join([self.prop, self.rule, self.where, self.construct])
        return hashlib.sha1(s.encode()).hexdigest()[:12]


class Report:
    """Collects what one property check analysed."""

    def __init__(self, prop: str, tier: str, repo: Repo):
        self.prop = prop
        self.tier = tier
        self.repo = repo
        self.obligations = 0
        self.discharged = 0
        self.nontrivial: set = set()
        self.samples: List[Dict[str, Any]] = []
        self.violations: List[Violation] = []
        self.rules: Dict[str, Dict[str, Any]] = {}
        self.notes: List[str] = []
        self.assumptions: List[str] = []
        self.explanation = ""
        self.extra: Dict[str, Any] = {}
        self._seen_v: set = set()

    # -- rule registry ---------------------------------------------------
    def rule(self, rid: str, text: str, floor: int = 1) -> None:
        self.rules[rid] = {"text": text, "instances": 0, "violations": 0, "floor": floor}

    def ob(self, rule: str, where: Any, construct: str, ok: bool, detail: str = "",
           nontrivial: bool = True) -> bool:
        """Record one evaluated obligation (rule instance)."""
        if rule not in self.rules:
            raise AnalysisError(f"unregistered rule {rule}")
        w = where.ref if isinstance(where, Fn) else str(where)
        self.obligations += 1
        self.rules[rule]["instances"] += 1
        if nontrivial:
            self.nontrivial.add((rule, w, construct))
        if ok:
            self.discharged += 1
        else:
            self.rules[rule]["violations"] += 1
            v = Violation(self.prop, rule, w, construct, detail)
            if v.digest not in self._seen_v:
                self._seen_v.add(v.digest)
                self.violations.append(v)
        if len(self.samples) < 400:
            self.samples.append({"rule": rule, "where": w, "construct": construct,
                                 "verdict": "ok" if ok else "VIOLATION", "detail": detail})
        return ok

    def require(self, cond: Any, what: str) -> None:
        if not cond:
            raise AnalysisError(f"{self.prop}: anchor/idiom not found: {what}")

    def check_floors(self) -> None:
        # a check that already reports a violation is not passing vacuously: a shortfall of instances is then part of
        # the breakage it reports (a removed flag / counter / handler), not a blind spot
        if self.violations:
            return
        for rid, r in self.rules.items():
            if r["instances"] < r["floor"]:
                raise AnalysisError(
                    f"{self.prop}: rule {rid} matched {r['instances']} instances, floor {r['floor']} "
                    f"(the rule would pass vacuously)")


def load_known() -> List[Dict[str, Any]]:
    if not os.path.exists(KNOWN_FILE):
        return []
    with open(KNOWN_FILE) as fh:
        return json.load(fh).get("findings", [])


def match_known(v: Violation, known: List[Dict[str, Any]]) -> Optional[Dict[str, Any]]:
    for k in known:
        if k.get("status") != "known":
            continue
        if k.get("property") != v.prop:
            continue
        kk = k.get("key", {})
        if kk.get("rule") == v.rule and kk.get("where") == v.where and kk.get("construct") == v.construct:
            return k
    return None


def write_evidence(rep: Report, seed: int, wall: float, n_unlisted: int, known_hits: List[str],
                   front: Dict[str, Any]) -> str:
    os.makedirs(EVID_DIR, exist_ok=True)
    samples = rep.samples
    # deterministic selection; the seed only rotates which samples are shown first
    if samples:
        k = seed % len(samples)
        samples = samples[k:] + samples[:k]
    viol_samples = [s for s in samples if s["verdict"] != "ok"]
    ok_samples = [s for s in samples if s["verdict"] == "ok"]
    shown = viol_samples[:40] + ok_samples[: max(10, 60 - len(viol_samples[:40]))]
    ev = {
        "property_id": rep.prop,
        "tier": rep.tier,
        "seed": seed,
        "level": "other",
        "coverage": {
            "explanation": rep.explanation,
            "obligations": rep.obligations,
            "discharged": rep.discharged,
            "evaluations": max(rep.obligations, 0),
            "distinct_nontrivial": len(rep.nontrivial),
            "rule": "every rule instance is a (rule, function, construct) triple enumerated from the parsed tree; "
                    "non-trivial = the construct carries at least one obligation that is not vacuous",
            "rules": rep.rules,
            "samples": shown,
            "exhaustive": True,
            "front_end": front,
            "known_findings_reported": known_hits,
            "notes": rep.notes,
            **rep.extra,
        },
        "assumptions": rep.assumptions,
        "wall_s": round(wall, 3),
        "violations": n_unlisted,
    }
    path = os.path.join(EVID_DIR, f"{rep.prop}.json")
    tmp = path + ".tmp"
    with open(tmp, "w") as fh:
        json.dump(ev, fh, indent=1, default=str)
    os.replace(tmp, path)
    return path


def write_violation(v: Violation) -> str:
    os.makedirs(VIOL_DIR, exist_ok=True)
    path = os.path.join(VIOL_DIR, f"{v.prop}-{v.digest}.json")
    with open(path, "w") as fh:
        json.dump({"key": v.key, "detail": v.detail}, fh, indent=1)
    return path
