"""Context walker and path enumerator over structured Python code.

`sites(fn)` gives, for every AST node that executes as part of `fn`'s own body
(nested function bodies are *not* part of it), the context it executes in:
dominating guard atoms (enclosing tests with polarity + negations of preceding
early exits), locks held (`with X:` + `@synchronized(X)`), enclosing try
blocks / handlers / finally blocks, loops, the branch stack and a pre-order
index.

`paths(fn, is_event)` enumerates abstract execution paths (loops 0/1 times,
exceptions raised at statement boundaries inside `try` bodies) as sequences of
events, which the typestate rules consume.
"""
from __future__ import annotations

import ast
from dataclasses import dataclass, field
from typing import Callable, Dict, Iterator, List, Optional, Tuple

from .astutil import Atom, atoms, block_always_exits, u, dotted, call_name
from .frontend import Fn, FUNC_NODES, SCOPE_NODES, AnalysisError


@dataclass
class Ctx:
    guards: Tuple[Atom, ...] = ()
    locks: Tuple[str, ...] = ()
    tries: Tuple[ast.Try, ...] = ()        # try statements whose *body* contains the site
    handlers: Tuple[ast.ExceptHandler, ...] = ()
    finals: Tuple[ast.Try, ...] = ()       # try statements whose finalbody contains the site
    loops: Tuple[ast.AST, ...] = ()
    branch: Tuple[Tuple[int, str], ...] = ()   # conditional-branch stack

    def with_(self, **kw) -> "Ctx":
        d = dict(guards=self.guards, locks=self.locks, tries=self.tries, handlers=self.handlers,
                 finals=self.finals, loops=self.loops, branch=self.branch)
        d.update(kw)
        return Ctx(**d)


@dataclass
class Site:
    node: ast.AST
    stmt: ast.stmt
    ctx: Ctx
    index: int
    fn: Fn

    @property
    def text(self) -> str:
        return " ".join(u(self.node).split())


def lock_expr_of_with(item: ast.withitem) -> str:
    return u(item.context_expr)


def decorator_locks(fn: Fn) -> Tuple[str, ...]:
    out = []
    for d in fn.decorators:
        if isinstance(d, ast.Call) and call_name(d) == "synchronized" and d.args:
            out.append(u(d.args[0]))
    return tuple(out)


_KNOWN = None


def fn_digest(node: ast.AST) -> str:
    """name-independent digest of a function: its parameters and body"""
    import hashlib
    txt = ast.dump(node.args) + "|" + "|".join(ast.dump(b) for b in node.body)
    return "sha1:" + hashlib.sha1(txt.encode()).hexdigest()


def _known_functions():
    """rel::qual of every function of the tree the rules were confirmed on (sa/helpers_ref.json, regenerated deliberately by
    tools/gen_helpers_ref.py); missing file -> every function counts as known (no inlining)."""
    global _KNOWN
    if _KNOWN is None:
        import json
        import os
        p = os.path.join(os.path.dirname(os.path.abspath(__file__)), "helpers_ref.json")
        try:
            _KNOWN = set(json.load(open(p)))
        except Exception:  # noqa: BLE001
            _KNOWN = _Everything()
    return _KNOWN


class _Everything:
    def __contains__(self, item):
        return True


class _Walker:
    def __init__(self, fn: Fn):
        self.fn = fn
        self.out: List[Site] = []
        self.i = 0
        self._flag_true = {}

    def gatoms(self, test: ast.AST, pol: bool):
        """atoms(test, pol) plus, for an atom that is a function-local boolean defined once (`emit = flag and a == b`;
        `if emit:`), the atoms of its definition: the decision was taken on them (dominance rules ask what a
        statement's execution was decided by, not what still holds when it runs)."""
        out = list(atoms(test, pol))
        for e, p_ in list(out):
            if isinstance(e, ast.Name):
                d = self._local_def(e.id)
                if d is not None:
                    for a in atoms(d, p_):
                        if not (isinstance(a[0], ast.Name) and a[0].id == e.id):
                            out.append(a)
                elif p_ and e.id in self._flag_locals():
                    # a flag local (`emit = False ... if a: if b: emit = True ... if emit:`): it is truthy only if the single
                    # `= True` assignment ran, i.e. the guards of that assignment held when the decision was taken
                    gs = self._flag_true.get(e.id, [])
                    if len(gs) == 1:
                        for a in gs[0]:
                            if a not in out:
                                out.append(a)
        return out

    def _flag_locals(self):
        """Function-locals whose every assignment is a constant and exactly one of them is `True` (the rest False / None)."""
        if not hasattr(self, "_flags"):
            vals = {}
            bad = set(getattr(self.fn, "params", []))
            try:
                nodes = list(self.fn.direct_nodes())
            except Exception:  # noqa: BLE001
                nodes = []
            for n in nodes:
                if isinstance(n, (ast.Nonlocal, ast.Global)):
                    bad |= set(n.names)
                tgs = []
                if isinstance(n, ast.Assign):
                    tgs = [(t, n.value) for t in n.targets]
                elif isinstance(n, ast.AnnAssign) and n.value is not None:
                    tgs = [(n.target, n.value)]
                elif isinstance(n, (ast.AugAssign, ast.NamedExpr, ast.For, ast.comprehension)):
                    for x in ast.walk(n.target):
                        if isinstance(x, ast.Name):
                            bad.add(x.id)
                elif isinstance(n, ast.withitem) and n.optional_vars is not None:
                    for x in ast.walk(n.optional_vars):
                        if isinstance(x, ast.Name):
                            bad.add(x.id)
                for t, v in tgs:
                    if isinstance(t, ast.Name):
                        if isinstance(v, ast.Constant) and (v.value is True or v.value is False or v.value is None):
                            vals.setdefault(t.id, []).append(v.value)
                        else:
                            bad.add(t.id)
                    else:
                        for x in ast.walk(t):
                            if isinstance(x, ast.Name) and isinstance(x.ctx, ast.Store):
                                bad.add(x.id)
            self._flags = {k for k, vs in vals.items() if k not in bad and vs.count(True) == 1}
        return self._flags

    def _local_def(self, name: str):
        if not hasattr(self, "_defs"):
            self._defs = {}
            counts = {}
            try:
                nodes = list(self.fn.direct_nodes())
            except Exception:  # noqa: BLE001
                nodes = []
            for n in nodes:
                tg = None
                if isinstance(n, ast.Assign) and len(n.targets) == 1 and isinstance(n.targets[0], ast.Name):
                    tg, val = n.targets[0].id, n.value
                elif isinstance(n, ast.AnnAssign) and isinstance(n.target, ast.Name) and n.value is not None:
                    tg, val = n.target.id, n.value
                elif isinstance(n, (ast.AugAssign, ast.NamedExpr)) and isinstance(getattr(n, "target", None), ast.Name):
                    counts[n.target.id] = counts.get(n.target.id, 0) + 2
                if tg is not None:
                    counts[tg] = counts.get(tg, 0) + 1
                    self._defs[tg] = val
            owned = getattr(self.fn, "params", [])
            for k in list(self._defs):
                v = self._defs[k]
                if counts.get(k) != 1 or k in owned or not isinstance(v, (ast.BoolOp, ast.Compare, ast.UnaryOp)) \
                        or (isinstance(v, ast.UnaryOp) and not isinstance(v.op, ast.Not)):
                    del self._defs[k]
            nl = set()
            for n in nodes:
                if isinstance(n, (ast.Nonlocal, ast.Global)):
                    nl |= set(n.names)
            for k in nl:
                self._defs.pop(k, None)
        return self._defs.get(name)

    # helper procedures that the confirmed tree does not have -----------------
    def _helper_of(self, call: ast.Call) -> Optional[Fn]:
        """A helper that was EXTRACTED since the rules were confirmed: a closure of this function (or of an enclosing one) that is only
        ever *called* -- never handed to anyone as a callback --, or a private method `self._name(...)` of the same class (not a
        `*_core` template method) that is only ever called, and that sa/helpers_ref.json (the functions of the confirmed tree) does not
        list.  Its body is read at the call site, under the caller's guards and locks: moving statements into a helper is a
        behaviour-preserving edit and must not change what a rule sees.  Helpers the confirmed tree already has are left alone (the
        rules were written, and confirmed instance by instance, with them in place)."""
        f = call.func
        h = None
        if isinstance(f, ast.Name):
            h = self.fn.resolve_local_def(f.id)
            if h is None or not h.is_func or h.is_lambda or h.parent is None:
                return None
            scope = h.parent
            if not (scope.is_func or scope.is_module):
                return None
            if scope.is_module and not f.id.startswith("_"):
                return None
            for n in ast.walk(scope.node):
                if isinstance(n, ast.Name) and n.id == f.id and isinstance(n.ctx, ast.Load):
                    par = scope.module.parents.get(n)
                    if not (isinstance(par, ast.Call) and par.func is n):
                        return None         # used as a value (a handler / callback): runs at another time
        elif isinstance(f, ast.Attribute) and isinstance(f.value, ast.Name) and f.value.id == "self" and f.attr.startswith("_") \
                and not f.attr.startswith("__") and not f.attr.endswith("_core"):
            c = self.fn
            while c is not None and not c.is_class:
                c = c.parent
            h = c.child(f.attr) if c is not None else None
            if h is None or not h.is_func:
                return None
            for n in ast.walk(c.node):
                if isinstance(n, ast.Attribute) and n.attr == f.attr and isinstance(n.ctx, ast.Load):
                    par = c.module.parents.get(n)
                    if not (isinstance(par, ast.Call) and par.func is n):
                        return None
        else:
            return None
        if h.ref in _known_functions() or fn_digest(h.node) in _known_functions() or h is self.fn or h in getattr(self, "_inlining", ()) or h.decorators:
            return None                     # a helper of the confirmed tree (possibly renamed: same parameters and body)
        if any(g.is_func or g.is_class for g in h.children):
            return None                     # defines closures of its own: their scopes cannot be transplanted to the call site
        if any(isinstance(x, (ast.With, ast.AsyncWith, ast.Try)) for x in ast.walk(h.node)):
            return None                     # owns a critical section / a handler: a unit of the protocol (path rules read it whole)
        body = list(h.node.body)
        nested = {id(x) for g in h.children if g.is_func for x in ast.walk(g.node)}
        own = [x for x in ast.walk(h.node) if isinstance(x, ast.Return) and id(x) not in nested]
        if any(r is not body[-1] for r in own):
            return None                     # early returns: control flow of its own
        return h

    @staticmethod
    def _bind_args(h: Fn, call: ast.Call) -> List[ast.stmt]:
        """the helper's body with its parameters replaced by the argument expressions of this call (parameters the helper
        assigns to, and arguments that are not plain names / attributes / constants, are left alone)"""
        import copy
        params = [a.arg for a in h.node.args.args]
        if params and params[0] in ("self", "cls") and isinstance(call.func, ast.Attribute):
            params = params[1:]
        m = {}
        for p_, a in zip(params, call.args):
            if isinstance(a, ast.Starred):
                break
            m[p_] = a
        for k in call.keywords:
            if k.arg in params:
                m[k.arg] = k.value
        stored = {x.id for x in ast.walk(h.node) if isinstance(x, ast.Name) and isinstance(x.ctx, (ast.Store, ast.Del))}
        m = {k: v for k, v in m.items() if k not in stored and isinstance(v, (ast.Name, ast.Attribute, ast.Constant, ast.Subscript))}
        body = [copy.deepcopy(b) for b in h.node.body]
        if not m:
            return body

        class _S(ast.NodeTransformer):
            def visit_Name(self, n):
                if isinstance(n.ctx, ast.Load) and n.id in m:
                    return copy.deepcopy(m[n.id])
                return n

            def visit_FunctionDef(self, n):
                return n
            visit_Lambda = visit_AsyncFunctionDef = visit_FunctionDef
        return [_S().visit(b) for b in body]

    def _inline(self, call: ast.Call, stmt: ast.stmt, ctx: Ctx) -> None:
        h = self._helper_of(call)
        if h is None or len(getattr(self, "_inlining", ())) >= 2:
            return
        self._inlining = getattr(self, "_inlining", ()) + (h,)
        try:
            body = self._bind_args(h, call)
            tail = None
            if body and isinstance(body[-1], ast.Return):
                tail, body = body[-1], body[:-1]
            c2 = ctx.with_(locks=ctx.locks + tuple(l for l in decorator_locks(h) if l not in ctx.locks))
            self.block(body, c2)
            if tail is not None and tail.value is not None:
                self.expr(tail.value, stmt, c2)
        finally:
            self._inlining = self._inlining[:-1]

    def emit(self, node: ast.AST, stmt: ast.stmt, ctx: Ctx) -> None:
        self.out.append(Site(node, stmt, ctx, self.i, self.fn))
        self.i += 1

    # expressions -------------------------------------------------------
    def expr(self, e: Optional[ast.AST], stmt: ast.stmt, ctx: Ctx) -> None:
        if e is None:
            return
        if isinstance(e, SCOPE_NODES):
            self.emit(e, stmt, ctx)
            if isinstance(e, ast.Lambda):
                for d in e.args.defaults + [k for k in e.args.kw_defaults if k is not None]:
                    self.expr(d, stmt, ctx)
            return
        if isinstance(e, ast.IfExp):
            self.emit(e, stmt, ctx)
            self.expr(e.test, stmt, ctx)
            self.expr(e.body, stmt, ctx.with_(guards=ctx.guards + tuple(self.gatoms(e.test, True)),
                                              branch=ctx.branch + ((id(e), "body"),)))
            self.expr(e.orelse, stmt, ctx.with_(guards=ctx.guards + tuple(self.gatoms(e.test, False)),
                                                branch=ctx.branch + ((id(e), "orelse"),)))
            return
        if isinstance(e, ast.BoolOp):
            self.emit(e, stmt, ctx)
            cur = ctx
            for k, v in enumerate(e.values):
                self.expr(v, stmt, cur)
                pol = isinstance(e.op, ast.And)
                cur = cur.with_(guards=cur.guards + tuple(self.gatoms(v, pol)),
                                branch=cur.branch + ((id(e), f"rhs{k}"),))
            return
        self.emit(e, stmt, ctx)
        if isinstance(e, ast.Call):
            self._inline(e, stmt, ctx)
        # evaluation order: for a Call, func then args; generic order is fine
        for ch in ast.iter_child_nodes(e):
            if isinstance(ch, (ast.expr_context, ast.operator, ast.cmpop, ast.boolop, ast.unaryop)):
                continue
            if isinstance(ch, ast.comprehension):
                self.expr(ch.iter, stmt, ctx)
                self.expr(ch.target, stmt, ctx)
                for c in ch.ifs:
                    self.expr(c, stmt, ctx)
                continue
            if isinstance(ch, ast.keyword):
                self.expr(ch.value, stmt, ctx)
                continue
            self.expr(ch, stmt, ctx)

    # statements --------------------------------------------------------
    def block(self, body: List[ast.stmt], ctx: Ctx) -> Tuple[Atom, ...]:
        """Walk a statement list; returns the guard atoms established for whatever follows the list
        (negations of early exits at its top level)."""
        cur = ctx
        n0 = len(ctx.guards)
        for st in body:
            extra = self.stmt(st, cur)
            if extra:
                cur = cur.with_(guards=cur.guards + tuple(extra))
            # early exits contribute the negated test to the rest of the block
            if isinstance(st, ast.If):
                b_exit = block_always_exits(st.body)
                o_exit = bool(st.orelse) and block_always_exits(st.orelse)
                if b_exit and not o_exit:
                    cur = cur.with_(guards=cur.guards + tuple(self.gatoms(st.test, False)))
                elif o_exit and not b_exit:
                    cur = cur.with_(guards=cur.guards + tuple(self.gatoms(st.test, True)))
            elif isinstance(st, ast.Assert):
                cur = cur.with_(guards=cur.guards + tuple(self.gatoms(st.test, True)))
        return cur.guards[n0:]

    def stmt(self, st: ast.stmt, ctx: Ctx) -> Tuple[Atom, ...]:
        if isinstance(st, (ast.FunctionDef, ast.AsyncFunctionDef, ast.ClassDef)):
            self.emit(st, st, ctx)
            for d in st.decorator_list:
                self.expr(d, st, ctx)
            if isinstance(st, FUNC_NODES):
                for d in st.args.defaults + [k for k in st.args.kw_defaults if k is not None]:
                    self.expr(d, st, ctx)
            return ()
        self.emit(st, st, ctx)
        if isinstance(st, (ast.Assign, ast.AnnAssign)) and isinstance(getattr(st, "value", None), ast.Constant) and st.value.value is True:
            for t in (st.targets if isinstance(st, ast.Assign) else [st.target]):
                if isinstance(t, ast.Name):
                    self._flag_true.setdefault(t.id, []).append(tuple(ctx.guards))
        if isinstance(st, ast.If):
            self.expr(st.test, st, ctx)
            self.block(st.body, ctx.with_(guards=ctx.guards + tuple(self.gatoms(st.test, True)),
                                          branch=ctx.branch + ((id(st), "body"),)))
            self.block(st.orelse, ctx.with_(guards=ctx.guards + tuple(self.gatoms(st.test, False)),
                                            branch=ctx.branch + ((id(st), "orelse"),)))
        elif isinstance(st, ast.While):
            self.expr(st.test, st, ctx.with_(loops=ctx.loops + (st,)))
            self.block(st.body, ctx.with_(guards=ctx.guards + tuple(self.gatoms(st.test, True)),
                                          loops=ctx.loops + (st,),
                                          branch=ctx.branch + ((id(st), "body"),)))
            self.block(st.orelse, ctx.with_(branch=ctx.branch + ((id(st), "orelse"),)))
        elif isinstance(st, (ast.For, ast.AsyncFor)):
            self.expr(st.iter, st, ctx)
            self.expr(st.target, st, ctx)
            self.block(st.body, ctx.with_(loops=ctx.loops + (st,), branch=ctx.branch + ((id(st), "body"),)))
            self.block(st.orelse, ctx.with_(branch=ctx.branch + ((id(st), "orelse"),)))
        elif isinstance(st, (ast.With, ast.AsyncWith)):
            locks = ctx.locks
            for it in st.items:
                self.expr(it.context_expr, st, ctx)
                if it.optional_vars is not None:
                    self.expr(it.optional_vars, st, ctx)
                locks = locks + (lock_expr_of_with(it),)
            # early exits at the top level of a with-body also guard what follows the with statement
            return self.block(st.body, ctx.with_(locks=locks))
        elif isinstance(st, ast.Try):
            has_h = bool(st.handlers)
            bctx = ctx.with_(tries=ctx.tries + (st,),
                             branch=ctx.branch + (((id(st), "try"),) if has_h else ()))
            self.block(st.body, bctx)
            for h in st.handlers:
                if h.type is not None:
                    self.expr(h.type, st, ctx)
                self.block(h.body, ctx.with_(handlers=ctx.handlers + (h,),
                                             branch=ctx.branch + ((id(st), f"handler{id(h)}"),)))
            self.block(st.orelse, ctx.with_(branch=ctx.branch + (((id(st), "try"),) if has_h else ())))
            self.block(st.finalbody, ctx.with_(finals=ctx.finals + (st,)))
        else:
            for ch in ast.iter_child_nodes(st):
                if isinstance(ch, ast.expr):
                    self.expr(ch, st, ctx)
                elif isinstance(ch, ast.keyword):
                    self.expr(ch.value, st, ctx)
        return ()


_SITE_CACHE: Dict[int, List[Site]] = {}


def sites(fn: Fn) -> List[Site]:
    key = id(fn)
    if key in _SITE_CACHE:
        return _SITE_CACHE[key]
    w = _Walker(fn)
    base = Ctx(locks=decorator_locks(fn))
    if fn.is_lambda:
        st = ast.Expr(fn.node.body)
        w.expr(fn.node.body, st, base)
    else:
        w.block(list(fn.node.body), base)
    _SITE_CACHE[key] = w.out
    return w.out


def site_of(fn: Fn, node: ast.AST) -> Optional[Site]:
    for s in sites(fn):
        if s.node is node:
            return s
    return None


def call_sites(fn: Fn) -> List[Site]:
    return [s for s in sites(fn) if isinstance(s.node, ast.Call)]


def dominates(a: Site, b: Site) -> bool:
    """`a` executes before `b` on every path reaching `b` (structured code):
    a precedes b in program order and a's conditional-branch stack is a prefix
    of b's."""
    if a.fn is not b.fn or a.index >= b.index:
        return False
    if len(a.ctx.branch) > len(b.ctx.branch):
        return False
    if b.ctx.branch[: len(a.ctx.branch)] != a.ctx.branch:
        return False
    # a inside a loop body that b is outside of is already excluded by branch.
    return True


# ---------------------------------------------------------------------------
# Path enumeration
# ---------------------------------------------------------------------------

@dataclass
class Path:
    events: List[Tuple[str, ast.AST]] = field(default_factory=list)
    decisions: List[Tuple[str, bool]] = field(default_factory=list)
    end: str = "fall"      # fall | return | raise | break | continue
    ret: Optional[ast.AST] = None
    exc: bool = False      # path passed through an exception edge
    env: Dict[str, object] = field(default_factory=dict)   # local name -> known constant
    facts: List[Tuple[str, bool]] = field(default_factory=list)  # normalised atoms known on the path
    active: List[Tuple[str, bool]] = field(default_factory=list)  # decisions not yet invalidated by a write
    defs: Dict[str, str] = field(default_factory=dict)   # local name -> text of the boolean expression it currently names

    def copy(self) -> "Path":
        return Path(list(self.events), list(self.decisions), self.end, self.ret, self.exc, dict(self.env),
                    list(self.facts), list(self.active), dict(self.defs))

    @property
    def kinds(self) -> List[str]:
        return [k for k, _ in self.events]

    def decided(self, text: str) -> Optional[bool]:
        """Truth value the path decided for the expression `text` (through any spelling of the tests), if any."""
        res = None
        for t, v in self.decisions:
            try:
                e = ast.parse(t, mode="eval").body
            except SyntaxError:
                continue
            for a, pol in atoms(e, v):
                if u(a) == text:
                    res = pol
        return res


def _pure_call(c: ast.AST) -> bool:
    """calls that only read (len(x), isinstance(x, T), x.cancelled()) may appear in a named condition"""
    if not isinstance(c, ast.Call):
        return False
    f = c.func
    if isinstance(f, ast.Name) and f.id in ("len", "isinstance", "callable", "bool", "all", "any", "hasattr"):
        return True
    return isinstance(f, ast.Attribute) and f.attr in ("cancelled", "is_set", "done", "idle")


MAX_PATHS = 20000
_NAMES_CACHE: Dict[str, set] = {}


def _names_of_text(t: str) -> set:
    if t not in _NAMES_CACHE:
        try:
            _NAMES_CACHE[t] = {n.id for n in ast.walk(ast.parse(t, mode="eval")) if isinstance(n, ast.Name)}
        except SyntaxError:
            _NAMES_CACHE[t] = set()
    return _NAMES_CACHE[t]


class PathEnum:
    """Enumerate abstract paths through a function body.

    is_event(node) -> Optional[str]: label of an event for nodes of interest
    (called on every expression node in evaluation order).
    Exceptions: inside a `try` with handlers, an exception may be raised at the
    start of any statement of the body whose evaluation contains a Call (or a
    Raise statement); handlers are then entered.  Outside any try, explicit
    `raise` ends the path with end='raise'.
    Infeasible combinations of decisions on the *same* test text (with no
    intervening assignment to a name in it) are pruned.
    """

    def __init__(self, fn: Fn, is_event: Callable[[ast.AST], Optional[str]],
                 may_raise: Optional[Callable[[ast.stmt], bool]] = None, inline_depth: int = 0,
                 _stack: Tuple[int, ...] = ()):
        self.fn = fn
        self.is_event = is_event
        self.may_raise = may_raise or self._default_may_raise
        self.count = 0
        self.inline_depth = inline_depth
        self._stack = _stack + (id(fn),)
        self._inline_cache: Dict[int, List[Tuple[Tuple[Tuple[str, ast.AST], ...], bool]]] = {}

    def _callee_alternatives(self, callee: Fn):
        """Event sequences a call of the local helper `callee` can produce: [(events, raised?)]."""
        k = id(callee)
        if k not in self._inline_cache:
            sub = PathEnum(callee, self.is_event, None, self.inline_depth - 1, self._stack)
            alts = []
            seen = set()
            for p in sub.run():
                key = (tuple(x for x, _ in p.events), p.end == "raise")
                if key in seen:
                    continue
                seen.add(key)
                alts.append((tuple(p.events), p.end == "raise"))
            self._inline_cache[k] = alts or [((), False)]
        return self._inline_cache[k]

    @staticmethod
    def _default_may_raise(st: ast.stmt) -> bool:
        if isinstance(st, ast.Raise):
            return True
        for n in ast.walk(st):
            if isinstance(n, SCOPE_NODES):
                continue
            if isinstance(n, (ast.Call, ast.Subscript)):
                return True
        return False

    def run(self) -> List[Path]:
        body = self.fn.body
        res = self.block(body, [Path()])
        for p in res:
            if p.end == "fall":
                p.end = "return"
        return res

    # helpers --------------------------------------------------------------
    def events_of_expr(self, e: Optional[ast.AST]) -> List[Tuple[str, ast.AST]]:
        out: List[Tuple[str, ast.AST]] = []
        if e is None:
            return out

        def go(n: ast.AST) -> None:
            if isinstance(n, SCOPE_NODES):
                lab = self.is_event(n)
                if lab:
                    out.append((lab, n))
                return
            # children first (arguments are evaluated before the call happens)
            for ch in ast.iter_child_nodes(n):
                go(ch)
            lab = self.is_event(n)
            if lab:
                out.append((lab, n))
            elif self.inline_depth > 0 and isinstance(n, ast.Call) and isinstance(n.func, ast.Name):
                callee = self.fn.resolve_local_def(n.func.id)
                if callee is not None and callee.is_func and id(callee) not in self._stack:
                    out.append(("@inline", callee))

        go(e)
        return out

    def add_events(self, paths: List[Path], e: Optional[ast.AST]) -> List[Path]:
        ev = self.events_of_expr(e)
        if not ev:
            return paths
        if not any(lab == "@inline" for lab, _ in ev):
            for p in paths:
                p.events.extend(ev)
            return paths
        cur = paths
        for lab, node in ev:
            if lab != "@inline":
                for p in cur:
                    if p.end == "fall":
                        p.events.append((lab, node))
                continue
            alts = self._callee_alternatives(node)
            nxt: List[Path] = []
            for p in cur:
                if p.end != "fall":
                    nxt.append(p)
                    continue
                for events, raised in alts:
                    q = p.copy() if len(alts) > 1 else p
                    q.events.extend(events)
                    if raised:
                        q.end = "raise"
                    nxt.append(q)
            cur = nxt
            if len(cur) > MAX_PATHS:
                raise AnalysisError(f"path explosion while inlining in {self.fn.ref}")
        return cur

    def _assigned_names(self, st: ast.stmt) -> set:
        out = set()
        tg = []
        if isinstance(st, ast.Assign):
            tg = st.targets
        elif isinstance(st, (ast.AugAssign, ast.AnnAssign)):
            tg = [st.target]
        for t in tg:
            d = dotted(t)
            if d:
                out.add(d)
            for n in ast.walk(t):
                if isinstance(n, ast.Name):
                    out.add(n.id)
        return out

    @staticmethod
    def _eval(test: ast.AST, env: Dict[str, object]):
        """Three-valued evaluation of a test under known local constants: True / False / None(unknown)."""
        if isinstance(test, ast.Constant):
            return bool(test.value)
        if isinstance(test, ast.Name):
            return bool(env[test.id]) if test.id in env else None
        if isinstance(test, ast.UnaryOp) and isinstance(test.op, ast.Not):
            v = PathEnum._eval(test.operand, env)
            return None if v is None else not v
        if isinstance(test, ast.BoolOp):
            vals = [PathEnum._eval(v, env) for v in test.values]
            if isinstance(test.op, ast.And):
                if any(v is False for v in vals):
                    return False
                return True if all(v is True for v in vals) else None
            if any(v is True for v in vals):
                return True
            return False if all(v is False for v in vals) else None
        if isinstance(test, ast.Compare) and len(test.ops) == 1 and isinstance(test.left, ast.Name) \
                and test.left.id in env and isinstance(test.comparators[0], ast.Constant):
            a, b = env[test.left.id], test.comparators[0].value
            op = test.ops[0]
            if isinstance(op, ast.Is):
                return a is b
            if isinstance(op, ast.IsNot):
                return a is not b
            if isinstance(op, ast.Eq):
                return a == b
            if isinstance(op, ast.NotEq):
                return a != b
        return None

    @staticmethod
    def _subst(test: ast.AST, defs: Dict[str, str]) -> ast.AST:
        """Replace locals that currently name a boolean expression (`c = a and b`; `if c:`) by that expression."""
        if not defs or not any(isinstance(n, ast.Name) and n.id in defs for n in ast.walk(test)):
            return test
        import copy as _copy

        class _S(ast.NodeTransformer):
            def visit_Name(self, n):
                if isinstance(n.ctx, ast.Load) and n.id in defs:
                    return ast.parse(defs[n.id], mode="eval").body
                return n
        return _S().visit(_copy.deepcopy(test))

    def decide(self, paths: List[Path], test0: ast.AST, pol: bool) -> List[Path]:
        out = []
        for p in paths:
            test = self._subst(test0, p.defs)
            key = u(test)
            new_facts = [(u(e), p_) for e, p_ in atoms(test, pol)]
            ok = True
            v = self._eval(test, p.env)
            if v is not None and v != pol:
                continue
            for (k, vv) in p.active:
                if k == key and vv != pol:
                    ok = False
                    break
            if ok:
                for (t, fp) in new_facts:
                    if (t, not fp) in p.facts:
                        ok = False
                        break
            if ok:
                q = p.copy()
                q.decisions.append((key, pol))
                q.active.append((key, pol))
                q.facts.extend(new_facts)
                # (A and B) false with A known true  =>  B false   (dually for `or`)
                if isinstance(test, ast.BoolOp) and (isinstance(test.op, ast.And) and not pol
                                                      or isinstance(test.op, ast.Or) and pol):
                    want = isinstance(test.op, ast.And)
                    rest = []
                    for v in test.values:
                        known = all((u(e), pp) in q.facts for e, pp in atoms(v, want))
                        ev = self._eval(v, q.env)
                        if known or ev is want:
                            continue
                        rest.append(v)
                    if len(rest) == 1:
                        q.facts.extend((u(e), pp) for e, pp in atoms(rest[0], not want))
                        q.decisions.append((u(rest[0]), not want))
                        q.active.append((u(rest[0]), not want))
                out.append(q)
        return out

    def _update_env(self, paths: List[Path], st: ast.stmt) -> None:
        tg = []
        val = None
        if isinstance(st, ast.Assign):
            tg, val = st.targets, st.value
        elif isinstance(st, ast.AnnAssign) and st.value is not None:
            tg, val = [st.target], st.value
        elif isinstance(st, ast.AugAssign):
            tg, val = [st.target], None
        for t in tg:
            for n in ast.walk(t):
                if isinstance(n, ast.Name) and isinstance(n.ctx, ast.Store):
                    for p in paths:
                        if isinstance(t, ast.Name) and isinstance(val, ast.Constant):
                            p.env[n.id] = val.value
                        else:
                            p.env.pop(n.id, None)
                        p.facts = [(x, y) for (x, y) in p.facts if n.id not in _names_of_text(x)]
                        p.defs.pop(n.id, None)

    def kill(self, paths: List[Path], st: ast.stmt) -> None:
        self._update_env(paths, st)
        names = self._assigned_names(st)
        # any call may change attributes (self.x) – be conservative for dotted tests
        has_call = any(isinstance(n, ast.Call) for n in ast.walk(st) if not isinstance(n, SCOPE_NODES))
        if not names and not has_call:
            return
        for p in paths:
            p.active = self._filter(p.active, names, has_call)
            p.facts = self._filter(p.facts, names, has_call)
            if p.defs:
                kept = self._filter([(v, k) for k, v in p.defs.items()], names, has_call)
                p.defs = {k: v for v, k in kept}
        self._register_def(paths, st)

    def _register_def(self, paths: List[Path], st: ast.stmt) -> None:
        tg, val = [], None
        if isinstance(st, ast.Assign):
            tg, val = st.targets, st.value
        elif isinstance(st, ast.AnnAssign) and st.value is not None:
            tg, val = [st.target], st.value
        if len(tg) == 1 and isinstance(tg[0], ast.Name) and isinstance(val, (ast.BoolOp, ast.Compare, ast.UnaryOp)) \
                and not (isinstance(val, ast.UnaryOp) and not isinstance(val.op, ast.Not)) \
                and not any(isinstance(x, (ast.Call, ast.NamedExpr, ast.Await)) and not _pure_call(x) for x in ast.walk(val)):
            for p in paths:
                if tg[0].id not in {n.id for n in ast.walk(val) if isinstance(n, ast.Name)}:
                    p.defs[tg[0].id] = u(self._subst(val, p.defs))

    @staticmethod
    def _filter(items, names, has_call):
        keep = []
        for (k, v) in items:
            try:
                t = ast.parse(k, mode="eval").body
            except SyntaxError:
                continue
            tn = {n.id for n in ast.walk(t) if isinstance(n, ast.Name)}
            td = {dotted(n) for n in ast.walk(t) if isinstance(n, (ast.Attribute, ast.Subscript))}
            if tn & names or (td - {None}) & names:
                continue
            if has_call and any(isinstance(n, (ast.Attribute, ast.Call)) for n in ast.walk(t)):
                continue
            keep.append((k, v))
        return keep

    # blocks ------------------------------------------------------------
    def block(self, body: List[ast.stmt], paths: List[Path]) -> List[Path]:
        done: List[Path] = []
        live = paths
        for st in body:
            if not live:
                break
            nxt = self.stmt(st, live)
            live = []
            for p in nxt:
                (live if p.end == "fall" else done).append(p)
            self.count = len(live) + len(done)
            if self.count > MAX_PATHS:
                raise AnalysisError(f"path explosion in {self.fn.ref}")
        return done + live

    def stmt(self, st: ast.stmt, paths: List[Path]) -> List[Path]:
        if isinstance(st, (ast.FunctionDef, ast.AsyncFunctionDef, ast.ClassDef)):
            lab = self.is_event(st)
            if lab:
                for p in paths:
                    p.events.append((lab, st))
            return paths
        if isinstance(st, ast.Return):
            paths = self.add_events(paths, st.value)
            for p in paths:
                if p.end == "fall":
                    p.end = "return"
                    p.ret = st.value
            return paths
        if isinstance(st, ast.Raise):
            paths = self.add_events(paths, st.exc)
            for p in paths:
                p.end = "raise"
            return paths
        if isinstance(st, ast.Break):
            for p in paths:
                p.end = "break"
            return paths
        if isinstance(st, ast.Continue):
            for p in paths:
                p.end = "continue"
            return paths
        if isinstance(st, ast.If):
            paths = self.add_events(paths, st.test)
            ended = [p for p in paths if p.end != "fall"]
            paths = [p for p in paths if p.end == "fall"]
            t = self.block(st.body, self.decide(paths, st.test, True))
            f = self.block(st.orelse, self.decide(paths, st.test, False))
            return t + f + ended
        if isinstance(st, (ast.While, ast.For, ast.AsyncFor)):
            ended0: List[Path] = []
            if isinstance(st, ast.While):
                paths = self.add_events(paths, st.test)
                ended0 = [p for p in paths if p.end != "fall"]
                paths = [p for p in paths if p.end == "fall"]
                const_true = isinstance(st.test, ast.Constant) and bool(st.test.value)
                zero = [] if const_true else self.decide(paths, st.test, False)
                one_in = self.decide(paths, st.test, True)
            else:
                paths = self.add_events(paths, st.iter)
                ended0 = [p for p in paths if p.end != "fall"]
                paths = [p for p in paths if p.end == "fall"]
                zero = [p.copy() for p in paths]
                one_in = [p.copy() for p in paths]
            one = self.block(st.body, one_in)
            out = []
            for p in one:
                if p.end in ("break",):
                    p.end = "fall"
                    out.append(p)
                elif p.end in ("fall", "continue"):
                    p.end = "fall"
                    # after one iteration decisions on the loop test are stale
                    if isinstance(st, ast.While):
                        p.active = [d for d in p.active if d[0] != u(st.test)]
                        tf = {(u(e), pp) for e, pp in atoms(st.test, True)}
                        p.facts = [f for f in p.facts if f not in tf]
                    out.append(p)
                else:
                    out.append(p)
            zero = self.block(st.orelse, zero) if st.orelse else zero
            return out + zero + ended0
        if isinstance(st, (ast.With, ast.AsyncWith)):
            for it in st.items:
                paths = self.add_events(paths, it.context_expr)
            ended = [p for p in paths if p.end != "fall"]
            return self.block(st.body, [p for p in paths if p.end == "fall"]) + ended
        if isinstance(st, ast.Try):
            return self.try_(st, paths)
        # simple statement: events of its expressions, then the statement itself
        for ch in ast.iter_child_nodes(st):
            if isinstance(ch, ast.expr):
                paths = self.add_events(paths, ch)
        lab = self.is_event(st)
        if lab:
            for p in paths:
                if p.end == "fall":
                    p.events.append((lab, st))
        self.kill(paths, st)
        return paths

    def try_(self, st: ast.Try, paths: List[Path]) -> List[Path]:
        results: List[Path] = []
        exc_entry: List[Path] = []
        if st.handlers:
            # normal execution with exception cut points
            live = paths
            done: List[Path] = []
            for s in st.body:
                if not live:
                    break
                if self.may_raise(s):
                    for p in live:
                        q = p.copy()
                        q.exc = True
                        exc_entry.append(q)
                nxt = self.stmt(s, live)
                live = []
                for p in nxt:
                    if p.end == "raise":
                        q = p.copy()
                        q.end = "fall"
                        q.exc = True
                        exc_entry.append(q)
                    elif p.end == "fall":
                        live.append(p)
                    else:
                        done.append(p)
            normal = self.block(st.orelse, live) if st.orelse else live
            results = done + normal
            for h in st.handlers:
                hp = self.block(h.body, [p.copy() for p in exc_entry])
                results += hp
        else:
            results = self.block(st.body + st.orelse, paths)
        if st.finalbody:
            out = []
            for p in results:
                end, ret = p.end, p.ret
                p.end = "fall"
                fin = self.block(st.finalbody, [p])
                for q in fin:
                    if q.end == "fall":
                        q.end, q.ret = end, ret
                    out.append(q)
            # try/finally without handlers: an exception in the body still runs finally
            if not st.handlers:
                pass
            results = out
        return results


def paths(fn: Fn, is_event: Callable[[ast.AST], Optional[str]], may_raise=None, inline_depth: int = 0) -> List[Path]:
    return PathEnum(fn, is_event, may_raise, inline_depth).run()



def returned_expr(fn: Fn, e: Optional[ast.AST]) -> Optional[ast.AST]:
    """If `e` is a call of a value helper that the confirmed tree does not have (see _Walker._helper_of) and whose whole body is
    `return <expression>`, that expression with the helper's parameters bound to the arguments; otherwise `e` itself.  `x = EventLoop(...)`
    and `x = self._new_loop()` with `def _new_loop(self): return EventLoop(...)` are the same definition of x."""
    if not isinstance(e, ast.Call):
        return e
    w = _Walker(fn)
    h = w._helper_of(e)
    if h is None:
        return e
    body = [b for b in w._bind_args(h, e) if not (isinstance(b, ast.Expr) and isinstance(b.value, ast.Constant))]
    if len(body) == 1 and isinstance(body[0], ast.Return) and body[0].value is not None:
        return body[0].value
    return e
