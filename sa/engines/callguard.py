"""E2 — guarded user callbacks.

Is every invocation of a user-supplied callable (mapper, predicate, comparer,
accumulator, selector, factory, condition — and of lazy iterators wrapping
one) that happens while a notification / scheduled action is processed (stage
L3) dynamically enclosed by a handler that routes the exception to on_error?
"""
from __future__ import annotations

import ast
import re
from dataclasses import dataclass
from typing import Dict, List, Optional, Set, Tuple

from ..astutil import call_name, dotted, short, strip_cast, u
from ..ctx import Site, sites
from ..frontend import Fn, Repo
from ..model import Model

USER_ALIAS = re.compile(r"\b(Mapper|MapperIndexed|Predicate|PredicateIndexed|Comparer|SubComparer|Accumulator)\b")
EXCLUDED = re.compile(r"\b(Action|OnNext|OnError|OnCompleted|ScheduledAction|ScheduledPeriodicAction|StartableFactory|"
                      r"StartableTarget|Startable|Subscription)\b")
EXCLUDED_NAMES = {"scheduler", "thread_factory", "observer", "on_next", "on_error", "on_completed", "action",
                  "subscribe", "finally_action", "fun", "fn"}
LAZY_BUILTINS = {"map", "filter", "takewhile", "dropwhile", "starmap"}


def is_user_callable_annotation(ann: Optional[ast.AST]) -> bool:
    if ann is None:
        return False
    t = u(ann)
    if USER_ALIAS.search(t):
        return True
    if "Callable[" in t and not EXCLUDED.search(t):
        return True
    return False


@dataclass
class Invocation:
    fn: Fn
    site: Site
    what: str           # description of what is invoked
    kind: str           # 'call' | 'advance'
    guarded: bool
    routed: bool


def handler_catches_exception(h: ast.ExceptHandler) -> bool:
    if h.type is None:
        return True
    names = [u(h.type)] if not isinstance(h.type, ast.Tuple) else [u(e) for e in h.type.elts]
    return any(n in ("Exception", "BaseException") for n in names)


def handler_routes(h: ast.ExceptHandler) -> bool:
    """The handler delivers THE exception it caught (`except ... as e: observer.on_error(e)`), or re-raises."""
    for n in ast.walk(h):
        if isinstance(n, ast.Call):
            nm = call_name(n)
            if nm in ("on_error", "throw", "fail", "set_exception"):
                if h.name and n.args and not any(isinstance(x, ast.Name) and x.id == h.name for a in n.args for x in ast.walk(a)):
                    continue        # routes something else (a stale state variable, None): the caught exception itself is lost
                return True
        if isinstance(n, ast.Raise):
            return True     # re-raised: not swallowed (an outer handler / fail() sees it)
    return False


class CallGuard:
    def __init__(self, repo: Repo, model: Model, scope_prefixes: Tuple[str, ...], skip_prefixes: Tuple[str, ...] = ()):
        self.repo, self.model = repo, model
        self.fns: List[Fn] = []
        for m in repo.modules.values():
            if m.rel.startswith(scope_prefixes) and not m.rel.startswith(skip_prefixes):
                self.fns += [f for f in m.root.walk() if f.is_func]
        self.fnset = set(self.fns)
        # user-callable bindings: ('v', id(scope), name) / ('a', id(class), attr);  lazy iterators likewise
        self.U: Dict[object, str] = {}
        self.LZ: Dict[object, str] = {}
        self.ung: Dict[Fn, str] = {}
        self.n_params = 0
        self._seed()
        self._fixpoint()

    # -- bindings -----------------------------------------------------------
    def key(self, g: Fn, e: ast.AST) -> Optional[object]:
        e = strip_cast(e)
        if isinstance(e, ast.Name):
            o = g.owner(e.id)
            if o is None or o.is_module:
                return None
            return ("v", id(o), e.id)
        if isinstance(e, ast.Attribute) and isinstance(e.value, ast.Name) and e.value.id == "self":
            c = g
            while c is not None and not c.is_class:
                c = c.parent
            if c is not None:
                return ("a", id(c), e.attr)
        return None

    def _seed(self) -> None:
        for f in self.fns:
            if f.is_lambda:
                continue
            a = f.node.args
            allp = a.posonlyargs + a.args + a.kwonlyargs
            for p in allp:
                if p.arg in EXCLUDED_NAMES or p.arg in ("self", "cls"):
                    continue
                if is_user_callable_annotation(p.annotation):
                    self.U[("v", id(f), p.arg)] = f"parameter {p.arg} of {f.qual}"
                    self.n_params += 1
            if a.vararg is not None and a.vararg.annotation is not None and "Callable[" in u(a.vararg.annotation):
                # elements obtained by iterating *args may be callables (on_error_resume_next factories)
                self.LZ[("v", id(f), a.vararg.arg)] = f"varargs {a.vararg.arg} of {f.qual} (may contain callables)"

    def is_U(self, g: Fn, e: ast.AST) -> Optional[str]:
        e = strip_cast(e)
        if isinstance(e, ast.BoolOp):
            for v in e.values:
                r = self.is_U(g, v)
                if r:
                    return r
            return None
        if isinstance(e, ast.IfExp):
            return self.is_U(g, e.body) or self.is_U(g, e.orelse)
        if isinstance(e, ast.Lambda):
            lf = g.module.fn_of_node.get(e)
            if lf is not None and lf in self.ung:
                return f"lambda wrapping {self.ung[lf]}"
            return None
        if isinstance(e, ast.Name):
            loc = g.resolve_local_def(e.id)
            if loc is not None and loc.is_func:
                return f"wrapper {loc.name} ({self.ung[loc]})" if loc in self.ung else None
        k = self.key(g, e)
        if k is not None and k in self.U:
            return self.U[k]
        return None

    def is_LZ(self, g: Fn, e: ast.AST) -> Optional[str]:
        e = strip_cast(e)
        if isinstance(e, ast.Call):
            nm = call_name(e)
            if nm == "iter" and e.args:
                return self.is_LZ(g, e.args[0])
            if nm in LAZY_BUILTINS and e.args:
                r = self.is_U(g, e.args[0])
                if r:
                    return f"{nm}({r}, ...)"
                for a in e.args[1:]:
                    r = self.is_LZ(g, a)
                    if r:
                        return r
            return None
        if isinstance(e, ast.GeneratorExp):
            for n in ast.walk(e.elt):
                if isinstance(n, ast.Call) and self.is_U(g, n.func):
                    return f"generator calling {self.is_U(g, n.func)}"
            for gen in e.generators:
                r = self.is_LZ(g, gen.iter)
                if r:
                    return r
            return None
        k = self.key(g, e)
        if k is not None and k in self.LZ:
            return self.LZ[k]
        return None

    # -- fixpoint -------------------------------------------------------------
    def _bind(self, table: Dict[object, str], k: Optional[object], why: str) -> bool:
        if k is None or k in table:
            return False
        table[k] = why
        return True

    def _fixpoint(self) -> None:
        changed = True
        rounds = 0
        while changed and rounds < 25:
            changed = False
            rounds += 1
            for g in self.fns:
                for n in g.direct_nodes():
                    if isinstance(n, (ast.Assign, ast.AnnAssign)) and n.value is not None:
                        tg = n.targets if isinstance(n, ast.Assign) else [n.target]
                        ru = self.is_U(g, n.value)
                        rl = self.is_LZ(g, n.value)
                        for t in tg:
                            if ru and isinstance(strip_cast(n.value), (ast.Name, ast.Attribute, ast.BoolOp, ast.IfExp, ast.Call, ast.Lambda)) \
                                    and not isinstance(strip_cast(n.value), ast.Call):
                                changed |= self._bind(self.U, self.key(g, t), ru)
                            if rl:
                                changed |= self._bind(self.LZ, self.key(g, t), rl)
                    elif isinstance(n, (ast.For, ast.AsyncFor)):
                        # iterating varargs that may contain callables: the loop variable may be a callable
                        pass
                    elif isinstance(n, ast.Call):
                        callee = self.repo.resolve_expr(g, n.func)
                        if callee is None and isinstance(n.func, ast.Attribute):
                            callee = self._method_target(g, n.func)
                        if callee is not None and callee.is_class:
                            callee = self.repo.class_method(callee, "__init__")
                        if callee is None or not callee.is_func or callee not in self.fnset:
                            continue
                        for arg, p in self._bind_args(n, callee):
                            ru = self.is_U(g, arg)
                            if ru:
                                changed |= self._bind(self.U, ("v", id(callee), p), f"{ru} via {callee.name}({p})")
                            rl = self.is_LZ(g, arg)
                            if rl:
                                changed |= self._bind(self.LZ, ("v", id(callee), p), f"{rl} via {callee.name}({p})")
            # may-invoke-unguarded summaries
            for g in self.fns:
                if g in self.ung:
                    continue
                for inv in self.invocations(g):
                    if not inv.guarded:
                        self.ung[g] = inv.what
                        changed = True
                        break

    def _bind_args(self, call: ast.Call, callee: Fn):
        a = callee.node.args
        pos = [p.arg for p in a.posonlyargs + a.args]
        if callee.has_decorator("curry_flip"):
            pos = pos[1:]
        if callee.parent is not None and callee.parent.is_class and pos and pos[0] in ("self", "cls"):
            pos = pos[1:]
        out = []
        for i, arg in enumerate(call.args):
            if isinstance(arg, ast.Starred):
                break
            if i < len(pos):
                out.append((arg, pos[i]))
        names = set(callee.params)
        for k in call.keywords:
            if k.arg and k.arg in names:
                out.append((k.value, k.arg))
        return out

    def _method_target(self, g: Fn, f: ast.Attribute) -> Optional[Fn]:
        """x.method where x is a local bound to a constructor call of a package class, or self.method."""
        v = f.value
        if isinstance(v, ast.Name):
            if v.id == "self":
                c = g
                while c is not None and not c.is_class:
                    c = c.parent
                return self.repo.class_method(c, f.attr) if c is not None else None
            o = g.owner(v.id)
            if o is not None and not o.is_module:
                for kind, node in o.binds.get(v.id, []):
                    val = getattr(node, "value", None)
                    if kind == "assign" and isinstance(val, ast.Call):
                        c = self.repo.resolve_expr(o, val.func)
                        if c is not None and c.is_class:
                            return self.repo.class_method(c, f.attr)
        return None

    # -- invocation sites ---------------------------------------------------------
    def invocations(self, g: Fn) -> List[Invocation]:
        out: List[Invocation] = []
        for s in sites(g):
            n = s.node
            what = None
            kind = "call"
            if isinstance(n, ast.Call):
                r = self.is_U(g, n.func)
                if r:
                    what = r
                else:
                    nm = call_name(n)
                    if nm == "next" and isinstance(n.func, ast.Name) and n.args:
                        rl = self.is_LZ(g, n.args[0])
                        if rl and "varargs" not in rl:
                            what, kind = f"lazy iterator {rl}", "advance"
                    if what is None:
                        callee = self.repo.resolve_expr(g, n.func)
                        if callee is None and isinstance(n.func, ast.Attribute):
                            callee = self._method_target(g, n.func)
                        if callee is None and isinstance(n.func, ast.Name):
                            callee = g.resolve_local_def(n.func.id)
                        if callee is not None and callee.is_class:
                            callee = self.repo.class_method(callee, "__init__")
                        if callee is not None and callee.is_func and callee in self.ung and callee is not g \
                                and self.model.role.get(callee, "helper") == "helper":
                            what = f"{callee.name}() which invokes {self.ung[callee]}"
                    # callable element of a varargs tuple:  source(state) if callable(source)
                    if what is None and isinstance(n.func, ast.Name):
                        o = g.owner(n.func.id)
                        if o is not None and not o.is_module:
                            for kind_, node in o.binds.get(n.func.id, []):
                                val = getattr(node, "value", None)
                                if kind_ == "assign" and isinstance(val, ast.Call) and call_name(val) == "next" and val.args \
                                        and self.is_LZ(o, val.args[0]):
                                    what = f"element of {self.is_LZ(o, val.args[0])}"
            elif isinstance(n, (ast.For, ast.AsyncFor)):
                rl = self.is_LZ(g, n.iter)
                if rl and "varargs" not in rl:
                    what, kind = f"lazy iterator {rl}", "advance"
            if what is None:
                continue
            guarded = routed = False
            for t in s.ctx.tries:
                for h in t.handlers:
                    if handler_catches_exception(h):
                        guarded = True
                        if handler_routes(h):
                            routed = True
            out.append(Invocation(g, s, what, kind, guarded and routed, routed))
        return out
