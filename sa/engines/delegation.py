"""E5 — delegation agreement: does a wrapper forward each of its parameters to the parameter of the same role
of the function it delegates to, exactly once, un-transformed, with the same default?"""
from __future__ import annotations

import ast
from dataclasses import dataclass, field
from typing import Dict, List, Optional, Tuple

from ..astutil import call_name, dotted, short, strip_cast, u
from ..ctx import Site, sites
from ..frontend import Fn, Repo


@dataclass
class Sig:
    pos: List[str]
    kwonly: List[str]
    vararg: Optional[str]
    kwarg: Optional[str]
    defaults: Dict[str, ast.AST]

    @property
    def all(self) -> List[str]:
        return self.pos + self.kwonly


def signature(f: Fn, drop_first: int = 0) -> Sig:
    a = f.node.args
    pos = [p.arg for p in a.posonlyargs + a.args]
    defaults: Dict[str, ast.AST] = {}
    for p, d in zip(reversed(a.posonlyargs + a.args), reversed(a.defaults)):
        defaults[p.arg] = d
    for p, d in zip(a.kwonlyargs, a.kw_defaults):
        if d is not None:
            defaults[p.arg] = d
    pos = pos[drop_first:]
    return Sig(pos, [p.arg for p in a.kwonlyargs], a.vararg.arg if a.vararg else None,
               a.kwarg.arg if a.kwarg else None, defaults)


def implementation(repo: Repo, modname: str, name: str) -> Optional[Fn]:
    """Last non-@overload definition of `name` in module (following aliases)."""
    m = repo.by_modname.get(modname)
    if m is None:
        return None
    cands = [c for c in m.root.children if c.is_func and c.name == name and not c.has_decorator("overload")]
    if cands:
        return cands[-1]
    return repo.resolve_symbol(modname, name)


@dataclass
class Application:
    """One `TARGET(args)` found on a return path of a wrapper."""
    site: Site
    call: ast.Call           # the call TARGET(args...)
    target: ast.AST          # callee expression
    applied_to: Optional[ast.AST]   # the observable the operator function is applied to (None if not applied)


def find_applications(fn: Fn, is_target) -> List[Application]:
    """Return statements of fn whose value is  X.pipe(T(args)) | T(args)(X) | T(args)  with is_target(T)."""
    out = []
    aliases: Dict[str, ast.AST] = {}
    for s in sites(fn):
        n = s.node
        if isinstance(n, (ast.Assign, ast.AnnAssign)) and n.value is not None:
            t = n.targets[0] if isinstance(n, ast.Assign) else n.target
            if isinstance(t, ast.Name):
                aliases[t.id] = n.value
    for s in sites(fn):
        if not isinstance(s.node, ast.Return) or s.node.value is None:
            continue
        v = strip_cast(s.node.value)
        if isinstance(v, ast.Name) and v.id in aliases:
            v = strip_cast(aliases[v.id])
        if isinstance(v, ast.Call):
            f = v.func
            # X.pipe(T(args))
            if isinstance(f, ast.Attribute) and f.attr == "pipe" and len(v.args) >= 1:
                for a in v.args:
                    a = strip_cast(a)
                    if isinstance(a, ast.Name) and a.id in aliases:
                        a = strip_cast(aliases[a.id])
                    if isinstance(a, ast.Call) and is_target(a.func):
                        out.append(Application(s, a, a.func, f.value))
                continue
            # T(args)(X)
            if isinstance(f, ast.Call) and is_target(f.func) and len(v.args) == 1:
                out.append(Application(s, f, f.func, v.args[0]))
                continue
            # T(args)
            if is_target(f):
                out.append(Application(s, v, f, None))
                continue
        out.append(Application(s, None, None, None))
    return out


def bind(call: ast.Call, sig: Sig) -> Tuple[List[Tuple[ast.AST, Optional[str], Optional[int]]], List[str]]:
    """[(arg expression, callee parameter name, callee positional index)] and problems."""
    out = []
    problems = []
    for i, a in enumerate(call.args):
        if isinstance(a, ast.Starred):
            out.append((a, sig.vararg, None))
            if sig.vararg is None:
                problems.append(f"*{u(a.value)} passed but callee has no *args")
            continue
        if i < len(sig.pos):
            out.append((a, sig.pos[i], i))
        elif sig.vararg:
            out.append((a, sig.vararg, None))
        else:
            problems.append(f"too many positional arguments ({u(a)})")
    for k in call.keywords:
        if k.arg is None:
            out.append((k.value, sig.kwarg, None))
            continue
        if k.arg in sig.pos:
            out.append((k.value, k.arg, sig.pos.index(k.arg)))
        elif k.arg in sig.kwonly:
            out.append((k.value, k.arg, None))
        elif sig.kwarg:
            out.append((k.value, sig.kwarg, None))
        else:
            problems.append(f"keyword {k.arg} is not a parameter of the callee")
    return out, problems
