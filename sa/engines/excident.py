"""Exception identity: a variable that holds an exception object decides "did it fail?" by identity (`is (not) None`),
never by truthiness -- exception classes may define __len__ / __bool__ (an error carrying an empty list of items)."""
from __future__ import annotations

import ast
from typing import List, Set, Tuple

from ..astutil import atoms, short, u
from ..frontend import Fn
from ..model import Model
from ..rules import cell_name


def exception_vars(model: Model, root: Fn) -> Set[Tuple[int, str]]:
    """(id(owner scope), name) of variables / cells in the closure tree of root that may hold an exception object."""
    tainted: Set[Tuple[int, str]] = set()
    fns = [g for g in root.walk() if g.is_func]

    def key(g: Fn, name: str):
        o = g.owner(name)
        return (id(o), name) if o is not None and not o.is_module else None

    for g in fns:
        if model.slot.get(g) == "on_error" and model.role.get(g) == "handler" and g.positional_params:
            tainted.add((id(g), g.positional_params[0]))
        for n in g.direct_nodes():
            if isinstance(n, ast.ExceptHandler) and n.name:
                k = key(g, n.name)
                if k:
                    tainted.add(k)
    changed = True
    rounds = 0
    while changed and rounds < 10:
        changed = False
        rounds += 1
        for g in fns:
            for n in g.direct_nodes():
                if isinstance(n, (ast.Assign, ast.AnnAssign)) and n.value is not None:
                    v = n.value
                    src = False
                    if isinstance(v, ast.Attribute) and v.attr == "exception":
                        src = True
                    cn = cell_name(v) if isinstance(v, (ast.Name, ast.Subscript)) else None
                    if cn and key(g, cn) in tainted:
                        src = True
                    if src:
                        for t in (n.targets if isinstance(n, ast.Assign) else [n.target]):
                            tn = cell_name(t)
                            k = key(g, tn) if tn else None
                            if k and k not in tainted:
                                tainted.add(k)
                                changed = True
    return tainted


def truth_tests(model: Model, root: Fn):
    """(fn, node, expr, by_identity) for every test of an exception variable in the closure tree of root."""
    tv = exception_vars(model, root)
    out = []
    for g in root.walk():
        if not g.is_func:
            continue
        for n in g.direct_nodes():
            if not isinstance(n, (ast.If, ast.While, ast.IfExp, ast.Assert)):
                continue
            from ..rules import effective_test
            for e, _pol in atoms(effective_test(g, n.test), True):
                for x in (e.values if isinstance(e, ast.BoolOp) else [e]):
                    while isinstance(x, ast.UnaryOp) and isinstance(x.op, ast.Not):
                        x = x.operand
                    if isinstance(x, (ast.Name, ast.Subscript)):
                        cn = cell_name(x)
                        o = g.owner(cn) if cn else None
                        if o is not None and (id(o), cn) in tv:
                            out.append((g, n, x, False))
                    elif isinstance(x, ast.Compare) and len(x.ops) == 1 and isinstance(x.ops[0], (ast.Is, ast.IsNot)) \
                            and isinstance(x.comparators[0], ast.Constant) and x.comparators[0].value is None:
                        cn = cell_name(x.left) if isinstance(x.left, (ast.Name, ast.Subscript)) else None
                        o = g.owner(cn) if cn else None
                        if o is not None and (id(o), cn) in tv:
                            out.append((g, n, x, True))
    return out


def rule_exception_identity(rep, rule: str, model: Model, root: Fn) -> int:
    n = 0
    for g, node, x, ident in truth_tests(model, root):
        n += 1
        rep.ob(rule, g, f"{g.qual}: `{short(node.test, 50)}` tests the recorded exception {'by identity' if ident else 'by truthiness'}", ident,
               f"{g.qual} decides whether an error was recorded by the truthiness of the exception object `{u(x)}`: a falsy "
               f"exception (an exception class defining __len__ / __bool__) is treated as 'no error' -- the error is delivered "
               f"late, or the sequence completes instead of failing")
    return n
