"""E3 — lock discipline facts for classes whose state is guarded by a lock.

Per method: every access to a guarded field tagged with whether the guarding
lock is held at that site, plus the idiom classifiers the rules rely on
(monotone flags, early exits, pure getters, helper-called-under-lock).
"""
from __future__ import annotations

import ast
from dataclasses import dataclass
from typing import Dict, Iterable, List, Optional, Set, Tuple

from ..astutil import call_name, dotted, short, u
from ..ctx import Site, sites, dominates
from ..frontend import Fn, Repo


@dataclass
class Access:
    site: Site
    field: str
    mode: str       # 'r' | 'w'
    locked: bool
    fn: Fn


def field_of(n: ast.AST, recv: str = "self") -> Optional[str]:
    if isinstance(n, ast.Attribute) and dotted(n.value) == recv:
        return n.attr
    return None


class ClassLocks:
    def __init__(self, repo: Repo, cls: Fn, lock_texts: Iterable[str], fields: Iterable[str], recv: str = "self"):
        self.repo = repo
        self.cls = cls
        self.locks = set(lock_texts)
        self.fields = set(fields)
        self.recv = recv
        self.methods = [m for m in cls.children if m.is_func]
        self._under_lock_helpers: Optional[Set[str]] = None

    # -- lock context ---------------------------------------------------
    def held(self, s: Site) -> bool:
        return any(l in self.locks for l in s.ctx.locks)

    def helper_always_called_locked(self, m: Fn) -> bool:
        """Every call site `self.m()` inside the class holds the lock (and there is at least one)."""
        calls = []
        for other in self.methods:
            for g in other.walk():
                if not g.is_func:
                    continue
                for s in sites(g):
                    if isinstance(s.node, ast.Call) and dotted(s.node.func) == f"{self.recv}.{m.name}":
                        calls.append((g, s))
        if not calls:
            return False
        for g, s in calls:
            if self.held(s):
                continue
            if g is not m and g.parent is self.cls and self.helper_always_called_locked_safe(g, {m.name}):
                continue
            return False
        return True

    def helper_always_called_locked_safe(self, m: Fn, seen: Set[str]) -> bool:
        if m.name in seen:
            return False
        seen.add(m.name)
        return self.helper_always_called_locked(m)

    # -- accesses ---------------------------------------------------------
    def accesses(self, m: Fn) -> List[Access]:
        out: List[Access] = []
        base_locked = self.helper_always_called_locked(m) if m.parent is self.cls else False
        for s in sites(m):
            n = s.node
            f = field_of(n, self.recv)
            if f is None or f not in self.fields:
                continue
            locked = self.held(s) or base_locked
            if isinstance(n.ctx, (ast.Store, ast.Del)):
                out.append(Access(s, f, "w", locked, m))
                if isinstance(s.stmt, ast.AugAssign) and s.stmt.target is n:
                    out.append(Access(s, f, "r", locked, m))
            else:
                # mutation through a method call on the field (self.q.append(x)) is a write as well
                par = m.module.parents.get(n)
                gp = m.module.parents.get(par) if par is not None else None
                if isinstance(par, ast.Attribute) and isinstance(gp, ast.Call) and gp.func is par and par.attr in (
                        "append", "remove", "clear", "pop", "popleft", "extend", "insert", "add", "discard",
                        "enqueue", "dequeue", "sort"):
                    out.append(Access(s, f, "w", locked, m))
                out.append(Access(s, f, "r", locked, m))
        return out

    def monotone_true(self, field: str) -> bool:
        """Outside __init__, the field is only ever assigned the constant True."""
        found = False
        for m in self.methods:
            if m.name == "__init__":
                continue
            for g in m.walk():
                if not g.is_func:
                    continue
                for s in sites(g):
                    n = s.node
                    if isinstance(n, (ast.Assign, ast.AnnAssign, ast.AugAssign)):
                        tg = n.targets if isinstance(n, ast.Assign) else [n.target]
                        for t in tg:
                            if field_of(t, self.recv) == field:
                                found = True
                                v = getattr(n, "value", None)
                                if isinstance(n, ast.AugAssign) or not (isinstance(v, ast.Constant) and v.value is True):
                                    return False
        return found

    def is_early_exit_read(self, a: Access) -> bool:
        """The read is the test (or part of it) of an `if` whose taken branch only returns / raises,
        with no side effect, on a monotone flag: stale reads can only delay the exit."""
        if a.mode != "r" or not self.monotone_true(a.field):
            return False
        st = a.site.stmt
        if not isinstance(st, ast.If):
            return False
        if not any(x is a.site.node for x in ast.walk(st.test)):
            return False
        # flag true => exit
        from ..astutil import atoms
        pos = [e for e, p in atoms(st.test, True) if p and field_of(e, self.recv) == a.field]
        if not pos:
            return False
        return _only_exits(st.body)

    def is_pure_getter(self, m: Fn) -> bool:
        """No field writes, no call-outs other than on the values read (snapshot)."""
        for s in sites(m):
            n = s.node
            if isinstance(n, (ast.Assign, ast.AugAssign, ast.AnnAssign)):
                tg = n.targets if isinstance(n, ast.Assign) else [n.target]
                for t in tg:
                    if isinstance(t, (ast.Attribute, ast.Subscript)):
                        return False
            if isinstance(n, ast.Call):
                nm = call_name(n)
                if nm in ("len", "list", "tuple", "bool", "isinstance", "copy"):
                    continue
                if isinstance(n.func, ast.Attribute) and n.func.attr in ("copy",):
                    continue
                return False
            if isinstance(n, (ast.Raise,)):
                return False
        return True


def _only_exits(body: List[ast.stmt]) -> bool:
    from ..astutil import effective
    body = effective(body)
    for st in body:
        if isinstance(st, ast.Return):
            if st.value is not None and not isinstance(st.value, (ast.Constant, ast.Name)):
                return False
        elif isinstance(st, ast.Raise):
            continue
        elif isinstance(st, ast.Pass):
            continue
        else:
            return False
    return bool(body)


def lock_kind(repo: Repo, cls: Fn, attr: str) -> Optional[str]:
    """'Lock' | 'RLock' | 'Condition(<inner>)' from the constructor assignment of self.<attr>."""
    init = cls.child("__init__")
    if init is None:
        return None
    for s in sites(init):
        n = s.node
        if isinstance(n, (ast.Assign, ast.AnnAssign)) and n.value is not None:
            tg = n.targets if isinstance(n, ast.Assign) else [n.target]
            for t in tg:
                if field_of(t) == attr and isinstance(n.value, ast.Call):
                    nm = call_name(n.value)
                    if nm == "Condition" and n.value.args:
                        inner = n.value.args[0]
                        if isinstance(inner, ast.Call):
                            return f"Condition({call_name(inner)})"
                        f = field_of(inner)
                        if f:
                            return f"Condition({lock_kind(repo, cls, f)})"
                    return nm
    return None


def discipline(rep, cl: "ClassLocks", w_rule: str, r_rule: str, skip=("__init__",), read_ok=None,
               what: str = "") -> None:
    """L1: writes to guarded fields under the lock.  L2/L3: reads that decide anything under the lock, except
    monotone early exits, pure getters and `read_ok(access)` idioms named by the caller."""
    for m in cl.methods:
        if m.name in skip:
            continue
        getter = cl.is_pure_getter(m)
        for g in m.walk():
            if not g.is_func:
                continue
            nested = g is not m
            for a in cl.accesses(g) if not nested else _nested_accesses(cl, g):
                c = f"{g.qual.split('.', 1)[-1]}: {a.mode} self.{a.field} in `{short(a.site.stmt, 60)}`"
                if a.mode == "w":
                    rep.ob(w_rule, g, c, a.locked,
                           f"write to guarded field self.{a.field} outside the lock{what}")
                else:
                    ok = a.locked or (getter and not nested) or cl.is_early_exit_read(a) or bool(read_ok and read_ok(a))
                    rep.ob(r_rule, g, c, ok,
                           f"self.{a.field} is read outside the lock and the result decides a side effect (not a "
                           f"monotone early exit, not a pure getter){what}")


def _nested_accesses(cl: "ClassLocks", g: Fn):
    out = []
    for s in sites(g):
        n = s.node
        f = field_of(n, cl.recv)
        if f is None or f not in cl.fields:
            continue
        locked = cl.held(s)
        out.append(Access(s, f, "w" if isinstance(n.ctx, (ast.Store, ast.Del)) else "r", locked, g))
    return out
