"""E7 — subscription ownership (held-by reachability).

For a subscribe function f (stage L2) every *acquisition* made anywhere in its
closure tree — `X.subscribe(..)`, `S.schedule*(..)`, `r.disposable` of a
RefCountDisposable — must be connected through held-by edges to the value f
returns, otherwise nothing can dispose it when the pipeline terminates or is
unsubscribed.  Flow-insensitive over the closure tree (robust to statement
order); variables are identified by their binding scope.
"""
from __future__ import annotations

import ast
import collections
from typing import Dict, List, Optional, Set, Tuple

from ..astutil import call_name, dotted, short, strip_cast, u
from ..frontend import Fn, FUNC_NODES
from ..model import Model, SCHEDULE, resolve_callable, schedule_action_arg, is_subscribe_call, is_schedule_call

CONTAINERS = {"CompositeDisposable", "RefCountDisposable", "ScheduledDisposable", "SerialDisposable",
              "SingleAssignmentDisposable", "MultipleAssignmentDisposable", "InnerSubscription"}
HOLD_METHODS = {"add", "append", "insert", "appendleft", "extend"}


class Acq:
    def __init__(self, fn: Fn, node: ast.AST, kind: str):
        self.fn, self.node, self.kind = fn, node, kind

    @property
    def text(self) -> str:
        n = self.node
        if isinstance(n, ast.Call):
            return f"{u(n.func)}(...)"
        return u(n)


class Ownership:
    def __init__(self, model: Model, root: Fn):
        self.model = model
        self.root = root
        self.edges: Dict[object, Set[object]] = collections.defaultdict(set)
        self.acqs: List[Tuple[object, Acq]] = []
        self.visited_calls: Set[int] = set()
        self.cnt = 0
        self.RET = ("ret", id(root))
        self.refcount_vars: Set[Tuple[int, str]] = set()
        self.call_nodes: Dict[int, object] = {}
        self.callsites: Dict[object, List[object]] = collections.defaultdict(list)
        self.tree: List[Fn] = []
        self._collect_tree(root)
        self._find_refcounts()
        for g in self.tree:
            self._function(g)
        self._sweep()

    # -- structure --------------------------------------------------------
    def _collect_tree(self, f: Fn) -> None:
        self.tree.append(f)
        for c in f.children:
            if c.is_class:
                # local classes: their methods are part of the closure tree
                for m in c.children:
                    if m.is_func:
                        self._collect_tree(m)
                continue
            if self.model.role.get(c) == "subscribe" and c is not self.root:
                continue  # nested subscribe functions are analysed as their own roots
            self._collect_tree(c)

    def _find_refcounts(self) -> None:
        for g in [self.root] + [x for x in self._lexical_parents(self.root)]:
            if g.is_func:
                a = g.node.args
                for p in a.posonlyargs + a.args + a.kwonlyargs:
                    if p.annotation is not None and "RefCountDisposable" in u(p.annotation):
                        self.refcount_vars.add((id(g), p.arg))
        for g in self.tree:
            for n in g.direct_nodes():
                if isinstance(n, (ast.Assign, ast.AnnAssign)) and isinstance(n.value, ast.Call) \
                        and call_name(n.value) == "RefCountDisposable":
                    tg = n.targets if isinstance(n, ast.Assign) else [n.target]
                    for t in tg:
                        if isinstance(t, ast.Name):
                            o = g.owner(t.id) or g
                            self.refcount_vars.add((id(o), t.id))

    @staticmethod
    def _lexical_parents(f: Fn):
        p = f.parent
        while p is not None:
            yield p
            p = p.parent

    def fresh(self, tag: str) -> object:
        self.cnt += 1
        return (tag, self.cnt)

    def edge(self, a: object, b: object) -> None:
        if a is not None and b is not None and a != b:
            self.edges[a].add(b)

    def var(self, cur: Fn, name: str) -> object:
        o = cur.owner(name) or cur
        return ("v", id(o), name)

    def ret_of(self, g: Fn) -> object:
        return self.RET if g is self.root else ("ret", id(g))

    # -- expressions ------------------------------------------------------
    def node_of(self, e: Optional[ast.AST], cur: Fn) -> Optional[object]:
        if e is None:
            return None
        if isinstance(e, ast.Name):
            return self.var(cur, e.id)
        if isinstance(e, ast.Subscript):
            self.node_of(e.slice, cur)
            return self.node_of(e.value, cur)
        if isinstance(e, ast.Attribute):
            if e.attr == "disposable" and isinstance(e.value, ast.Name) and isinstance(e.ctx, ast.Load):
                o = cur.owner(e.value.id) or cur
                if (id(o), e.value.id) in self.refcount_vars:
                    nid = self.fresh("acq")
                    self.acqs.append((nid, Acq(cur, e, "refcount-dependent")))
                    return nid
            d = dotted(e)
            if d is not None:
                return ("a", d)
            self.node_of(e.value, cur)
            return None
        if isinstance(e, (ast.List, ast.Tuple, ast.Set)):
            nid = self.fresh("seq")
            for x in e.elts:
                self.edge(self.node_of(x, cur), nid)
            return nid
        if isinstance(e, ast.Dict):
            nid = self.fresh("seq")
            for x in e.values:
                self.edge(self.node_of(x, cur), nid)
            return nid
        if isinstance(e, (ast.ListComp, ast.SetComp, ast.GeneratorExp)):
            nid = self.fresh("seq")
            for gen in e.generators:
                self.node_of(gen.iter, cur)
            self.edge(self.node_of(e.elt, cur), nid)
            return nid
        if isinstance(e, ast.BinOp):
            nid = self.fresh("seq")
            self.edge(self.node_of(e.left, cur), nid)
            self.edge(self.node_of(e.right, cur), nid)
            return nid
        if isinstance(e, ast.IfExp):
            self.node_of(e.test, cur)
            nid = self.fresh("alt")
            self.edge(self.node_of(e.body, cur), nid)
            self.edge(self.node_of(e.orelse, cur), nid)
            return nid
        if isinstance(e, ast.BoolOp):
            nid = self.fresh("alt")
            for v in e.values:
                self.edge(self.node_of(v, cur), nid)
            return nid
        if isinstance(e, ast.Starred):
            return self.node_of(e.value, cur)
        if isinstance(e, ast.NamedExpr):
            v = self.node_of(e.value, cur)
            self.edge(v, self.node_of(e.target, cur))
            return v
        if isinstance(e, ast.Await):
            return self.node_of(e.value, cur)
        if isinstance(e, ast.Lambda):
            return None
        if isinstance(e, ast.Call):
            return self.call(e, cur)
        for ch in ast.iter_child_nodes(e):
            if isinstance(ch, ast.expr):
                self.node_of(ch, cur)
        return None

    def _dispose_receivers(self, g: Fn, seen: Set[int]) -> List[Tuple[ast.AST, Fn]]:
        """Receivers x of `x.dispose()` in g and in local helpers g calls."""
        if id(g) in seen:
            return []
        seen.add(id(g))
        out = []
        for n in g.direct_nodes():
            if isinstance(n, ast.Call) and isinstance(n.func, ast.Attribute) and n.func.attr == "dispose":
                out.append((n.func.value, g))
            elif isinstance(n, ast.Call) and isinstance(n.func, ast.Name):
                h = g.resolve_local_def(n.func.id)
                if h is not None and h.is_func and h in self.tree:
                    out += self._dispose_receivers(h, seen)
            elif isinstance(n, ast.For):
                # for d in xs: d.dispose()  -> xs
                pass
        # `for d in xs: d.dispose()`: the loop variable aliases elements of xs
        for n in g.direct_nodes():
            if isinstance(n, ast.For) and isinstance(n.target, ast.Name):
                for m in ast.walk(n):
                    if isinstance(m, ast.Call) and isinstance(m.func, ast.Attribute) and m.func.attr == "dispose" \
                            and isinstance(m.func.value, ast.Name) and m.func.value.id == n.target.id:
                        out.append((n.iter, g))
        return out

    def call(self, e: ast.Call, cur: Fn) -> Optional[object]:
        nm = call_name(e)
        f = e.func
        if is_subscribe_call(e) or is_schedule_call(e):
            self.visited_calls.add(id(e))
            nid = self.fresh("acq")
            self.acqs.append((nid, Acq(cur, e, "subscribe" if nm == "subscribe" else "schedule")))
            self.node_of(f.value, cur)
            for a in list(e.args) + [k.value for k in e.keywords]:
                if is_schedule_call(e):
                    t = resolve_callable(cur, a)
                    if t.kind == "fn" and t.fn in self.tree:
                        # the ScheduledItem stores the disposable its action returns
                        self.edge(self.ret_of(t.fn), nid)
                        if t.fn.is_lambda:
                            self.edge(self.node_of(t.fn.node.body, t.fn), nid)
                        continue
                self.node_of(a, cur)
            return nid
        if nm == "cast" and len(e.args) == 2:
            return self.node_of(e.args[1], cur)
        if nm == "Disposable" and isinstance(f, ast.Name):
            nid = self.fresh("disp")
            self.call_nodes[id(e)] = nid
            for a in e.args:
                t = resolve_callable(cur, a)
                if t.kind == "fn":
                    for recv, g in self._dispose_receivers(t.fn, set()):
                        self.edge(self.node_of(recv, g), nid)
                elif t.kind == "bound" and t.attr == "dispose":
                    self.edge(self.node_of(a.value if isinstance(a, ast.Attribute) else a, cur), nid)
                else:
                    self.edge(self.node_of(a, cur), nid)
            return nid
        if nm in CONTAINERS and isinstance(f, ast.Name):
            nid = self.fresh("cont:" + nm)
            self.call_nodes[id(e)] = nid
            for a in list(e.args) + [k.value for k in e.keywords]:
                self.edge(self.node_of(a, cur), nid)
            return nid
        if isinstance(f, ast.Attribute) and f.attr in HOLD_METHODS and e.args:
            recv = self.node_of(f.value, cur)
            for a in e.args:
                self.edge(self.node_of(a, cur), recv)
            return None
        if isinstance(f, ast.Name):
            g = cur.resolve_local_def(f.id)
            if g is not None and g.is_func and g in self.tree:
                ps = g.positional_params
                for i, a in enumerate(e.args):
                    an = self.node_of(a, cur)
                    if i < len(ps):
                        pv = ("v", id(g), ps[i])
                        self.edge(an, pv)
                        self.edge(pv, an)
                for k in e.keywords:
                    an = self.node_of(k.value, cur)
                    if k.arg:
                        pv = ("v", id(g), k.arg)
                        self.edge(an, pv)
                        self.edge(pv, an)
                # the value of *this* call: every call site must hold what the helper returns
                cs = self.fresh("callsite:" + g.name)
                self.callsites[self.ret_of(g)].append(cs)
                return cs
        if isinstance(f, ast.Call):
            # synchronized(lock)(fn) and similar: no ownership
            self.node_of(f, cur)
            for a in e.args:
                self.node_of(a, cur)
            return None
        # unknown call: its result may hold any of its arguments (add_ref, GroupedObservable, fix_subscriber...)
        nid = self.fresh("call:" + (nm or "?"))
        if isinstance(f, ast.Attribute):
            self.node_of(f.value, cur)
        for a in list(e.args) + [k.value for k in e.keywords]:
            self.edge(self.node_of(a, cur), nid)
        return nid

    # -- statements -------------------------------------------------------
    def _assign(self, target: ast.AST, vn: Optional[object], value: Optional[ast.AST], cur: Fn) -> None:
        if isinstance(target, (ast.Tuple, ast.List)):
            if isinstance(value, (ast.Tuple, ast.List)) and len(value.elts) == len(target.elts):
                for t, v in zip(target.elts, value.elts):
                    self._assign(t, self.node_of(v, cur), v, cur)
            else:
                for t in target.elts:
                    self._assign(t, vn, None, cur)
            return
        if isinstance(target, ast.Attribute) and target.attr in ("disposable", "subscription"):
            self.edge(vn, self.node_of(target.value, cur))
            return
        tn = self.node_of(target, cur)
        self.edge(vn, tn)
        pure_alias = value is not None and isinstance(strip_cast(value), (ast.Name, ast.Attribute, ast.Subscript))
        if pure_alias and not (isinstance(value, ast.Attribute) and value.attr == "disposable"):
            self.edge(tn, vn)

    def _function(self, g: Fn) -> None:
        if g.is_lambda:
            vn = self.node_of(g.node.body, g)
            self.edge(vn, self.ret_of(g))
            return
        for n in g.direct_nodes():
            if isinstance(n, ast.Return):
                self.edge(self.node_of(n.value, g), self.ret_of(g))
            elif isinstance(n, ast.Assign):
                vn = self.node_of(n.value, g)
                for t in n.targets:
                    self._assign(t, vn, n.value, g)
            elif isinstance(n, ast.AnnAssign) and n.value is not None:
                self._assign(n.target, self.node_of(n.value, g), n.value, g)
            elif isinstance(n, ast.AugAssign):
                self.edge(self.node_of(n.value, g), self.node_of(n.target, g))
            elif isinstance(n, ast.Expr):
                self.node_of(n.value, g)
            elif isinstance(n, (ast.For, ast.AsyncFor)):
                it = self.node_of(n.iter, g)
                tn = self.node_of(n.target, g) if isinstance(n.target, ast.Name) else None
                self.edge(it, tn)
                self.edge(tn, it)
            elif isinstance(n, (ast.With, ast.AsyncWith)):
                for item in n.items:
                    vn = self.node_of(item.context_expr, g)
                    if item.optional_vars is not None:
                        self._assign(item.optional_vars, vn, item.context_expr, g)
            elif isinstance(n, (ast.If, ast.While)):
                self.node_of(n.test, g)
            elif isinstance(n, ast.Assert):
                self.node_of(n.test, g)

    def _sweep(self) -> None:
        """Acquisitions in positions the statement walk does not evaluate."""
        for g in self.tree:
            for n in g.direct_nodes():
                if isinstance(n, ast.Call) and (is_subscribe_call(n) or is_schedule_call(n)) \
                        and id(n) not in self.visited_calls:
                    self.call(n, g)

    # -- verdicts -------------------------------------------------------
    def reaches_ret(self, start: object) -> bool:
        """OR over held-by edges; the return node of a local helper is an AND over its call sites (each call
        site must hold the value the helper returns)."""
        memo: Dict[object, bool] = {}

        def go(x: object, stack: Set[object]) -> bool:
            if x == self.RET:
                return True
            if x in memo:
                return memo[x]
            if x in stack:
                return False
            stack = stack | {x}
            res = False
            for y in self.edges.get(x, ()):
                if go(y, stack):
                    res = True
                    break
            if not res and x in self.callsites and self.callsites[x]:
                res = all(go(cs, stack) for cs in self.callsites[x])
            memo[x] = res
            return res

        return go(start, set())

    def results(self) -> List[Tuple[Acq, bool]]:
        return [(a, self.reaches_ret(nid)) for nid, a in self.acqs]

    def holders_of(self, start: object) -> Set[object]:
        seen = {start}
        st = [start]
        while st:
            x = st.pop()
            for y in self.edges.get(x, ()):
                if y not in seen:
                    seen.add(y)
                    st.append(y)
        return seen
