"""E11 helpers — scheduler structure: lock re-acquisition, read-only properties, run-loop facts."""
from __future__ import annotations

import ast
from typing import Dict, Iterable, List, Optional, Set, Tuple

from ..astutil import call_name, dotted, short, u
from ..ctx import Site, sites
from ..frontend import Fn, Repo


def class_family(repo: Repo, cls: Fn) -> List[Fn]:
    return [cls] + repo.subclasses(cls)


def properties_of(repo: Repo, cls: Fn) -> Dict[str, Dict[str, Optional[Fn]]]:
    """name -> {'fget': Fn|None, 'fset': Fn|None} over the MRO of cls (first definition wins)."""
    out: Dict[str, Dict[str, Optional[Fn]]] = {}
    for k in repo.mro(cls):
        for ch in k.children:
            if ch.is_func and ch.has_decorator("property") and ch.name not in out:
                out[ch.name] = {"fget": ch, "fset": None, "owner": k}
        for ch in k.children:
            if ch.is_func:
                for d in ch.decorators:
                    if isinstance(d, ast.Attribute) and d.attr == "setter" and isinstance(d.value, ast.Name) \
                            and d.value.id in out and out[d.value.id]["owner"] is k:
                        out[d.value.id]["fset"] = ch
        for n in k.direct_nodes():
            if isinstance(n, ast.Assign) and isinstance(n.value, ast.Call) and call_name(n.value) == "property":
                for t in n.targets:
                    if isinstance(t, ast.Name) and t.id not in out:
                        fget = fset = None
                        args = list(n.value.args)
                        if len(args) > 0:
                            fget = args[0]
                        if len(args) > 1:
                            fset = args[1]
                        for kw in n.value.keywords:
                            if kw.arg == "fget":
                                fget = kw.value
                            if kw.arg == "fset":
                                fset = kw.value

                        def res(e):
                            if isinstance(e, ast.Name):
                                return k.child(e.id)
                            return None
                        out[t.id] = {"fget": res(fget), "fset": res(fset), "owner": k,
                                     "has_fget": fget is not None and not (isinstance(fget, ast.Constant) and fget.value is None),
                                     "has_fset": fset is not None and not (isinstance(fset, ast.Constant) and fset.value is None)}
    for name, d in out.items():
        d.setdefault("has_fget", d["fget"] is not None)
        d.setdefault("has_fset", d["fset"] is not None)
    return out


def acquires(repo: Repo, cls: Fn, m: Fn, lock_texts: Set[str], seen: Optional[Set[int]] = None) -> Optional[str]:
    """Does method m (of class family cls), transitively through self-calls and property loads, take one
    of the locks?  Returns a witness string or None."""
    seen = seen if seen is not None else set()
    if id(m) in seen:
        return None
    seen.add(id(m))
    props = properties_of(repo, cls)
    for s in sites(m):
        n = s.node
        if isinstance(n, (ast.With, ast.AsyncWith)):
            for it in n.items:
                if u(it.context_expr) in lock_texts:
                    return f"{m.qual}: with {u(it.context_expr)}"
        if isinstance(n, ast.Call) and isinstance(n.func, ast.Attribute) and n.func.attr == "acquire" \
                and u(n.func.value) in lock_texts:
            return f"{m.qual}: {short(n)}"
        if isinstance(n, ast.Attribute) and dotted(n.value) in ("self", "cls"):
            w = _member_acquires(repo, cls, n, m, lock_texts, seen, props)
            if w:
                return w
    return None


def _member_acquires(repo, cls, n: ast.Attribute, m: Fn, lock_texts, seen, props) -> Optional[str]:
    name = n.attr
    par = m.module.parents.get(n)
    is_call = isinstance(par, ast.Call) and par.func is n
    for k in class_family(repo, cls):
        if is_call:
            t = repo.class_method(k, name)
            if t is not None and not t.has_decorator("property"):
                w = acquires(repo, cls, t, lock_texts, seen)
                if w:
                    return f"{name}() -> {w}"
        if name in props and isinstance(n.ctx, ast.Load) or (name in props and isinstance(par, ast.AugAssign)):
            g = props[name].get("fget")
            if g is not None:
                w = acquires(repo, cls, g, lock_texts, seen)
                if w:
                    return f"property {name} -> {w}"
    return None


def reacquire_sites(repo: Repo, cls: Fn, lock_texts: Set[str]) -> List[Tuple[Fn, Site, str]]:
    """Sites that run with one of the (non-reentrant) locks held and use a self member that takes it again."""
    out = []
    props = properties_of(repo, cls)
    for k in class_family(repo, cls):
        for m in k.children:
            if not m.is_func:
                continue
            for s in sites(m):
                if not any(l in lock_texts for l in s.ctx.locks):
                    continue
                n = s.node
                if isinstance(n, ast.Attribute) and dotted(n.value) == "self":
                    w = _member_acquires(repo, cls, n, m, lock_texts, set(), props)
                    if w:
                        out.append((m, s, w))
                if isinstance(n, (ast.With, ast.AsyncWith)):
                    for it in n.items:
                        if u(it.context_expr) in lock_texts and any(l in lock_texts for l in s.ctx.locks):
                            out.append((m, s, "nested with " + u(it.context_expr)))
    return out


def locked_self_uses(repo: Repo, cls: Fn, lock_texts: Set[str]) -> int:
    n = 0
    for k in class_family(repo, cls):
        for m in k.children:
            if m.is_func:
                for s in sites(m):
                    if any(l in lock_texts for l in s.ctx.locks) and isinstance(s.node, ast.Attribute) \
                            and dotted(s.node.value) == "self":
                        n += 1
    return n


def readonly_property_writes(repo: Repo) -> Tuple[List[Tuple[Fn, Site, str]], int]:
    """Package-wide: stores to `self.<p>` where p is a property without a setter in the class's MRO."""
    out = []
    n_props = 0
    for cls in repo.all_classes():
        props = properties_of(repo, cls)
        ro = {p for p, d in props.items() if not d["has_fset"]}
        n_props += len([p for p, d in props.items() if d["owner"] is cls])
        if not ro:
            continue
        for m in cls.children:
            if not m.is_func:
                continue
            for g in m.walk():
                if not g.is_func:
                    continue
                for s in sites(g):
                    n = s.node
                    if isinstance(n, ast.Attribute) and isinstance(n.ctx, (ast.Store, ast.Del)) \
                            and dotted(n.value) == "self" and n.attr in ro:
                        # an instance attribute assigned in __init__ of a class that *defines* the property is
                        # still an error; report all
                        out.append((g, s, n.attr))
    return out, n_props
