"""E10 — symbolic evaluation of `slice_` to the operator pipeline it composes, for every sign class of its
arguments, and comparison of the pipeline's index semantics (under reference models of the positional operators)
with Python list slicing for every length up to a bound.

Nothing from reactivex is imported or executed: the body of slice_ is interpreted by the small evaluator below
(assignments, conditional expressions, comparisons, integer arithmetic, `pipeline.append(ops.X(...))`,
`return source.pipe(*pipeline)`); anything else fails closed with an AnalysisError.
"""
from __future__ import annotations

import ast
import sys
from typing import Any, Dict, List, Optional, Tuple

from ..astutil import call_name, dotted, short, u
from ..frontend import AnalysisError, Fn


class OpCall:
    def __init__(self, name: str, args: List[Any], kwargs: Dict[str, Any]):
        self.name, self.args, self.kwargs = name, args, kwargs

    def __repr__(self) -> str:
        def r(a):
            return "<lambda>" if isinstance(a, Closure) else ("maxsize" if a == sys.maxsize else repr(a))
        return f"{self.name}({', '.join([r(a) for a in self.args] + [f'{k}={r(v)}' for k, v in self.kwargs.items()])})"


class Closure:
    def __init__(self, node: ast.Lambda, env: Dict[str, Any]):
        self.node, self.env = node, env

    def __call__(self, *args):
        ps = [p.arg for p in self.node.args.args]
        env = dict(self.env)
        env.update(dict(zip(ps, args)))
        return Interp(env).expr(self.node.body)


class Raised(Exception):
    pass


class Returned(Exception):
    def __init__(self, value):
        self.value = value


class Pipeline:
    def __init__(self, source: str, ops: List[OpCall]):
        self.source, self.ops = source, ops


class Interp:
    def __init__(self, env: Dict[str, Any]):
        self.env = env

    def expr(self, e: ast.AST) -> Any:
        if isinstance(e, ast.Constant):
            return e.value
        if isinstance(e, ast.Name):
            if e.id in self.env:
                return self.env[e.id]
            if e.id in getattr(self, "locals_", ()):
                raise Raised(f"UnboundLocalError: {e.id}")     # a local of the interpreted function read before any assignment
            raise AnalysisError(f"slice interpreter: unknown name {e.id}")
        if isinstance(e, ast.IfExp):
            return self.expr(e.body) if self.expr(e.test) else self.expr(e.orelse)
        if isinstance(e, ast.UnaryOp):
            v = self.expr(e.operand)
            if isinstance(e.op, ast.USub):
                return -v
            if isinstance(e.op, ast.Not):
                return not v
        if isinstance(e, ast.BinOp):
            a, b = self.expr(e.left), self.expr(e.right)
            if isinstance(e.op, ast.Add):
                return a + b
            if isinstance(e.op, ast.Sub):
                return a - b
            if isinstance(e.op, ast.Mod):
                return a % b
            if isinstance(e.op, ast.Mult):
                return a * b
            if isinstance(e.op, ast.FloorDiv):
                return a // b
        if isinstance(e, ast.BoolOp):
            vals = None
            for v in e.values:
                vals = self.expr(v)
                if isinstance(e.op, ast.And) and not vals:
                    return vals
                if isinstance(e.op, ast.Or) and vals:
                    return vals
            return vals
        if isinstance(e, ast.Compare):
            left = self.expr(e.left)
            for op, c in zip(e.ops, e.comparators):
                right = self.expr(c)
                ok = {ast.Lt: lambda: left < right, ast.Gt: lambda: left > right, ast.LtE: lambda: left <= right,
                      ast.GtE: lambda: left >= right, ast.Eq: lambda: left == right, ast.NotEq: lambda: left != right,
                      ast.Is: lambda: left is right, ast.IsNot: lambda: left is not right}[type(op)]()
                if not ok:
                    return False
                left = right
            return True
        if isinstance(e, ast.Lambda):
            return Closure(e, self.env)
        if isinstance(e, ast.Subscript):
            return self.expr(e.value)[self.expr(e.slice)]
        if isinstance(e, ast.Tuple):
            return tuple(self.expr(x) for x in e.elts)
        if isinstance(e, ast.List):
            return [self.expr(x) for x in e.elts]
        if isinstance(e, ast.Attribute):
            base = self.expr(e.value)
            if isinstance(base, dict) and e.attr in base:
                return base[e.attr]
            if base == "OPS":
                return ("OP", e.attr)
            if isinstance(base, Symbolic):
                return ("METHOD", base, e.attr)
            if isinstance(base, list) and e.attr == "append":
                return ("APPEND", base)
            if isinstance(base, SliceObj) and e.attr in ("start", "stop", "step"):
                return getattr(base, e.attr)
        if isinstance(e, ast.Call):
            f = self.expr(e.func)
            args = []
            for a in e.args:
                if isinstance(a, ast.Starred):
                    args += list(self.expr(a.value))
                else:
                    args.append(self.expr(a))
            kwargs = {k.arg: self.expr(k.value) for k in e.keywords}
            if isinstance(f, tuple) and f[0] == "OP":
                return OpCall(f[1], args, kwargs)
            if isinstance(f, tuple) and f[0] == "APPEND":
                f[1].append(args[0])
                return None
            if isinstance(f, tuple) and f[0] == "METHOD" and f[2] == "pipe":
                return Pipeline(f[1].name, list(args))
            if isinstance(f, tuple) and f[0] == "SLICEFN":
                return ("SLICEAPP", args, kwargs)
            if isinstance(f, tuple) and f[0] == "SLICEAPP":
                return ("SLICED", f[1], f[2], args)
            if f == "isinstance":
                return isinstance(args[0], SliceObj) if args[1] == "slice" else isinstance(args[0], int)
            if f == "TypeError":
                return TypeError(*args)
        raise AnalysisError(f"slice interpreter: unsupported expression `{short(e)}`")

    def block(self, body: List[ast.stmt]) -> None:
        for st in body:
            self.stmt(st)

    def stmt(self, st: ast.stmt) -> None:
        if isinstance(st, ast.Expr):
            if isinstance(st.value, ast.Constant):
                return
            self.expr(st.value)
        elif isinstance(st, ast.Assign):
            v = self.expr(st.value)
            for t in st.targets:
                self.assign(t, v)
        elif isinstance(st, ast.AnnAssign):
            if st.value is not None:
                self.assign(st.target, self.expr(st.value))
        elif isinstance(st, ast.If):
            self.block(st.body if self.expr(st.test) else st.orelse)
        elif isinstance(st, ast.Raise):
            raise Raised(u(st.exc))
        elif isinstance(st, ast.Return):
            raise Returned(self.expr(st.value))
        elif isinstance(st, ast.ImportFrom):
            for al in st.names:
                if al.name == "slice_":
                    self.env[al.asname or al.name] = ("SLICEFN",)
        elif isinstance(st, ast.Pass):
            return
        else:
            raise AnalysisError(f"slice interpreter: unsupported statement `{short(st)}`")

    def assign(self, t: ast.AST, v: Any) -> None:
        if isinstance(t, ast.Name):
            self.env[t.id] = v
        elif isinstance(t, ast.Tuple):
            for tt, vv in zip(t.elts, v):
                self.assign(tt, vv)
        else:
            raise AnalysisError(f"slice interpreter: unsupported target `{short(t)}`")


class Symbolic:
    def __init__(self, name: str):
        self.name = name


class SliceObj:
    def __init__(self, start, stop, step):
        self.start, self.stop, self.step = start, stop, step


_PY_ERRORS = (TypeError, ZeroDivisionError, IndexError, KeyError, AttributeError)


def _stored_names(fn: Fn):
    return {n.id for n in ast.walk(fn.node) if isinstance(n, ast.Name) and isinstance(n.ctx, ast.Store)}


def run_slice(fn: Fn, start, stop, step) -> Tuple[str, Any]:
    """('pipeline', Pipeline) | ('raise', text)"""
    ps = fn.positional_params
    env = {ps[0]: Symbolic("SRC"), ps[1]: start, ps[2]: stop, ps[3]: step, "maxsize": sys.maxsize, "ops": "OPS",
           "TypeError": "TypeError"}
    it = Interp(env)
    it.locals_ = _stored_names(fn)
    try:
        it.block([s for s in fn.node.body])
    except Raised as r:
        return "raise", str(r)
    except _PY_ERRORS as r:     # the interpreter mirrors Python on ints / None: the real code raises the same error
        return "raise", f"{type(r).__name__}: {r}"
    except Returned as r:
        if not isinstance(r.value, Pipeline):
            raise AnalysisError("slice_ does not return source.pipe(...)")
        return "pipeline", r.value
    raise AnalysisError("slice_ falls off its end")


def run_getitem(fn: Fn, key) -> Tuple[str, Any]:
    ps = fn.positional_params
    env = {ps[0]: Symbolic("SRC"), ps[1]: key, "isinstance": "isinstance", "slice": "slice", "int": "int",
           "TypeError": "TypeError"}
    it = Interp(env)
    it.locals_ = _stored_names(fn)
    try:
        it.block(fn.node.body)
    except Raised as r:
        return "raise", str(r)
    except _PY_ERRORS as r:
        return "raise", f"{type(r).__name__}: {r}"
    except Returned as r:
        v = r.value
        if isinstance(v, tuple) and v[0] == "SLICED":
            a = list(v[1]) + [None] * 3
            return "slice", (a[0], a[1], a[2], v[3][0])
        raise AnalysisError("__getitem__ does not return slice_(start, stop, step)(self)")
    raise AnalysisError("__getitem__ falls off its end")


# -- reference models of the positional operators (C05 is their own subject) ------------------
def apply_op(op: OpCall, xs: list) -> list:
    a = op.args
    if op.name == "take":
        return xs[: a[0]] if a[0] >= 0 else _bad(op)
    if op.name == "skip":
        return xs[a[0]:] if a[0] >= 0 else _bad(op)
    if op.name == "take_last":
        return (xs[-a[0]:] if a[0] > 0 else []) if a[0] >= 0 else _bad(op)
    if op.name == "skip_last":
        return (xs[: -a[0]] if a[0] > 0 else xs) if a[0] >= 0 else _bad(op)
    if op.name == "filter_indexed":
        return [x for i, x in enumerate(xs) if a[0](x, i)]
    if op.name == "filter":
        return [x for x in xs if a[0](x)]
    if op.name == "map":
        return [a[0](x) for x in xs]
    if op.name == "map_indexed":
        return [a[0](x, i) for i, x in enumerate(xs)]
    if op.name == "starmap":
        return [a[0](*x) for x in xs]
    if op.name == "zip_with_iterable" or op.name == "zip_with_list":
        return list(zip(xs, a[0]))
    if op.name == "ignore_elements":
        return []
    raise AnalysisError(f"no reference model for operator `{op.name}` used by slice_")


def _bad(op: OpCall):
    raise Raised(f"{op!r}: negative count (ArgumentOutOfRangeException at run time)")


ELEMENT_BASE = 1000     # elements are 1000 + position: a pipeline that confuses an element with its index selects the wrong ones


def evaluate(p: Pipeline, n: int) -> list:
    """Positions (0-based) of the elements of an n-element source that the pipeline lets through, in order."""
    xs = [ELEMENT_BASE + i for i in range(n)]
    for op in p.ops:
        if not isinstance(op, OpCall):
            raise AnalysisError("pipeline element is not an operator application")
        xs = apply_op(op, xs)
    out = []
    for v in xs:
        if not (isinstance(v, int) and ELEMENT_BASE <= v < ELEMENT_BASE + n):
            raise Raised(f"the pipeline emits {v!r}, which is not an element of the source")
        out.append(v - ELEMENT_BASE)
    return out
