"""E1 — staging / escape analysis.

Which stage (L0 factory, L1 application, L2 subscription, L3 notification)
allocates each piece of mutable or one-shot state, and which stages mutate or
consume it.  State that is allocated per operator/observable but mutated or
consumed per subscription leaks between subscriptions (C04) or between
applications of one operator object (C44).
"""
from __future__ import annotations

import ast
from dataclasses import dataclass
from typing import Dict, List, Optional, Set, Tuple

from ..astutil import call_name, dotted, short, strip_cast, u
from ..frontend import Fn, Repo
from ..model import Model

MUT_METHODS = {"append", "add", "pop", "remove", "clear", "extend", "update", "popleft", "appendleft", "insert",
               "discard", "setdefault", "popitem", "sort", "reverse", "push", "dispose", "on_next", "on_error",
               "on_completed", "connect"}
ONESHOT_BUILTINS = {"iter", "map", "filter", "zip", "enumerate", "reversed"}
MUTABLE_CTORS = {"list", "dict", "set", "deque", "OrderedDict", "defaultdict", "bytearray", "Counter",
                 "Subject", "BehaviorSubject", "ReplaySubject", "AsyncSubject", "ConnectableObservable",
                 "CompositeDisposable", "SerialDisposable", "SingleAssignmentDisposable",
                 "MultipleAssignmentDisposable", "RefCountDisposable", "BooleanDisposable", "HashSet",
                 "PriorityQueue"}
NORMALISERS = {"to_timedelta", "to_seconds", "to_datetime"}


@dataclass
class Finding:
    scope: Fn          # where the binding lives
    name: str
    alloc: str         # description of the allocation
    alloc_stage: int
    user: Fn           # function that mutates / consumes
    use_stage: int
    how: str           # 'rebind' | 'store' | '.append' | 'next()' | 'for-in' | 'passed to <fn>(<param>)'
    node: ast.AST

    @property
    def construct(self) -> str:
        return f"{self.name} [{self.alloc}] {self.how} in {self.user.qual}"


CONSUMING_BUILTINS = {"reduce", "list", "tuple", "sorted", "sum", "max", "min", "any", "all", "set", "frozenset", "dict", "deque",
                      "zip", "enumerate", "map", "filter", "chain", "join", "extend", "starmap", "accumulate"}


class Staging:
    def __init__(self, repo: Repo, model: Model):
        self.repo = repo
        self.model = model
        self._genfun_cache: Dict[Fn, Tuple[bool, bool]] = {}
        self._late: Dict[Tuple[int, str], Optional[str]] = {}
        self._late_inprogress: Set[Tuple[int, str]] = set()

    # -- kinds ---------------------------------------------------------
    def generator_info(self, f: Fn) -> Tuple[bool, bool]:
        """(is_generator_function, proven_unbounded)"""
        if f in self._genfun_cache:
            return self._genfun_cache[f]
        is_gen = any(isinstance(n, (ast.Yield, ast.YieldFrom)) for n in f.direct_nodes())
        unbounded = False
        if is_gen and not f.is_lambda:
            for st in f.node.body:
                if isinstance(st, ast.While) and isinstance(st.test, ast.Constant) and st.test.value is True:
                    exits = [n for n in ast.walk(st) if isinstance(n, (ast.Break, ast.Return, ast.Raise))]
                    if not exits:
                        unbounded = True
        self._genfun_cache[f] = (is_gen, unbounded)
        return is_gen, unbounded

    def kind_of(self, scope: Fn, e: Optional[ast.AST]) -> Tuple[str, str]:
        """('ONESHOT'|'ONESHOT-INF'|'MUTABLE'|'OTHER', description)"""
        if e is None:
            return "OTHER", "none"
        e = strip_cast(e)
        if isinstance(e, ast.GeneratorExp):
            return "ONESHOT", "generator expression"
        if isinstance(e, (ast.List, ast.Dict, ast.Set, ast.ListComp, ast.DictComp, ast.SetComp)):
            return "MUTABLE", type(e).__name__.lower()
        if isinstance(e, ast.IfExp):
            a, da = self.kind_of(scope, e.body)
            b, db = self.kind_of(scope, e.orelse)
            for k in ("ONESHOT", "ONESHOT-INF", "MUTABLE"):
                if a == k:
                    return a, da
                if b == k:
                    return b, db
            return "OTHER", "conditional"
        if isinstance(e, ast.Call):
            nm = call_name(e)
            d = dotted(e.func) or nm or "?"
            if isinstance(e.func, ast.Name) and nm in ONESHOT_BUILTINS and scope.owner(nm) is None:
                return "ONESHOT", f"{nm}(...)"
            if d.startswith("itertools.") or (isinstance(e.func, ast.Name) and nm in
                                              ("takewhile", "dropwhile", "chain", "cycle", "islice", "count", "tee")
                                              and scope.module.imports.get(nm, ("", ""))[0] == "itertools"):
                inf = d.split(".")[-1] in ("count", "cycle") or (d.split(".")[-1] == "repeat" and len(e.args) + len(e.keywords) == 1)
                return ("ONESHOT-INF" if inf else "ONESHOT"), f"{d}(...)"
            tgt = self.repo.resolve_expr(scope, e.func)
            if tgt is not None and tgt.is_func:
                g, unb = self.generator_info(tgt)
                if g:
                    return ("ONESHOT-INF" if unb else "ONESHOT"), f"generator {tgt.name}()"
                # a plain helper that returns a one-shot iterator (def infinite(): return itertools.count())
                if not hasattr(self, "_ret_depth"):
                    self._ret_depth = 0
                if self._ret_depth < 3:
                    self._ret_depth += 1
                    try:
                        rk = [self.kind_of(tgt, n.value) for n in tgt.direct_nodes() if isinstance(n, ast.Return) and n.value is not None]
                    finally:
                        self._ret_depth -= 1
                    if rk and all(k in ("ONESHOT", "ONESHOT-INF") for k, _ in rk):
                        k0 = "ONESHOT" if any(k == "ONESHOT" for k, _ in rk) else "ONESHOT-INF"
                        return k0, f"{tgt.name}() -> {rk[0][1]}"
            if nm in MUTABLE_CTORS:
                return "MUTABLE", f"{nm}()"
            return "OTHER", f"{d}(...)"
        return "OTHER", type(e).__name__

    def alloc_kinds(self, scope: Fn, name: str) -> List[Tuple[str, str, ast.AST]]:
        out = []
        for kind, node in scope.binds.get(name, []):
            if kind == "param":
                out.append(("PARAM", "parameter", node))
            elif kind == "assign":
                v = getattr(node, "value", None)
                k, d = self.kind_of(scope, v)
                out.append((k, d, node))
            elif kind == "aug":
                out.append(("OTHER", "augmented", node))
            elif kind in ("def", "class", "import"):
                out.append(("FUNC", kind, node))
            else:
                out.append(("OTHER", kind, node))
        return out

    # -- parameter binding at call sites --------------------------------
    def bind_args(self, call: ast.Call, callee: Fn) -> List[Tuple[ast.AST, str]]:
        if not callee.is_func:
            return []
        a = callee.node.args
        pos = [p.arg for p in a.posonlyargs + a.args]
        if callee.has_decorator("curry_flip"):
            pos = pos[1:]
        if callee.parent is not None and callee.parent.is_class and pos and pos[0] in ("self", "cls"):
            pos = pos[1:]
        out = []
        for i, arg in enumerate(call.args):
            if isinstance(arg, ast.Starred):
                break
            if i < len(pos):
                out.append((arg, pos[i]))
            elif a.vararg:
                out.append((arg, a.vararg.arg))
        names = set(callee.params)
        for k in call.keywords:
            if k.arg and k.arg in names:
                out.append((k.value, k.arg))
        return out

    # -- late consumption of parameters ------------------------------------
    def consumed_late(self, h: Fn, q: str) -> Optional[str]:
        """If function h consumes (advances) its parameter q at stage >= 2, a description; else None."""
        key = (id(h), q)
        if key in self._late:
            return self._late[key]
        if key in self._late_inprogress:
            return None
        self._late_inprogress.add(key)
        res = self._consumed_late(h, q)
        self._late_inprogress.discard(key)
        self._late[key] = res
        return res

    def _aliases(self, h: Fn, q: str) -> Set[Tuple[int, str]]:
        """(owner-id, name) pairs that alias parameter q or iter(q) in h's closure tree."""
        al = {(id(h), q)}
        changed = True
        while changed:
            changed = False
            for g in h.walk():
                if not g.is_func:
                    continue
                for n in g.direct_nodes():
                    if isinstance(n, (ast.Assign, ast.AnnAssign)) and n.value is not None:
                        v = strip_cast(n.value)
                        src = None
                        if isinstance(v, ast.Name):
                            src = v
                        elif isinstance(v, ast.Call) and call_name(v) == "iter" and v.args and isinstance(v.args[0], ast.Name):
                            src = v.args[0]
                        if src is None:
                            continue
                        o = g.owner(src.id)
                        if o is None or (id(o), src.id) not in al:
                            continue
                        tg = n.targets if isinstance(n, ast.Assign) else [n.target]
                        for t in tg:
                            if isinstance(t, ast.Name):
                                ot = g.owner(t.id) or g
                                if (id(ot), t.id) not in al:
                                    al.add((id(ot), t.id))
                                    changed = True
        return al

    def _consumed_late(self, h: Fn, q: str) -> Optional[str]:
        al = self._aliases(h, q)

        def is_alias(g: Fn, e: ast.AST) -> bool:
            e = strip_cast(e)
            if isinstance(e, ast.Call) and call_name(e) == "iter" and e.args:
                e = e.args[0]
            if isinstance(e, ast.Name):
                o = g.owner(e.id)
                return o is not None and (id(o), e.id) in al
            return False

        for g in h.walk():
            if not g.is_func:
                continue
            st = self.model.stage.get(g, 0)
            for n in g.direct_nodes():
                if st >= 2:
                    if isinstance(n, ast.Call) and call_name(n) == "next" and n.args and is_alias(g, n.args[0]):
                        return f"next() in {g.qual}"
                    if isinstance(n, (ast.For, ast.AsyncFor)) and is_alias(g, n.iter):
                        return f"for-loop in {g.qual}"
                    if isinstance(n, ast.comprehension) and is_alias(g, n.iter):
                        return f"comprehension in {g.qual}"
                if isinstance(n, ast.Call):
                    callee = self.repo.resolve_expr(g, n.func)
                    if callee is not None and callee.is_func and callee is not h:
                        for arg, p in self.bind_args(n, callee):
                            if is_alias(g, arg):
                                r = self.consumed_late(callee, p)
                                if r:
                                    return f"{callee.name}({p}) -> {r}"
        return None

    # -- main enumeration --------------------------------------------------
    def analyse_scope(self, S: Fn, min_use_stage: int) -> Tuple[List[Finding], int]:
        """Findings for bindings of function scope S used at stage >= min_use_stage by nested functions."""
        out: List[Finding] = []
        n_bindings = 0
        sa = self.model.stage.get(S, 0)
        users = [g for g in S.descendants() if g.is_func and self.model.stage.get(g, 0) >= min_use_stage
                 and self.model.stage.get(g, 0) > sa]
        for name in S.binds:
            allocs = self.alloc_kinds(S, name)
            if all(k == "FUNC" for k, _, _ in allocs):
                continue
            n_bindings += 1
            kinds = {k for k, _, _ in allocs}
            desc = "/".join(sorted({d for _, d, _ in allocs}))
            for g in users:
                if g.owner(name) is not S:
                    continue
                gs = self.model.stage.get(g, 0)
                for n in g.direct_nodes():
                    how = None
                    if isinstance(n, (ast.Assign, ast.AugAssign, ast.AnnAssign)):
                        tg = n.targets if isinstance(n, ast.Assign) else [n.target]
                        for t in tg:
                            for tt in (t.elts if isinstance(t, (ast.Tuple, ast.List)) else [t]):
                                if isinstance(tt, ast.Name) and tt.id == name and name in g.nonlocals:
                                    if isinstance(n, ast.Assign) and self._is_normalisation(n.value, name):
                                        continue
                                    if isinstance(n, ast.AnnAssign) and n.value is None:
                                        continue
                                    how = "rebind"
                                elif isinstance(tt, (ast.Subscript, ast.Attribute)) and isinstance(tt.value, ast.Name) \
                                        and tt.value.id == name:
                                    how = "store " + short(tt, 40)
                    elif isinstance(n, ast.Delete):
                        for t in n.targets:
                            if isinstance(t, (ast.Subscript, ast.Attribute)) and isinstance(t.value, ast.Name) \
                                    and t.value.id == name:
                                how = "del"
                    elif isinstance(n, ast.Call):
                        f = n.func
                        if isinstance(f, ast.Attribute) and isinstance(f.value, ast.Name) and f.value.id == name \
                                and f.attr in MUT_METHODS and kinds & {"MUTABLE"}:
                            how = "." + f.attr + "()"
                        elif call_name(n) == "next" and isinstance(f, ast.Name) and n.args \
                                and isinstance(n.args[0], ast.Name) and n.args[0].id == name \
                                and kinds & {"ONESHOT", "ONESHOT-INF"}:
                            how = "next()"
                        elif call_name(n) in CONSUMING_BUILTINS and kinds & {"ONESHOT"} \
                                and any(isinstance(a_, ast.Name) and a_.id == name for a_ in n.args):
                            how = f"consumed by {call_name(n)}()"
                    elif isinstance(n, (ast.For, ast.AsyncFor)) and isinstance(n.iter, ast.Name) and n.iter.id == name:
                        if kinds & {"ONESHOT"} or (kinds & {"ONESHOT-INF"} and self._target_used(n.target, n.body)):
                            how = "for-in"
                    elif isinstance(n, ast.comprehension) and isinstance(n.iter, ast.Name) and n.iter.id == name:
                        comp = g.module.parents.get(n)
                        used = self._target_used(n.target, [comp]) if comp is not None else True
                        if kinds & {"ONESHOT"} or (kinds & {"ONESHOT-INF"} and used):
                            how = "comprehension-in"
                    if how:
                        out.append(Finding(S, name, desc, sa, g, gs, how, n))
        # one-shot values handed to late-consuming parameters (at any stage of S itself or its helpers)
        for g in [S] + [x for x in S.descendants() if x.is_func]:
            gs = self.model.stage.get(g, 0)
            for n in g.direct_nodes():
                if not isinstance(n, ast.Call):
                    continue
                callee = self.repo.resolve_expr(g, n.func)
                if callee is None or not callee.is_func:
                    continue
                for arg, p in self.bind_args(n, callee):
                    a = strip_cast(arg)
                    akind, adesc, ascope, aname, astage = None, None, None, None, None
                    if isinstance(a, ast.Name):
                        o = g.owner(a.id)
                        if o is None or o.is_module or not o.is_func:
                            continue
                        if not (o is S):
                            continue
                        ks = self.alloc_kinds(o, a.id)
                        os_ = [(k, d) for k, d, _ in ks if k in ("ONESHOT", "ONESHOT-INF")]
                        if not os_:
                            continue
                        akind, adesc = os_[0]
                        aname, astage = a.id, self.model.stage.get(o, 0)
                    else:
                        k, d = self.kind_of(g, a)
                        if k not in ("ONESHOT", "ONESHOT-INF"):
                            continue
                        akind, adesc, aname, astage = k, d, short(a, 40), gs
                    if astage >= min_use_stage:
                        continue
                    late = self.consumed_late(callee, p)
                    if late:
                        out.append(Finding(S, aname, adesc, astage, g, 2, f"passed to {callee.name}({p}) which advances it per "
                                                                          f"subscription ({late})", n))
        return out, n_bindings

    @staticmethod
    def _is_normalisation(v: Optional[ast.AST], name: str) -> bool:
        return isinstance(v, ast.Call) and call_name(v) in NORMALISERS and len(v.args) == 1 \
            and isinstance(v.args[0], ast.Name) and v.args[0].id == name

    @staticmethod
    def _target_used(target: ast.AST, body: List[ast.AST]) -> bool:
        names = {n.id for n in ast.walk(target) if isinstance(n, ast.Name)}
        names = {n for n in names if n != "_"}
        if not names:
            return False
        for b in body:
            for n in ast.walk(b):
                if isinstance(n, ast.Name) and n.id in names and isinstance(n.ctx, ast.Load):
                    return True
        return False
