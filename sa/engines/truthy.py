"""E4 — opaque-data truthiness: is a stream element ever the operand of a truth test or a None comparison?

Flow-insensitive taint per closure tree with a container depth: depth 0 = an
element itself, depth k = a container (list/tuple/dict/queue) whose items have
depth k-1.  Sources: the value parameter of on_next handlers / `_on_next_core`
/ `on_next` methods.  Sinks: a depth-0 value used as `if`/`while`/`assert`/
ternary/comprehension test, operand of `not`/`and`/`or`, argument of `bool()`,
or compared with None.
"""
from __future__ import annotations

import ast
from dataclasses import dataclass
from typing import Dict, List, Optional, Set, Tuple

from ..astutil import call_name, dotted, short, strip_cast, u
from ..frontend import Fn, Repo
from ..model import Model

PUT = {"append": 0, "appendleft": 0, "add": 0, "push": 0, "insert": 1, "setdefault": 1, "enqueue": 0, "put": 0}
GET = {"pop", "popleft", "get", "dequeue", "peek", "popitem"}
COPY = {"copy", "values", "items"}
WRAP_ITER = {"enumerate", "zip", "list", "tuple", "reversed", "iter", "sorted"}


@dataclass
class Sink:
    fn: Fn
    node: ast.AST
    expr: ast.AST
    how: str


class Truthy:
    def __init__(self, repo: Repo, model: Model, root: Fn, data_funcs=(), data_params=()):
        """root: a module-level function or class whose closure tree is analysed as one unit.
        data_funcs: names of user callables (public parameters) whose *results* are opaque data too (keys, mapped values)."""
        self.repo, self.model, self.root = repo, model, root
        self.data_funcs = set(data_funcs)
        self.data_params = set(data_params)
        self.depth: Dict[object, int] = {}
        self.fns = [g for g in root.walk() if g.is_func]
        self.changed = True
        self.seeds: List[Tuple[Fn, str]] = []
        self._seed()
        rounds = 0
        while self.changed and rounds < 30:
            self.changed = False
            rounds += 1
            for g in self.fns:
                self._propagate(g)

    # -- variables --------------------------------------------------------
    def var(self, g: Fn, e: ast.AST) -> Optional[object]:
        if isinstance(e, ast.Name):
            o = g.owner(e.id)
            if o is None:
                return None
            if o.is_module:
                return None
            return ("v", id(o), e.id)
        if isinstance(e, ast.Attribute) and isinstance(e.value, ast.Name) and e.value.id in ("self", "parent"):
            return ("a", e.attr)
        return None

    def _is_data_func(self, g: Fn, name: str) -> bool:
        """name is a data-producing user callable: a public parameter in data_funcs, or a local defaulted from one
        (`key_mapper_ = key_mapper or identity`)."""
        if not self.data_funcs:
            return False
        o = g.owner(name)
        if o is None or not o.is_func:
            return False
        if name in o.params:
            return name in self.data_funcs
        for n in o.direct_nodes():
            if isinstance(n, (ast.Assign, ast.AnnAssign)) and n.value is not None:
                ts = n.targets if isinstance(n, ast.Assign) else [n.target]
                if any(isinstance(t, ast.Name) and t.id == name for t in ts):
                    for x in ast.walk(n.value):
                        if isinstance(x, ast.Name) and x.id in self.data_funcs and x.id != name:
                            ox = o.owner(x.id)
                            if ox is not None and ox.is_func and x.id in ox.params:
                                return True
        return False

    def set_depth(self, v: Optional[object], d: Optional[int]) -> None:
        if v is None or d is None:
            return
        d = min(d, 3)
        if v not in self.depth or self.depth[v] > d and False:
            self.depth[v] = d
            self.changed = True
        elif self.depth[v] != d:
            # keep the minimum (closest to a bare element) — most conservative for sinks
            nd = min(self.depth[v], d)
            if nd != self.depth[v]:
                self.depth[v] = nd
                self.changed = True

    def _seed(self) -> None:
        for g in self.fns:
            is_src = False
            if self.model.slot.get(g) == "on_next" and self.model.role.get(g) == "handler":
                is_src = True
            if g.parent is not None and g.parent.is_class and g.name in ("_on_next_core", "on_next"):
                is_src = True
            if not is_src:
                continue
            ps = g.positional_params
            if g.parent is not None and g.parent.is_class and ps and ps[0] == "self":
                ps = ps[1:]
            if ps:
                self.depth[("v", id(g), ps[0])] = 0
                self.seeds.append((g, ps[0]))
        for g in [self.root] + self.fns:
            if g.is_func:
                for p_ in g.params:
                    if p_ in self.data_params:
                        self.depth[("v", id(g), p_)] = 0

    # -- expression depth ---------------------------------------------------
    def d(self, g: Fn, e: Optional[ast.AST]) -> Optional[int]:
        if e is None:
            return None
        e = strip_cast(e)
        if isinstance(e, (ast.Name, ast.Attribute)):
            v = self.var(g, e)
            return self.depth.get(v) if v is not None else None
        if isinstance(e, ast.Subscript):
            b = self.d(g, e.value)
            if b is None:
                return None
            if isinstance(e.slice, ast.Slice):
                return b
            return b - 1 if b >= 1 else None
        if isinstance(e, (ast.Tuple, ast.List, ast.Set)):
            ds = [self.d(g, x) for x in e.elts]
            ds = [x for x in ds if x is not None]
            return min(ds) + 1 if ds else None
        if isinstance(e, ast.Dict):
            ds = [self.d(g, x) for x in e.values]
            ds = [x for x in ds if x is not None]
            return min(ds) + 1 if ds else None
        if isinstance(e, ast.IfExp):
            ds = [x for x in (self.d(g, e.body), self.d(g, e.orelse)) if x is not None]
            return min(ds) if ds else None
        if isinstance(e, ast.BoolOp):
            ds = [x for x in (self.d(g, v) for v in e.values) if x is not None]
            return min(ds) if ds else None
        if isinstance(e, ast.NamedExpr):
            return self.d(g, e.value)
        if isinstance(e, ast.BinOp) and isinstance(e.op, (ast.Add, ast.Mult)):
            # concatenation / repetition of containers of elements (`ring[k:] + ring[:k]`) is a container of elements
            ds = [x for x in (self.d(g, e.left), self.d(g, e.right)) if x is not None and x >= 1]
            return min(ds) if ds else None
        if isinstance(e, ast.Call):
            f = e.func
            if isinstance(f, ast.Name) and self._is_data_func(g, f.id):
                return 0
            if isinstance(f, ast.Name) and f.id == "next" and e.args:
                # an item pulled from an iterable that is turned into stream elements (from_iterable, zip_with_iterable, range)
                return 0
            if isinstance(f, ast.Attribute):
                b = self.d(g, f.value)
                if b is not None and b >= 1:
                    if f.attr in GET:
                        return b - 1
                    if f.attr in COPY:
                        return b
            if isinstance(f, ast.Name) and f.id in WRAP_ITER and e.args:
                ds = [x for x in (self.d(g, a) for a in e.args) if x is not None]
                return min(ds) if ds else None
            if isinstance(f, ast.Name) and f.id in ("dict", "OrderedDict") and e.keywords:
                ds = [x for x in (self.d(g, k.value) for k in e.keywords) if x is not None]
                return min(ds) + 1 if ds else None
            return None
        return None

    # -- propagation ----------------------------------------------------------
    def _assign(self, g: Fn, target: ast.AST, dv: Optional[int], value: Optional[ast.AST]) -> None:
        if isinstance(target, (ast.Tuple, ast.List)):
            if isinstance(value, (ast.Tuple, ast.List)) and len(value.elts) == len(target.elts):
                for t, v in zip(target.elts, value.elts):
                    self._assign(g, t, self.d(g, v), v)
            elif dv is not None and dv >= 1:
                for t in target.elts:
                    self._assign(g, t, dv - 1, None)
            return
        if isinstance(target, ast.Subscript):
            if dv is not None:
                self.set_depth(self.var(g, target.value), dv + 1)
            return
        if dv is not None:
            self.set_depth(self.var(g, target), dv)

    def _propagate(self, g: Fn) -> None:
        for n in g.direct_nodes():
            if isinstance(n, ast.Assign):
                dv = self.d(g, n.value)
                for t in n.targets:
                    self._assign(g, t, dv, n.value)
            elif isinstance(n, ast.AnnAssign) and n.value is not None:
                self._assign(g, n.target, self.d(g, n.value), n.value)
            elif isinstance(n, ast.NamedExpr):
                self._assign(g, n.target, self.d(g, n.value), n.value)
            elif isinstance(n, (ast.For, ast.AsyncFor)):
                di = self.d(g, n.iter)
                if di is not None and di >= 1:
                    tgt = n.target
                    if isinstance(tgt, (ast.Tuple, ast.List)) and isinstance(n.iter, ast.Call) \
                            and call_name(n.iter) in ("enumerate", "items"):
                        tgt = tgt.elts[-1]
                    self._assign(g, tgt, di - 1, None)
            elif isinstance(n, ast.comprehension):
                di = self.d(g, n.iter)
                if di is not None and di >= 1:
                    self._assign(g, n.target, di - 1, None)
            elif isinstance(n, ast.Call):
                f = n.func
                if isinstance(f, ast.Attribute) and f.attr in PUT and len(n.args) > PUT[f.attr]:
                    dv = self.d(g, n.args[PUT[f.attr]])
                    if dv is not None:
                        self.set_depth(self.var(g, f.value), dv + 1)
                elif isinstance(f, ast.Name):
                    h = g.resolve_local_def(f.id)
                    if h is not None and h.is_func and h in self.fns:
                        ps = h.positional_params
                        for i, a in enumerate(n.args):
                            if i < len(ps) and not isinstance(a, ast.Starred):
                                dv = self.d(g, a)
                                if dv is not None:
                                    self.set_depth(("v", id(h), ps[i]), dv)

    # -- sinks ------------------------------------------------------------------
    def _elem(self, g: Fn, e: ast.AST) -> bool:
        e = strip_cast(e)
        if isinstance(e, (ast.Name, ast.Attribute, ast.Subscript)) or (isinstance(e, ast.Call) and isinstance(e.func, ast.Attribute)
                                                                        and e.func.attr in GET) \
                or (isinstance(e, ast.Call) and isinstance(e.func, ast.Name) and self._is_data_func(g, e.func.id)):
            return self.d(g, e) == 0
        return False

    def _test(self, g: Fn, t: ast.AST, where: ast.AST, how: str, out: List[Sink]) -> None:
        t = strip_cast(t)
        if isinstance(t, ast.UnaryOp) and isinstance(t.op, ast.Not):
            self._test(g, t.operand, where, how, out)
            return
        if isinstance(t, ast.BoolOp):
            for v in t.values:
                self._test(g, v, where, how, out)
            return
        if isinstance(t, ast.Compare) and len(t.ops) == 1 and isinstance(t.ops[0], (ast.Is, ast.IsNot, ast.Eq, ast.NotEq)):
            l, r = t.left, t.comparators[0]
            for a, b in ((l, r), (r, l)):
                if isinstance(b, ast.Constant) and b.value is None and self._elem(g, a):
                    out.append(Sink(g, where, a, f"compared with None in {how}"))
            return
        if self._elem(g, t):
            out.append(Sink(g, where, t, f"truth-tested in {how}"))

    def sinks(self) -> Tuple[List[Sink], int]:
        out: List[Sink] = []
        n_tests = 0
        for g in self.fns:
            for n in g.direct_nodes():
                if isinstance(n, (ast.If, ast.While)):
                    n_tests += 1
                    self._test(g, n.test, n, "if/while", out)
                elif isinstance(n, ast.IfExp):
                    n_tests += 1
                    self._test(g, n.test, n, "conditional expression", out)
                elif isinstance(n, ast.Assert):
                    n_tests += 1
                    self._test(g, n.test, n, "assert", out)
                elif isinstance(n, ast.comprehension):
                    for c in n.ifs:
                        n_tests += 1
                        self._test(g, c, c, "comprehension filter", out)
                elif isinstance(n, ast.BoolOp):
                    par = g.module.parents.get(n)
                    if isinstance(par, (ast.If, ast.While, ast.IfExp, ast.Assert)) and getattr(par, "test", None) is n:
                        continue
                    n_tests += 1
                    # `x or default` / `x and y` used as a value: every operand but the last is truth-tested
                    for v in n.values[:-1]:
                        self._test(g, v, n, "and/or operand", out)
                elif isinstance(n, ast.UnaryOp) and isinstance(n.op, ast.Not):
                    par = g.module.parents.get(n)
                    if isinstance(par, (ast.If, ast.While, ast.IfExp, ast.Assert, ast.BoolOp, ast.UnaryOp)):
                        continue
                    n_tests += 1
                    self._test(g, n.operand, n, "not", out)
                elif isinstance(n, ast.Call) and isinstance(n.func, ast.Name) and n.func.id == "bool" and n.args:
                    n_tests += 1
                    self._test(g, n.args[0], n, "bool()", out)
                elif isinstance(n, ast.Call) and isinstance(n.func, ast.Name) and n.func.id in ("all", "any") and len(n.args) == 1:
                    # all(values) / any(values): every item of the container is truth-tested
                    n_tests += 1
                    a = n.args[0]
                    if isinstance(a, (ast.GeneratorExp, ast.ListComp)):
                        self._test(g, a.elt, n, f"{n.func.id}(...) over a comprehension", out)
                    elif self.d(g, a) == 1:
                        out.append(Sink(g, n, a, f"{n.func.id}(...) (each item truth-tested)"))
                elif isinstance(n, ast.Call) and isinstance(n.func, ast.Name) and n.func.id == "filter" and n.args \
                        and isinstance(n.args[0], ast.Constant) and n.args[0].value is None and len(n.args) > 1:
                    n_tests += 1
                    dv = self.d(g, n.args[1])
                    if dv == 1:
                        out.append(Sink(g, n, n.args[1], "filter(None, ...)"))
                elif isinstance(n, ast.Compare) and len(n.ops) == 1 and isinstance(n.ops[0], (ast.Is, ast.IsNot, ast.Eq, ast.NotEq)):
                    par = g.module.parents.get(n)
                    if isinstance(par, (ast.If, ast.While, ast.IfExp, ast.Assert, ast.BoolOp, ast.UnaryOp)):
                        continue
                    n_tests += 1
                    self._test(g, n, n, "comparison", out)
        return out, n_tests


# user callables whose results are opaque data (public parameter names of the operator factories) and opaque data
# parameters.  Predicates / comparers / conditions are deliberately absent: their results *are* truth values.
DATA_FUNCS = {"key_mapper", "mapper", "element_mapper", "accumulator", "result_mapper", "mapper_indexed", "func",
              "iterate"}
DATA_PARAMS = {"seed", "default_value", "initial_value", "initial_state"}


def derived_sinks(repo: Repo, model: Model, rels) -> Tuple[List[Sink], int, int]:
    """Truth tests / None comparisons on elements *or* on data derived by user callbacks (keys, accumulations,
    mapped values) and opaque data parameters, in the given modules.  Returns (sinks, truth-test contexts, roots)."""
    out: List[Sink] = []
    n_tests = n_roots = 0
    for rel in rels:
        mod = repo.opt_module(rel)
        if mod is None:
            continue
        for root in mod.root.children:
            if not (root.is_func or root.is_class):
                continue
            n_roots += 1
            t = Truthy(repo, model, root, DATA_FUNCS, DATA_PARAMS)
            sk, n = t.sinks()
            n_tests += n
            out.extend(sk)
    return out, n_tests, n_roots
