"""Typed cross-check for E4 (thorough tier): one in-process mypy build (type checker used as an oracle over the
source text; nothing from reactivex is imported or executed).  Flags truth tests / None comparisons whose operand
type is a bare element TypeVar or a union containing one."""
from __future__ import annotations

import os
from typing import List, Optional, Tuple


def run(repo_root: str) -> Tuple[Optional[List[Tuple[str, int, int, str, str]]], str]:
    """Returns (hits, note).  hits: (relpath, line, column, why, type-class).  None when mypy is unavailable."""
    try:
        from mypy import build
        from mypy.options import Options
        from mypy.find_sources import create_source_list
        import mypy.nodes as mn
        from mypy.types import TypeVarType, UnionType, AnyType, get_proper_type
    except Exception as e:  # noqa
        return None, f"mypy not importable ({type(e).__name__}): typed cross-check skipped"
    cwd = os.getcwd()
    os.chdir(repo_root)
    try:
        o = Options()
        o.preserve_asts = True
        o.export_types = True
        o.incremental = False
        o.cache_dir = os.devnull
        o.check_untyped_defs = True
        res = build.build(create_source_list(["reactivex"], o), o)
    except Exception as e:  # noqa
        os.chdir(cwd)
        return None, f"mypy build failed ({type(e).__name__}: {e}): typed cross-check skipped"
    os.chdir(cwd)
    types = res.types
    SKIP = ("node", "info", "type", "unanalyzed_type", "original_def", "impl", "var", "analyzed", "partial_fallback")

    def kids(n):
        for k in dir(n):
            if k.startswith("_") or k in SKIP:
                continue
            try:
                v = getattr(n, k)
            except Exception:
                continue
            if isinstance(v, mn.Node):
                yield v
            elif isinstance(v, (list, tuple)):
                for x in v:
                    if isinstance(x, mn.Node):
                        yield x
                    elif isinstance(x, (list, tuple)):
                        for y in x:
                            if isinstance(y, mn.Node):
                                yield y

    def classify(t):
        t = get_proper_type(t) if t is not None else None
        if t is None:
            return None
        if isinstance(t, TypeVarType):
            return "TV:" + t.name
        if isinstance(t, UnionType):
            parts = [classify(i) for i in t.items]
            if any(p and p.startswith("TV") for p in parts):
                return "Union[" + ",".join(str(p) for p in parts) + "]"
        return None

    hits = []

    def truth(e, why, mod):
        c = classify(types.get(e))
        if c:
            hits.append((mod, e.line, e.column, why, c))

    def cond(e, mod):
        if isinstance(e, (mn.ComparisonExpr, mn.CallExpr)):
            return
        if isinstance(e, mn.UnaryExpr) and e.op == "not":
            cond(e.expr, mod)
            return
        if isinstance(e, mn.OpExpr) and e.op in ("and", "or"):
            cond(e.left, mod)
            cond(e.right, mod)
            return
        truth(e, "truth-test", mod)

    def visit(n, mod, seen):
        if id(n) in seen:
            return
        seen.add(id(n))
        if isinstance(n, mn.IfStmt):
            for e in n.expr:
                cond(e, mod)
        elif isinstance(n, mn.WhileStmt):
            cond(n.expr, mod)
        elif isinstance(n, mn.AssertStmt):
            cond(n.expr, mod)
        elif isinstance(n, mn.ConditionalExpr):
            cond(n.cond, mod)
        elif isinstance(n, mn.OpExpr) and n.op in ("and", "or"):
            cond(n.left, mod)
        elif isinstance(n, mn.UnaryExpr) and n.op == "not":
            cond(n.expr, mod)
        elif isinstance(n, mn.ComparisonExpr):
            for op, (a, b) in zip(n.operators, zip(n.operands, n.operands[1:])):
                if op in ("is", "is not", "==", "!="):
                    for x, y in ((a, b), (b, a)):
                        if isinstance(y, mn.NameExpr) and y.name == "None":
                            truth(x, "compared-with-None", mod)
        for k in kids(n):
            visit(k, mod, seen)

    n_files = 0
    for name, f in res.files.items():
        if not name.startswith("reactivex"):
            continue
        n_files += 1
        seen = set()
        for d in f.defs:
            visit(d, f.path, seen)
    return sorted(set(hits)), f"mypy build over {n_files} modules, {len(types)} typed expressions"
