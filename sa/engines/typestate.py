"""E6 — downstream typestate signatures.

For a subscribe function: every `.subscribe(` it makes (on its source, on inner / trigger sequences) and every
scheduled action, with — per slot — the set of downstream-call sequences the slot's code can produce (paths
enumerated with local helpers inlined).  Events: N / E / C = on_next / on_error / on_completed on the downstream
observer; n / e / c = the same on any other observer-like receiver (inner subjects, windows, writers).
A trailing `!` marks a path that went through an exception edge.
"""
from __future__ import annotations

import ast
from typing import Dict, List, Optional, Tuple

from ..astutil import call_name, dotted, short, u
from ..ctx import paths, sites
from ..frontend import Fn
from ..model import (Model, Target, is_schedule_call, is_subscribe_call, resolve_callable, schedule_action_arg,
                     subscribe_slots)

EV = {"on_next": "N", "on_error": "E", "on_completed": "C"}


def event_fn(obs: str, root: Fn):
    def ev(n: ast.AST) -> Optional[str]:
        if isinstance(n, ast.Call) and isinstance(n.func, ast.Attribute) and n.func.attr in EV:
            recv = n.func.value
            if isinstance(recv, ast.Name) and recv.id == obs:
                return EV[n.func.attr]
            if isinstance(recv, ast.Name) and recv.id in ("self", "super"):
                return None
            return EV[n.func.attr].lower()
        return None
    return ev


def sig_of_target(t: Target, scope: Fn, obs: str, root: Fn) -> str:
    while t.kind == "sync" and t.inner is not None:
        t = t.inner
    if t.kind == "none":
        return "-"
    if t.kind == "bound":
        if t.obj == obs and t.attr in EV:
            return "pass:" + EV[t.attr]
        if t.attr in EV:
            return "pass:" + EV[t.attr].lower() + "@" + t.obj
        return f"bound:{_describe_local(scope, t.obj)}.{t.attr}"
    if t.kind == "fn":
        ps = paths(t.fn, event_fn(obs, root), inline_depth=3)
        seqs = set()
        for p in ps:
            s = "".join(p.kinds)
            seqs.add((s or "_") + ("!" if p.exc or p.end == "raise" else ""))
        return "{" + ",".join(sorted(seqs)) + "}"
    if t.kind == "unknown" and isinstance(t.expr, ast.Name) and t.expr.id == obs:
        return "observer"
    return "?"


def _describe_local(scope: Fn, name: str) -> str:
    """A local is named by its (single) initialiser, not by its identifier: `s = set()` -> `set()`."""
    cell = name.endswith("[0]")
    if cell:
        name = name[:-3]
    o = scope.owner(name) if "." not in name and "[" not in name else None
    if o is None or not o.is_func:
        return name
    inits = [n.value for n in o.direct_nodes() if isinstance(n, (ast.Assign, ast.AnnAssign)) and n.value is not None
             and any(isinstance(t, ast.Name) and t.id == name for t in (n.targets if isinstance(n, ast.Assign) else [n.target]))]
    if len(inits) == 1:
        v = inits[0]
        if cell and isinstance(v, ast.List) and len(v.elts) == 1:
            v = v.elts[0]
        return short(v, 30)
    return name


def source_names(root: Fn) -> List[str]:
    """Names that denote the operator's own source: first parameter of the enclosing application function(s)."""
    out = []
    p = root.parent
    while p is not None and p.is_func:
        ps = p.positional_params
        if ps:
            out.append(ps[0])
        p = p.parent
    return out


def signature(model: Model, root: Fn) -> Dict[str, Dict[str, str]]:
    """{"source#0": {"on_next": sig, "on_error": sig, "on_completed": sig}, "inner#0": {...}, "action#0": {"action": sig}}"""
    obs = root.params[0] if root.params else "observer"
    srcs = set(source_names(root))
    out: Dict[str, Dict[str, str]] = {}
    counters = {"source": 0, "inner": 0, "action": 0}
    for g in root.walk():
        if not g.is_func:
            continue
        if model.role.get(g) == "subscribe" and g is not root:
            continue
        for s in sites(g):
            n = s.node
            if is_subscribe_call(n):
                recv = n.func.value
                base = recv
                while isinstance(base, ast.Call) and isinstance(base.func, ast.Attribute):
                    base = base.func.value
                kind = "source" if isinstance(base, ast.Name) and base.id in srcs else "inner"
                key = f"{kind}#{counters[kind]}"
                counters[kind] += 1
                slots = subscribe_slots(n)
                first = n.args[0] if n.args else None
                if first is not None and not isinstance(first, ast.Starred) and isinstance(first, ast.Name) and first.id == obs \
                        and len(n.args) == 1:
                    out[key] = {"on_next": "observer", "on_error": "observer", "on_completed": "observer"}
                    continue
                out[key] = {k: sig_of_target(resolve_callable(g, v), g, obs, root) for k, v in slots.items()}
            elif is_schedule_call(n):
                a = schedule_action_arg(n)
                key = f"action#{counters['action']}"
                counters["action"] += 1
                out[key] = {"action": sig_of_target(resolve_callable(g, a), g, obs, root)}
    return out
