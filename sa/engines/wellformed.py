"""E12 — well-formedness of the code a property's rules read: definite crashes visible in the source.

Three zero-expected rules.  The first and the last can only fire on code that raises as soon as the construct is executed; the
second (definite assignment, further down) is path-insensitive in the way type checkers are ("possibly unbound") — it is armed
because this repository's own configuration (pyright, strict) rejects such code, and because it reports nothing on the pinned tree:

* undefined name — a name *loaded* inside a function or class body that the compiler resolves to a module global
  (it is bound in no enclosing function scope) while the module binds no such name and it is not a builtin: the load
  raises NameError.  This is what remains when the only assignment of a local / closure variable (`count = [0]`) is
  deleted or renamed: the readers in the nested handlers silently become global loads.  Decided from the compiler's
  own symbol tables (`symtable`), so scoping is exactly Python's.
* cell index — a closure cell written as a one-element list (`flag = [False]`, the idiom this code base uses instead
  of `nonlocal`) is subscripted with a constant other than 0 / -1: IndexError.

Modules with a star import are skipped (their global namespace is not visible in the source).
"""
from __future__ import annotations

import ast
import builtins
import symtable
from typing import Dict, List, Set, Tuple

MODULE_DUNDERS = {"__name__", "__file__", "__doc__", "__package__", "__spec__", "__loader__", "__builtins__", "__debug__",
                  "__annotations__", "__path__", "__cached__", "__class__", "__qualname__", "__module__", "__dict__"}


def _walk_tables(t):
    yield t
    for c in t.get_children():
        yield from _walk_tables(c)


def undefined_names(src: str, filename: str = "<src>") -> List[Tuple[int, str, str]]:
    """[(lineno, name, scope name)] for loads that can only raise NameError."""
    try:
        top = symtable.symtable(src, filename, "exec")
        tree = ast.parse(src)
    except SyntaxError:
        return []
    if any(isinstance(n, ast.ImportFrom) and any(a.name == "*" for a in n.names) for n in ast.walk(tree)):
        return []
    bound: Set[str] = set(MODULE_DUNDERS) | set(dir(builtins))
    for s in top.get_symbols():
        if s.is_assigned() or s.is_imported() or s.is_namespace() or s.is_parameter():
            bound.add(s.get_name())
    # names a function binds in the module namespace through `global x`
    for t in _walk_tables(top):
        if t is top:
            continue
        for s in t.get_symbols():
            if s.is_declared_global() and (s.is_assigned() or s.is_imported() or s.is_namespace()):
                bound.add(s.get_name())
    # names bound by `except ... as`, `with ... as`, `for`, walrus, `del` are all "assigned" for symtable
    out = []
    loads_by_line: Dict[str, List[int]] = {}
    for n in ast.walk(tree):
        if isinstance(n, ast.Name) and isinstance(n.ctx, ast.Load):
            loads_by_line.setdefault(n.id, []).append(n.lineno)
    for t in _walk_tables(top):
        if t is top:
            syms = [s for s in t.get_symbols() if s.is_referenced() and not (s.is_assigned() or s.is_imported() or s.is_namespace())]
        else:
            syms = [s for s in t.get_symbols() if s.is_referenced() and s.is_global()]
        for s in syms:
            name = s.get_name()
            if name in bound:
                continue
            lo = t.get_lineno() if t is not top else 0
            lines = [ln for ln in loads_by_line.get(name, []) if ln >= lo]
            if not lines:
                continue        # only in an annotation string / not a plain load
            out.append((min(lines), name, t.get_name()))
    return sorted(set(out))


def bad_cell_indices(src: str) -> List[Tuple[int, str, int]]:
    """[(lineno, cell name, index)] for constant subscripts other than 0 / -1 of one-element list cells."""
    try:
        tree = ast.parse(src)
    except SyntaxError:
        return []
    out = []
    for fn in tree.body:
        roots = [fn] if isinstance(fn, (ast.FunctionDef, ast.AsyncFunctionDef)) else \
            [m for m in getattr(fn, "body", []) if isinstance(m, (ast.FunctionDef, ast.AsyncFunctionDef))] if isinstance(fn, ast.ClassDef) else []
        for root in roots:
            inits: Dict[str, List[ast.AST]] = {}
            params: Set[str] = set()
            other_bind: Set[str] = set()
            for n in ast.walk(root):
                if isinstance(n, ast.arg):
                    params.add(n.arg)
                if isinstance(n, ast.Assign):
                    for t in n.targets:
                        if isinstance(t, ast.Name):
                            inits.setdefault(t.id, []).append(n.value)
                        for x in ast.walk(t):
                            if isinstance(x, ast.Name) and x is not t and isinstance(x.ctx, ast.Store):
                                other_bind.add(x.id)
                elif isinstance(n, ast.AnnAssign) and isinstance(n.target, ast.Name):
                    if n.value is not None:
                        inits.setdefault(n.target.id, []).append(n.value)
                elif isinstance(n, (ast.For, ast.comprehension)):
                    for x in ast.walk(n.target):
                        if isinstance(x, ast.Name):
                            other_bind.add(x.id)
                elif isinstance(n, (ast.AugAssign, ast.NamedExpr)) and isinstance(n.target, ast.Name):
                    other_bind.add(n.target.id)
                elif isinstance(n, ast.withitem) and n.optional_vars is not None:
                    for x in ast.walk(n.optional_vars):
                        if isinstance(x, ast.Name):
                            other_bind.add(x.id)
            cells = {k for k, vs in inits.items() if k not in params and k not in other_bind
                     and all(isinstance(v, ast.List) and len(v.elts) == 1 and not isinstance(v.elts[0], ast.Starred) for v in vs)}
            # a cell that is ever appended to / extended / passed around is a real list: only pure cells are checked
            for n in ast.walk(root):
                if isinstance(n, ast.Attribute) and isinstance(n.value, ast.Name) and n.value.id in cells:
                    cells.discard(n.value.id)
            for n in ast.walk(root):
                if isinstance(n, ast.Subscript) and isinstance(n.value, ast.Name) and n.value.id in cells:
                    ix = n.slice
                    if isinstance(ix, ast.UnaryOp) and isinstance(ix.op, ast.USub) and isinstance(ix.operand, ast.Constant):
                        val = -ix.operand.value if isinstance(ix.operand.value, int) else None
                    elif isinstance(ix, ast.Constant) and type(ix.value) is int:
                        val = ix.value
                    else:
                        continue
                    if val not in (0, -1):
                        out.append((n.lineno, n.value.id, val))
    return sorted(set(out))


POSITIVE_EXAMPLE = '''
def op():
    def subscribe(observer):
        def on_next(x):
            count[0] += 1
            seen[1] = x
        seen = [None]
        return on_next
    return subscribe

def pick(flag, a):
    if flag:
        chosen = a
    else:
        pass
    return chosen
'''


def selfcheck() -> bool:
    """The embedded positive example must produce exactly one report of each kind (zero-expected rules keep a witness)."""
    return [n for _, n, _ in undefined_names(POSITIVE_EXAMPLE)] == ["count"] and [(c, i) for _, c, i in bad_cell_indices(POSITIVE_EXAMPLE)] == [("seen", 1)] \
        and [(n, f) for _, n, f in possibly_unbound(POSITIVE_EXAMPLE)] == [("chosen", "pick")]


# ---------------------------------------------------------------------------------------------------------------
# definite assignment: a local that is read on a path on which no assignment to it has run raises UnboundLocalError
# (what remains when ONE of several assignments of a local is deleted: `else: dt = duetime` -> `else: pass`).
# Structured must-assign dataflow, the algorithm type checkers use for "possibly unbound": branches intersect, loops may
# run zero times, a handler starts from what was assigned before the `try`, a branch that always leaves contributes nothing.
_TOP = None     # "unreachable": every name counts as assigned


def _meet(a, b):
    if a is _TOP:
        return b
    if b is _TOP:
        return a
    return a & b


class _DA:
    def __init__(self, fn: ast.AST):
        self.fn = fn
        self.locals: Set[str] = set()
        self.reports: List[Tuple[int, str]] = []
        declared = set()
        for n in self._own_nodes(fn):
            if isinstance(n, (ast.Global, ast.Nonlocal)):
                declared |= set(n.names)
        params = {a.arg for a in fn.args.args + fn.args.posonlyargs + fn.args.kwonlyargs}
        if fn.args.vararg:
            params.add(fn.args.vararg.arg)
        if fn.args.kwarg:
            params.add(fn.args.kwarg.arg)
        self.params = params
        for n in self._own_nodes(fn):
            if isinstance(n, ast.Name) and isinstance(n.ctx, (ast.Store, ast.Del)):
                self.locals.add(n.id)
            elif isinstance(n, (ast.FunctionDef, ast.AsyncFunctionDef, ast.ClassDef)) and n is not fn:
                self.locals.add(n.name)
            elif isinstance(n, ast.alias):
                self.locals.add((n.asname or n.name).split(".")[0])
            elif isinstance(n, ast.ExceptHandler) and n.name:
                self.locals.add(n.name)
        self.locals -= declared
        self.locals -= params
        # flag locals: `found = False ... if c: item = x; found = True ... if found: use(item)` -- a flag whose only non-false
        # assignment sits in a block implies everything that block assigns
        consts: Dict[str, List] = {}
        nonconst: Set[str] = set()
        blocks = []
        for n in self._own_nodes(fn):
            for fld in ("body", "orelse", "finalbody"):
                b = getattr(n, fld, None)
                if isinstance(b, list) and b and isinstance(b[0], ast.stmt):
                    blocks.append(b)
            if isinstance(n, ast.ExceptHandler):
                blocks.append(n.body)
        blocks.append(fn.body)
        for b in blocks:
            for st in b:
                tg = st.targets if isinstance(st, ast.Assign) else [st.target] if isinstance(st, (ast.AnnAssign, ast.AugAssign)) and getattr(st, "value", None) is not None else []
                for t in tg:
                    if isinstance(t, ast.Name):
                        v = st.value
                        if isinstance(st, ast.Assign) and isinstance(v, ast.Constant) and (v.value is True or v.value is False or v.value is None):
                            consts.setdefault(t.id, []).append((v.value, b))
                        elif isinstance(st, ast.AnnAssign) and isinstance(v, ast.Constant) and (v.value is True or v.value is False or v.value is None):
                            consts.setdefault(t.id, []).append((v.value, b))
                        else:
                            nonconst.add(t.id)
        self.flag_implies: Dict[str, Set[str]] = {}
        for f, vs in consts.items():
            if f in nonconst or f in declared or sum(1 for v, _ in vs if v is True) != 1:
                continue
            blk = next(b for v, b in vs if v is True)
            names = set()
            for st in blk:
                if isinstance(st, (ast.Assign, ast.AnnAssign, ast.AugAssign)) and getattr(st, "value", None) is not None:
                    for t in (st.targets if isinstance(st, ast.Assign) else [st.target]):
                        for x in ast.walk(t):
                            if isinstance(x, ast.Name) and isinstance(x.ctx, ast.Store):
                                names.add(x.id)
            self.flag_implies[f] = names

    @staticmethod
    def _own_nodes(fn):
        """Nodes of fn's own scope (nested function / class / lambda / comprehension bodies excluded, their headers included)."""
        stack = list(fn.body)
        while stack:
            n = stack.pop()
            yield n
            if isinstance(n, (ast.FunctionDef, ast.AsyncFunctionDef)):
                stack.extend(n.decorator_list + n.args.defaults + [d for d in n.args.kw_defaults if d is not None])
                continue
            if isinstance(n, ast.ClassDef):
                stack.extend(n.decorator_list + n.bases)
                continue
            if isinstance(n, (ast.Lambda, ast.GeneratorExp, ast.ListComp, ast.SetComp, ast.DictComp)):
                continue
            stack.extend(ast.iter_child_nodes(n))

    # expressions: evaluation order is left to right; short-circuit operands after the first and conditional-expression arms are
    # evaluated conditionally (their walrus assignments are ignored, their loads are checked against the current set)
    def expr(self, e, s):
        if e is None or s is _TOP:
            return s
        for n in self._expr_nodes(e):
            if isinstance(n, ast.Name) and isinstance(n.ctx, ast.Load) and n.id in self.locals and n.id not in s:
                self.reports.append((n.lineno, n.id))
        for n in self._expr_nodes(e):
            if isinstance(n, ast.NamedExpr) and isinstance(n.target, ast.Name):
                s = s | {n.target.id}
        return s

    def _expr_nodes(self, e):
        stack = [e]
        while stack:
            n = stack.pop()
            yield n
            if isinstance(n, (ast.Lambda, ast.GeneratorExp, ast.ListComp, ast.SetComp, ast.DictComp)):
                # only the first iterable of a comprehension is evaluated here and now in this scope
                if not isinstance(n, ast.Lambda) and n.generators:
                    stack.append(n.generators[0].iter)
                continue
            stack.extend(ast.iter_child_nodes(n))

    def targets(self, t, s):
        for n in ast.walk(t):
            if isinstance(n, ast.Name) and isinstance(n.ctx, ast.Store):
                s = s | {n.id}
        # subscripts / attributes in targets read their base
        for n in ast.walk(t):
            if isinstance(n, (ast.Subscript, ast.Attribute)) and isinstance(n.ctx, ast.Store):
                self.expr(n.value, s)
                if isinstance(n, ast.Subscript):
                    self.expr(n.slice, s)
        return s

    def block(self, body, s):
        for st in body:
            s = self.stmt(st, s)
        return s

    def stmt(self, st, s):
        if s is _TOP:
            return s
        if isinstance(st, ast.Assign):
            s = self.expr(st.value, s)
            for t in st.targets:
                s = self.targets(t, s)
            return s
        if isinstance(st, ast.AnnAssign):
            if st.value is not None:
                s = self.expr(st.value, s)
                s = self.targets(st.target, s)
            return s
        if isinstance(st, ast.AugAssign):
            s = self.expr(st.value, s)
            if isinstance(st.target, ast.Name):
                if st.target.id in self.locals and st.target.id not in s:
                    self.reports.append((st.lineno, st.target.id))
                return s | {st.target.id}
            return self.targets(st.target, s)
        if isinstance(st, ast.Expr):
            return self.expr(st.value, s)
        if isinstance(st, ast.Return):
            self.expr(st.value, s)
            return _TOP
        if isinstance(st, ast.Raise):
            self.expr(st.exc, s)
            self.expr(st.cause, s)
            return _TOP
        if isinstance(st, (ast.Break, ast.Continue)):
            return _TOP
        if isinstance(st, (ast.FunctionDef, ast.AsyncFunctionDef)):
            for d in st.decorator_list + st.args.defaults + [k for k in st.args.kw_defaults if k is not None]:
                s = self.expr(d, s)
            return s | {st.name}
        if isinstance(st, ast.ClassDef):
            for d in st.decorator_list + st.bases:
                s = self.expr(d, s)
            return s | {st.name}
        if isinstance(st, (ast.Import, ast.ImportFrom)):
            return s | {(a.asname or a.name).split(".")[0] for a in st.names}
        if isinstance(st, ast.If):
            s = self.expr(st.test, s)
            pos, neg = s, s
            t = st.test
            for a in (t.values if isinstance(t, ast.BoolOp) and isinstance(t.op, ast.And) else [t]):
                if isinstance(a, ast.Name) and a.id in self.flag_implies:
                    pos = pos | self.flag_implies[a.id]
            if isinstance(t, ast.UnaryOp) and isinstance(t.op, ast.Not) and isinstance(t.operand, ast.Name) and t.operand.id in self.flag_implies:
                neg = neg | self.flag_implies[t.operand.id]
            return _meet(self.block(st.body, pos), self.block(st.orelse, neg))
        if isinstance(st, (ast.For, ast.AsyncFor)):
            s = self.expr(st.iter, s)
            self.block(st.body, self.targets(st.target, s))
            return self.block(st.orelse, s)
        if isinstance(st, ast.While):
            s = self.expr(st.test, s)
            out_body = self.block(st.body, s)
            infinite = isinstance(st.test, ast.Constant) and bool(st.test.value)
            if infinite:
                # `while True:` is left only through break: what holds after it is what holds at the breaks; approximated by the
                # state at loop entry unless the body never breaks (then nothing follows)
                has_break = any(isinstance(n, ast.Break) for n in self._loop_nodes(st))
                return s if has_break else _TOP
            return self.block(st.orelse, s)
        if isinstance(st, (ast.With, ast.AsyncWith)):
            for it in st.items:
                s = self.expr(it.context_expr, s)
                if it.optional_vars is not None:
                    s = self.targets(it.optional_vars, s)
            return self.block(st.body, s)
        if isinstance(st, ast.Try) or type(st).__name__ == "TryStar":
            body_out = self.block(st.body, s)
            else_out = self.block(st.orelse, body_out)
            outs = [else_out]
            for h in st.handlers:
                hs = s | ({h.name} if h.name else set())
                self.expr(h.type, s)
                outs.append(self.block(h.body, hs))
            out = _TOP
            for o in outs:
                out = _meet(out, o)
            if st.finalbody:
                fin = self.block(st.finalbody, s)
                if out is _TOP:
                    return _TOP if fin is _TOP else _TOP
                return out | (fin - s if fin is not _TOP else set())
            return out
        if isinstance(st, ast.Delete):
            for t in st.targets:
                if isinstance(t, ast.Name):
                    s = s - {t.id}
                else:
                    self.expr(t, s)
            return s
        if isinstance(st, ast.Assert):
            self.expr(st.test, s)
            return s
        if isinstance(st, (ast.Pass, ast.Global, ast.Nonlocal)):
            return s
        if type(st).__name__ == "Match":
            s = self.expr(st.subject, s)
            out = _TOP
            for c in st.cases:
                cs = s | {n.name for n in ast.walk(c.pattern) if getattr(n, "name", None)} | {n.id for n in ast.walk(c.pattern) if isinstance(n, ast.Name)}
                out = _meet(out, self.block(c.body, cs))
            return _meet(out, s)
        for ch in ast.iter_child_nodes(st):
            if isinstance(ch, ast.expr):
                s = self.expr(ch, s)
        return s

    @staticmethod
    def _loop_nodes(loop):
        stack = list(loop.body)
        while stack:
            n = stack.pop()
            yield n
            if isinstance(n, (ast.For, ast.AsyncFor, ast.While, ast.FunctionDef, ast.AsyncFunctionDef, ast.Lambda, ast.ClassDef)):
                continue
            stack.extend(ast.iter_child_nodes(n))

    def run(self):
        self.block(self.fn.body, frozenset())
        return sorted(set(self.reports))


def possibly_unbound(src: str) -> List[Tuple[int, str, str]]:
    """[(lineno, name, function)] for reads of a function-local on a path where it has not been assigned."""
    try:
        tree = ast.parse(src)
    except SyntaxError:
        return []
    out = []
    for fn in ast.walk(tree):
        if isinstance(fn, (ast.FunctionDef, ast.AsyncFunctionDef)):
            for ln, name in _DA(fn).run():
                out.append((ln, name, fn.name))
    return sorted(set(out))


# ---------------------------------------------------------------------------------------------------------------
def undefined_attributes(classes: Dict[str, ast.ClassDef], resolve_base) -> List[Tuple[int, str, str]]:
    """[(lineno, class, attribute)] for `self.X` reads where neither the class, nor any base class (all of which must be resolvable
    to a class of the analysed package — otherwise the class is skipped), assigns `self.X`, defines a method / property / class
    attribute X, or declares X in a class-level annotation.  What remains when `self.x = x` is deleted from `__init__`."""
    def info(c: ast.ClassDef):
        defined, loads = set(), []
        for st in c.body:
            if isinstance(st, (ast.FunctionDef, ast.AsyncFunctionDef, ast.ClassDef)):
                defined.add(st.name)
            elif isinstance(st, ast.Assign):
                for t in st.targets:
                    for x in ast.walk(t):
                        if isinstance(x, ast.Name):
                            defined.add(x.id)
                            if x.id == "__slots__":     # slot names are attributes of the instances
                                defined |= {e.value for e in ast.walk(st.value) if isinstance(e, ast.Constant) and isinstance(e.value, str)}
            elif isinstance(st, ast.AnnAssign) and isinstance(st.target, ast.Name):
                defined.add(st.target.id)
        for m in c.body:
            if not isinstance(m, (ast.FunctionDef, ast.AsyncFunctionDef)) or not m.args.args:
                continue
            me = m.args.args[0].arg
            if any(isinstance(d, ast.Name) and d.id in ("staticmethod", "classmethod") for d in m.decorator_list):
                continue
            for n in ast.walk(m):
                if isinstance(n, ast.Attribute) and isinstance(n.value, ast.Name) and n.value.id == me:
                    if isinstance(n.ctx, (ast.Store, ast.Del)):
                        defined.add(n.attr)
                    else:
                        loads.append((n.lineno, n.attr))
                if isinstance(n, ast.Call) and isinstance(n.func, ast.Name) and n.func.id in ("setattr", "getattr", "hasattr") and n.args \
                        and isinstance(n.args[0], ast.Name) and n.args[0].id == me:
                    defined.add("*")
        return defined, loads
    out = []
    for qual, c in classes.items():
        seen, todo, defined, ok = set(), [c], set(), True
        own_loads = None
        while todo and ok:
            k = todo.pop()
            if id(k) in seen:
                continue
            seen.add(id(k))
            d, l = info(k)
            defined |= d
            if own_loads is None:
                own_loads = l
            for b in k.bases:
                bn = ast.unparse(b).split("[")[0]
                if bn in ("object", "Generic", "Protocol", "ABC", "abc.ABC"):
                    continue
                r = resolve_base(k, b)
                if r is None:
                    ok = False
                    break
                todo.append(r)
            if any(kw.arg == "metaclass" for kw in k.keywords):
                pass
        if not ok or "*" in defined or any(n in defined for n in ("__getattr__", "__getattribute__")):
            continue
        for ln, a in own_loads or []:
            if a not in defined and not (a.startswith("__") and a.endswith("__")):
                out.append((ln, qual, a))
    return sorted(set(out))


# ---------------------------------------------------------------------------------------------------------------
TYPE_TESTS = ("isinstance", "is_future", "callable", "iscoroutine", "issubclass")


def misdirected_type_tests(src: str) -> List[Tuple[int, str, str]]:
    """[(lineno, tested name, text)] for `if [not] isinstance(X, T): Y = conv(Y) [else: Y = Y']` where the variable the type test
    inspects is used in neither branch although the branches convert / select some other variable: the test decides the
    representation of a value it does not look at (`if is_future(source): obs = from_future(other)`)."""
    try:
        tree = ast.parse(src)
    except SyntaxError:
        return []
    out = []
    for x in ast.walk(tree):
        if not isinstance(x, (ast.If, ast.IfExp)):
            continue
        tst = x.test
        if isinstance(tst, ast.UnaryOp) and isinstance(tst.op, ast.Not):
            tst = tst.operand
        if not (isinstance(tst, ast.Call) and isinstance(tst.func, ast.Name) and tst.func.id in TYPE_TESTS and tst.args and isinstance(tst.args[0], ast.Name)):
            continue
        X = tst.args[0].id
        branches = (x.body if isinstance(x.body, list) else [x.body]) + (x.orelse if isinstance(x.orelse, list) else [x.orelse])
        if any(isinstance(y, ast.Name) and y.id == X for b in branches for y in ast.walk(b)):
            continue
        converts = False
        for b in branches:
            vals = [b.value] if isinstance(b, (ast.Assign, ast.AnnAssign)) and getattr(b, "value", None) is not None else [b] if isinstance(b, ast.expr) else []
            for v in vals:
                callees = {id(c.func) for c in ast.walk(v) if isinstance(c, ast.Call)}
                if any(isinstance(y, ast.Name) and isinstance(y.ctx, ast.Load) and id(y) not in callees for y in ast.walk(v)):
                    converts = True
        if converts:
            out.append((x.lineno, X, ast.unparse(x.test)[:60]))
    return sorted(set(out))
