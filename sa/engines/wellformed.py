"""E12 — well-formedness of the code a property's rules read: definite crashes visible in the source.

Two exact, zero-expected rules (they can only fire on code that raises as soon as the construct is executed):

* undefined name — a name *loaded* inside a function or class body that the compiler resolves to a module global
  (it is bound in no enclosing function scope) while the module binds no such name and it is not a builtin: the load
  raises NameError.  This is what remains when the only assignment of a local / closure variable (`count = [0]`) is
  deleted or renamed: the readers in the nested handlers silently become global loads.  Decided from the compiler's
  own symbol tables (`symtable`), so scoping is exactly Python's.
* cell index — a closure cell written as a one-element list (`flag = [False]`, the idiom this code base uses instead
  of `nonlocal`) is subscripted with a constant other than 0 / -1: IndexError.

Modules with a star import are skipped (their global namespace is not visible in the source).
"""
from __future__ import annotations

import ast
import builtins
import symtable
from typing import Dict, List, Set, Tuple

MODULE_DUNDERS = {"__name__", "__file__", "__doc__", "__package__", "__spec__", "__loader__", "__builtins__", "__debug__",
                  "__annotations__", "__path__", "__cached__", "__class__", "__qualname__", "__module__", "__dict__"}


def _walk_tables(t):
    yield t
    for c in t.get_children():
        yield from _walk_tables(c)


def undefined_names(src: str, filename: str = "<src>") -> List[Tuple[int, str, str]]:
    """[(lineno, name, scope name)] for loads that can only raise NameError."""
    try:
        top = symtable.symtable(src, filename, "exec")
        tree = ast.parse(src)
    except SyntaxError:
        return []
    if any(isinstance(n, ast.ImportFrom) and any(a.name == "*" for a in n.names) for n in ast.walk(tree)):
        return []
    bound: Set[str] = set(MODULE_DUNDERS) | set(dir(builtins))
    for s in top.get_symbols():
        if s.is_assigned() or s.is_imported() or s.is_namespace() or s.is_parameter():
            bound.add(s.get_name())
    # names a function binds in the module namespace through `global x`
    for t in _walk_tables(top):
        if t is top:
            continue
        for s in t.get_symbols():
            if s.is_declared_global() and (s.is_assigned() or s.is_imported() or s.is_namespace()):
                bound.add(s.get_name())
    # names bound by `except ... as`, `with ... as`, `for`, walrus, `del` are all "assigned" for symtable
    out = []
    loads_by_line: Dict[str, List[int]] = {}
    for n in ast.walk(tree):
        if isinstance(n, ast.Name) and isinstance(n.ctx, ast.Load):
            loads_by_line.setdefault(n.id, []).append(n.lineno)
    for t in _walk_tables(top):
        if t is top:
            syms = [s for s in t.get_symbols() if s.is_referenced() and not (s.is_assigned() or s.is_imported() or s.is_namespace())]
        else:
            syms = [s for s in t.get_symbols() if s.is_referenced() and s.is_global()]
        for s in syms:
            name = s.get_name()
            if name in bound:
                continue
            lo = t.get_lineno() if t is not top else 0
            lines = [ln for ln in loads_by_line.get(name, []) if ln >= lo]
            if not lines:
                continue        # only in an annotation string / not a plain load
            out.append((min(lines), name, t.get_name()))
    return sorted(set(out))


def bad_cell_indices(src: str) -> List[Tuple[int, str, int]]:
    """[(lineno, cell name, index)] for constant subscripts other than 0 / -1 of one-element list cells."""
    try:
        tree = ast.parse(src)
    except SyntaxError:
        return []
    out = []
    for fn in tree.body:
        roots = [fn] if isinstance(fn, (ast.FunctionDef, ast.AsyncFunctionDef)) else \
            [m for m in getattr(fn, "body", []) if isinstance(m, (ast.FunctionDef, ast.AsyncFunctionDef))] if isinstance(fn, ast.ClassDef) else []
        for root in roots:
            inits: Dict[str, List[ast.AST]] = {}
            params: Set[str] = set()
            other_bind: Set[str] = set()
            for n in ast.walk(root):
                if isinstance(n, ast.arg):
                    params.add(n.arg)
                if isinstance(n, ast.Assign):
                    for t in n.targets:
                        if isinstance(t, ast.Name):
                            inits.setdefault(t.id, []).append(n.value)
                        for x in ast.walk(t):
                            if isinstance(x, ast.Name) and x is not t and isinstance(x.ctx, ast.Store):
                                other_bind.add(x.id)
                elif isinstance(n, ast.AnnAssign) and isinstance(n.target, ast.Name):
                    if n.value is not None:
                        inits.setdefault(n.target.id, []).append(n.value)
                elif isinstance(n, (ast.For, ast.comprehension)):
                    for x in ast.walk(n.target):
                        if isinstance(x, ast.Name):
                            other_bind.add(x.id)
                elif isinstance(n, (ast.AugAssign, ast.NamedExpr)) and isinstance(n.target, ast.Name):
                    other_bind.add(n.target.id)
                elif isinstance(n, ast.withitem) and n.optional_vars is not None:
                    for x in ast.walk(n.optional_vars):
                        if isinstance(x, ast.Name):
                            other_bind.add(x.id)
            cells = {k for k, vs in inits.items() if k not in params and k not in other_bind
                     and all(isinstance(v, ast.List) and len(v.elts) == 1 and not isinstance(v.elts[0], ast.Starred) for v in vs)}
            # a cell that is ever appended to / extended / passed around is a real list: only pure cells are checked
            for n in ast.walk(root):
                if isinstance(n, ast.Attribute) and isinstance(n.value, ast.Name) and n.value.id in cells:
                    cells.discard(n.value.id)
            for n in ast.walk(root):
                if isinstance(n, ast.Subscript) and isinstance(n.value, ast.Name) and n.value.id in cells:
                    ix = n.slice
                    if isinstance(ix, ast.UnaryOp) and isinstance(ix.op, ast.USub) and isinstance(ix.operand, ast.Constant):
                        val = -ix.operand.value if isinstance(ix.operand.value, int) else None
                    elif isinstance(ix, ast.Constant) and type(ix.value) is int:
                        val = ix.value
                    else:
                        continue
                    if val not in (0, -1):
                        out.append((n.lineno, n.value.id, val))
    return sorted(set(out))


POSITIVE_EXAMPLE = '''
def op():
    def subscribe(observer):
        def on_next(x):
            count[0] += 1
            seen[1] = x
        seen = [None]
        return on_next
    return subscribe
'''


def selfcheck() -> bool:
    """The embedded positive example must produce exactly one report of each kind (zero-expected rules keep a witness)."""
    return [n for _, n, _ in undefined_names(POSITIVE_EXAMPLE)] == ["count"] and [(c, i) for _, c, i in bad_cell_indices(POSITIVE_EXAMPLE)] == [("seen", 1)]
