"""Front end of the RxPY static analyser.

Parses /repo/reactivex (never imports or runs it), builds per-module parent
maps, a function/lambda/class tree with qualified names, scope resolution of
local names and an import table that resolves names to package symbols.
"""
from __future__ import annotations

import ast
import os
from typing import Dict, Iterator, List, Optional, Tuple

REPO_ROOT = os.environ.get("RXSA_REPO", "/repo")
PKG = "reactivex"


class AnalysisError(Exception):
    """The analyser cannot do its job (vanished anchor, parse failure...)."""


FUNC_NODES = (ast.FunctionDef, ast.AsyncFunctionDef, ast.Lambda)
SCOPE_NODES = FUNC_NODES + (ast.ClassDef,)


class Fn:
    """A function, lambda, class or module scope."""

    def __init__(self, node: ast.AST, parent: Optional["Fn"], name: str, module: "Module"):
        self.node = node
        self.parent = parent
        self.name = name
        self.module = module
        self.children: List[Fn] = []
        self.binds: Dict[str, list] = {}  # name -> [(kind, node)]
        self.nonlocals: set = set()
        self.globals_: set = set()
        if parent is not None:
            parent.children.append(self)

    # -- classification -------------------------------------------------
    @property
    def is_module(self) -> bool:
        return isinstance(self.node, ast.Module)

    @property
    def is_class(self) -> bool:
        return isinstance(self.node, ast.ClassDef)

    @property
    def is_lambda(self) -> bool:
        return isinstance(self.node, ast.Lambda)

    @property
    def is_func(self) -> bool:
        return isinstance(self.node, FUNC_NODES)

    @property
    def qual(self) -> str:
        if self.parent is None:
            return "<module>"
        if self.parent.parent is None:
            return self.name
        return self.parent.qual + "." + self.name

    @property
    def ref(self) -> str:
        return f"{self.module.rel}::{self.qual}"

    @property
    def params(self) -> List[str]:
        if not self.is_func:
            return []
        a = self.node.args
        out = [p.arg for p in a.posonlyargs + a.args]
        if a.vararg:
            out.append(a.vararg.arg)
        out += [p.arg for p in a.kwonlyargs]
        if a.kwarg:
            out.append(a.kwarg.arg)
        return out

    @property
    def positional_params(self) -> List[str]:
        if not self.is_func:
            return []
        a = self.node.args
        return [p.arg for p in a.posonlyargs + a.args]

    @property
    def body(self) -> List[ast.stmt]:
        if self.is_lambda:
            return [ast.Expr(self.node.body)]
        return list(self.node.body)

    @property
    def decorators(self) -> List[ast.expr]:
        return list(getattr(self.node, "decorator_list", []))

    def has_decorator(self, name: str) -> bool:
        for d in self.decorators:
            if isinstance(d, ast.Name) and d.id == name:
                return True
            if isinstance(d, ast.Attribute) and d.attr == name:
                return True
        return False

    def walk(self) -> Iterator["Fn"]:
        yield self
        for c in self.children:
            yield from c.walk()

    def descendants(self) -> Iterator["Fn"]:
        for c in self.children:
            yield from c.walk()

    def child(self, name: str) -> Optional["Fn"]:
        for c in self.children:
            if c.name == name:
                return c
        return None

    def find(self, dotted: str) -> Optional["Fn"]:
        cur: Optional[Fn] = self
        for part in dotted.split("."):
            if cur is None:
                return None
            cur = cur.child(part)
        return cur

    def enclosing_func(self) -> Optional["Fn"]:
        p = self.parent
        while p is not None and not p.is_func:
            p = p.parent
        return p

    def enclosing_class(self) -> Optional["Fn"]:
        p = self.parent
        return p if p is not None and p.is_class else None

    def is_ancestor_of(self, other: "Fn") -> bool:
        p = other.parent
        while p is not None:
            if p is self:
                return True
            p = p.parent
        return False

    # -- nodes directly in this scope (not in nested scopes) ----------
    def direct_nodes(self) -> List[ast.AST]:
        out: List[ast.AST] = []

        def walk(n: ast.AST) -> None:
            for ch in ast.iter_child_nodes(n):
                if isinstance(ch, SCOPE_NODES):
                    out.append(ch)
                    # decorators / defaults are evaluated in this scope
                    if not isinstance(ch, ast.Lambda):
                        for d in ch.decorator_list:
                            out.append(d)
                            walk(d)
                    if isinstance(ch, FUNC_NODES):
                        for d in ch.args.defaults + [k for k in ch.args.kw_defaults if k is not None]:
                            out.append(d)
                            walk(d)
                    continue
                out.append(ch)
                walk(ch)

        if self.is_lambda:
            walk(ast.Expr(self.node.body))
        else:
            walk(ast.Module(body=list(self.node.body), type_ignores=[]))
        return out

    def calls(self) -> List[ast.Call]:
        return [n for n in self.direct_nodes() if isinstance(n, ast.Call)]

    def all_nodes(self) -> Iterator[ast.AST]:
        """Every node lexically inside, including nested scopes."""
        if self.is_lambda:
            yield from ast.walk(self.node.body)
        else:
            for st in self.node.body:
                yield from ast.walk(st)

    # -- name resolution --------------------------------------------------
    def owner(self, name: str) -> Optional["Fn"]:
        """Scope whose binding a load/store of `name` in this scope refers to."""
        f: Optional[Fn] = self
        first = True
        while f is not None:
            if f.is_class and not first:
                f = f.parent
                continue
            if name in f.binds and name not in f.nonlocals and name not in f.globals_:
                return f
            if name in f.globals_:
                return f.module.root if name in f.module.root.binds else None
            first = False
            f = f.parent
        return None

    def resolve_local_def(self, name: str) -> Optional["Fn"]:
        """If `name` (used in this scope) is bound by a def/class/lambda
        assignment in an enclosing scope, return that Fn (only when unique)."""
        o = self.owner(name)
        if o is None:
            return None
        cands = []
        for kind, node in o.binds.get(name, []):
            if kind in ("def", "class"):
                for c in o.children:
                    if c.node is node:
                        cands.append(c)
            elif kind == "assign" and isinstance(getattr(node, "value", None), ast.Lambda):
                for c in o.children:
                    if c.node is node.value:
                        cands.append(c)
            else:
                cands.append(None)
        if len(cands) == 1 and cands[0] is not None:
            return cands[0]
        return None

    def __repr__(self) -> str:  # pragma: no cover
        return f"<Fn {self.ref}>"


class _PlainAssign(ast.NodeTransformer):
    """`x: T = v` is read as `x = v` (same binding, same effect; `x: T` alone declares nothing at run time and is kept).
    Adding or removing a variable annotation is a behaviour-preserving edit: no rule may decide differently because of it."""
    def generic_visit(self, n: ast.AST):
        """statements without effect on any property (stray constants, docstrings, calls on a logger / print whose arguments
        call nothing) are not part of the program the rules read: adding a log line changes no verdict"""
        super().generic_visit(n)
        from .astutil import is_noise
        for fld in ("body", "orelse", "finalbody"):
            b = getattr(n, fld, None)
            if isinstance(b, list) and b and isinstance(b[0], ast.stmt):
                kept = [st for st in b if isinstance(st, ast.Pass) or not is_noise(st)]
                if kept and len(kept) != len(b):
                    setattr(n, fld, kept)
        return n

    def visit_AnnAssign(self, n: ast.AnnAssign):
        self.generic_visit(n)
        if n.value is None:
            return n
        return self.visit_Assign(ast.copy_location(ast.Assign(targets=[n.target], value=n.value, type_comment=None), n))

    def visit_Assign(self, n: ast.Assign):
        """`x = x + e` is read as `x += e` (one spelling for "update in terms of itself")."""
        self.generic_visit(n)
        if len(n.targets) == 1 and isinstance(n.targets[0], (ast.Name, ast.Attribute)) and isinstance(n.value, ast.BinOp) \
                and ast.dump(n.value.left).replace("Load()", "Store()") == ast.dump(n.targets[0]).replace("Load()", "Store()"):
            return ast.copy_location(ast.AugAssign(target=n.targets[0], op=n.value.op, value=n.value.right), n)
        return n


    # calls whose parameter order the library's abstract base classes fix: keyword arguments that name the next positional
    # parameter are read as positional (`schedule(a, state=s)` = `schedule(a, s)`; `subscribe(on_error=f)` = `subscribe(None, f)`)
    _SIG = {"subscribe": (["on_next", "on_error", "on_completed"], True), "schedule": (["action", "state"], False),
            "schedule_relative": (["duetime", "action", "state"], False), "schedule_absolute": (["duetime", "action", "state"], False),
            "schedule_periodic": (["period", "action", "state"], False)}

    def visit_Call(self, n: ast.Call):
        self.generic_visit(n)
        if isinstance(n.func, ast.Attribute) and n.func.attr in self._SIG and n.keywords \
                and not any(isinstance(a, ast.Starred) for a in n.args) and not any(k.arg is None for k in n.keywords):
            sig, fill = self._SIG[n.func.attr]
            kw = {k.arg: k for k in n.keywords}
            args = list(n.args)
            last = max([i for i, nm in enumerate(sig) if nm in kw] + [-1])
            for i in range(len(args), last + 1):
                nm = sig[i]
                if nm in kw:
                    args.append(kw.pop(nm).value)
                elif fill:
                    args.append(ast.copy_location(ast.Constant(None), n))
                else:
                    break
            if len(args) != len(n.args):
                n.args = args
                n.keywords = [k for k in n.keywords if k.arg in kw]
        return n


class Module:
    def __init__(self, path: str, rel: str, modname: str, src: str):
        self.path = path
        self.rel = rel  # e.g. reactivex/operators/_take.py
        self.modname = modname  # e.g. reactivex.operators._take
        self.src = src
        self.tree = _PlainAssign().visit(ast.parse(src, filename=path))
        self.parents: Dict[ast.AST, ast.AST] = {}
        for n in ast.walk(self.tree):
            for ch in ast.iter_child_nodes(n):
                self.parents[ch] = n
        self.root = Fn(self.tree, None, "<module>", self)
        self.fn_of_node: Dict[ast.AST, Fn] = {self.tree: self.root}
        self._build(self.tree, self.root)
        self.imports: Dict[str, Tuple[str, Optional[str]]] = {}
        self._imports()

    @property
    def is_package(self) -> bool:
        return self.rel.endswith("__init__.py")

    # -- scope tree ---------------------------------------------------
    def _build(self, node: ast.AST, fn: Fn) -> None:
        lam_counter: Dict[Fn, int] = {}

        def bind(f: Fn, name: str, kind: str, n: ast.AST) -> None:
            f.binds.setdefault(name, []).append((kind, n))

        def bind_target(f: Fn, t: ast.AST, kind: str, st: ast.AST) -> None:
            for n in ast.walk(t):
                if isinstance(n, ast.Name) and isinstance(n.ctx, (ast.Store, ast.Del)):
                    bind(f, n.id, kind, st)

        def visit(n: ast.AST, f: Fn) -> None:
            for ch in ast.iter_child_nodes(n):
                handle(ch, f)

        def handle(ch: ast.AST, f: Fn) -> None:
            if isinstance(ch, (ast.FunctionDef, ast.AsyncFunctionDef)):
                bind(f, ch.name, "def", ch)
                for d in ch.decorator_list:
                    handle(d, f)
                for d in ch.args.defaults + [k for k in ch.args.kw_defaults if k is not None]:
                    handle(d, f)
                g = Fn(ch, f, ch.name, self)
                self.fn_of_node[ch] = g
                a = ch.args
                for p in a.posonlyargs + a.args + a.kwonlyargs + ([a.vararg] if a.vararg else []) + ([a.kwarg] if a.kwarg else []):
                    bind(g, p.arg, "param", p)
                for st in ch.body:
                    handle(st, g)
            elif isinstance(ch, ast.Lambda):
                k = lam_counter.get(f, 0)
                lam_counter[f] = k + 1
                for d in ch.args.defaults + [kk for kk in ch.args.kw_defaults if kk is not None]:
                    handle(d, f)
                g = Fn(ch, f, f"<lambda#{k}>", self)
                self.fn_of_node[ch] = g
                a = ch.args
                for p in a.posonlyargs + a.args + a.kwonlyargs + ([a.vararg] if a.vararg else []) + ([a.kwarg] if a.kwarg else []):
                    bind(g, p.arg, "param", p)
                handle(ch.body, g)
            elif isinstance(ch, ast.ClassDef):
                bind(f, ch.name, "class", ch)
                for d in ch.decorator_list + ch.bases:
                    handle(d, f)
                g = Fn(ch, f, ch.name, self)
                self.fn_of_node[ch] = g
                for st in ch.body:
                    handle(st, g)
            else:
                if isinstance(ch, ast.Nonlocal):
                    f.nonlocals.update(ch.names)
                elif isinstance(ch, ast.Global):
                    f.globals_.update(ch.names)
                elif isinstance(ch, ast.Assign):
                    for t in ch.targets:
                        bind_target(f, t, "assign", ch)
                elif isinstance(ch, (ast.AnnAssign, ast.AugAssign)):
                    bind_target(f, ch.target, "assign" if isinstance(ch, ast.AnnAssign) else "aug", ch)
                elif isinstance(ch, (ast.For, ast.AsyncFor)):
                    bind_target(f, ch.target, "for", ch)
                elif isinstance(ch, (ast.With, ast.AsyncWith)):
                    for it in ch.items:
                        if it.optional_vars is not None:
                            bind_target(f, it.optional_vars, "with", ch)
                elif isinstance(ch, ast.ExceptHandler):
                    if ch.name:
                        bind(f, ch.name, "except", ch)
                elif isinstance(ch, (ast.Import, ast.ImportFrom)):
                    for al in ch.names:
                        nm = (al.asname or al.name).split(".")[0]
                        bind(f, nm, "import", ch)
                elif isinstance(ch, ast.NamedExpr):
                    bind_target(f, ch.target, "assign", ch)
                elif isinstance(ch, ast.comprehension):
                    bind_target(f, ch.target, "comp", ch)
                visit(ch, f)

        visit(node, fn)

    # -- imports -----------------------------------------------------
    def _imports(self) -> None:
        pkg_parts = self.modname.split(".")
        if not self.is_package:
            pkg_parts = pkg_parts[:-1]
        for n in ast.walk(self.tree):
            if isinstance(n, ast.Import):
                for al in n.names:
                    if al.asname:
                        self.imports[al.asname] = (al.name, None)
                    else:
                        top = al.name.split(".")[0]
                        self.imports[top] = (top, None)
            elif isinstance(n, ast.ImportFrom):
                if n.level:
                    base = pkg_parts[: len(pkg_parts) - (n.level - 1)]
                    mod = ".".join(base + ([n.module] if n.module else []))
                else:
                    mod = n.module or ""
                for al in n.names:
                    self.imports[al.asname or al.name] = (mod, al.name)

    def fn_at(self, node: ast.AST) -> Fn:
        """Innermost scope containing `node`."""
        cur = node
        while cur is not None:
            if cur in self.fn_of_node and cur is not node:
                return self.fn_of_node[cur]
            cur = self.parents.get(cur)
        return self.root

    def functions(self) -> Iterator[Fn]:
        for f in self.root.walk():
            if f.is_func:
                yield f

    def find(self, dotted: str) -> Optional[Fn]:
        return self.root.find(dotted)


class Repo:
    def __init__(self, root: str = None, subdir: str = PKG):
        self.root = root or REPO_ROOT
        self.modules: Dict[str, Module] = {}  # by rel path
        self.by_modname: Dict[str, Module] = {}
        base = os.path.join(self.root, subdir)
        if not os.path.isdir(base):
            raise AnalysisError(f"package directory missing: {base}")
        for dp, dns, fns in os.walk(base):
            dns[:] = sorted(d for d in dns if d != "__pycache__")
            for fn in sorted(fns):
                if not fn.endswith(".py"):
                    continue
                path = os.path.join(dp, fn)
                rel = os.path.relpath(path, self.root)
                modname = rel[:-3].replace(os.sep, ".")
                if modname.endswith(".__init__"):
                    modname = modname[: -len(".__init__")]
                try:
                    with open(path, encoding="utf-8") as fh:
                        src = fh.read()
                    m = Module(path, rel, modname, src)
                except SyntaxError as e:
                    raise AnalysisError(f"cannot parse {rel}: {e}")
                self.modules[rel] = m
                self.by_modname[modname] = m

    # -- anchors -----------------------------------------------------
    def module(self, rel: str) -> Module:
        m = self.modules.get(rel)
        if m is None:
            raise AnalysisError(f"anchor module vanished: {rel}")
        return m

    def opt_module(self, rel: str) -> Optional[Module]:
        return self.modules.get(rel)

    def fn(self, rel: str, dotted: str) -> Fn:
        f = self.module(rel).find(dotted)
        if f is None:
            raise AnalysisError(f"anchor vanished: {rel}::{dotted}")
        return f

    def opt_fn(self, rel: str, dotted: str) -> Optional[Fn]:
        m = self.modules.get(rel)
        return m.find(dotted) if m else None

    def all_functions(self) -> Iterator[Fn]:
        for m in self.modules.values():
            yield from m.functions()

    def all_classes(self) -> Iterator[Fn]:
        for m in self.modules.values():
            for f in m.root.walk():
                if f.is_class:
                    yield f

    # -- symbol resolution -------------------------------------------
    def resolve_symbol(self, modname: str, name: str, depth: int = 0) -> Optional[Fn]:
        """Resolve `name` exported by module `modname` to its defining Fn,
        following re-exports and simple aliases (`a = b`)."""
        if depth > 12:
            return None
        m = self.by_modname.get(modname)
        if m is None:
            return None
        root = m.root
        kinds = root.binds.get(name, [])
        for kind, node in reversed(kinds):
            if kind in ("def", "class"):
                for c in root.children:
                    if c.node is node:
                        return c
            if kind == "assign":
                v = getattr(node, "value", None)
                if isinstance(v, ast.Name):
                    r = self.resolve_symbol(modname, v.id, depth + 1)
                    if r is not None:
                        return r
                if isinstance(v, ast.Attribute):
                    r = self.resolve_expr(m.root, v, depth + 1)
                    if r is not None:
                        return r
            if kind == "import":
                tgt = m.imports.get(name)
                if tgt is not None:
                    mod, sym = tgt
                    if sym is None:
                        return None
                    r = self.resolve_symbol(mod, sym, depth + 1)
                    if r is not None:
                        return r
                    # `from pkg import submodule`
                    return None
        # nested imports (inside functions) are in m.imports too
        if name in m.imports and not kinds:
            mod, sym = m.imports[name]
            if sym is not None:
                return self.resolve_symbol(mod, sym, depth + 1)
        return None

    def resolve_module_alias(self, scope: Fn, name: str) -> Optional[str]:
        """If `name` in scope refers to an imported module, its modname."""
        m = scope.module
        tgt = m.imports.get(name)
        if tgt is None:
            return None
        mod, sym = tgt
        if sym is None:
            return mod if mod in self.by_modname else None
        full = f"{mod}.{sym}" if mod else sym
        if full in self.by_modname:
            return full
        return None

    def resolve_expr(self, scope: Fn, e: ast.AST, depth: int = 0) -> Optional[Fn]:
        """Resolve a Name / dotted Attribute used in `scope` to a package Fn."""
        if isinstance(e, ast.Name):
            loc = scope.resolve_local_def(e.id)
            if loc is not None:
                return loc
            o = scope.owner(e.id)
            if o is not None and not o.is_module:
                if not all(k == "import" for k, _ in o.binds.get(e.id, [])):
                    return None
            m = scope.module
            if e.id in m.imports:
                mod, sym = m.imports[e.id]
                if sym is not None:
                    return self.resolve_symbol(mod, sym, depth + 1)
                return None
            return self.resolve_symbol(m.modname, e.id, depth + 1)
        if isinstance(e, ast.Attribute):
            if isinstance(e.value, ast.Name):
                mod = self.resolve_module_alias(scope, e.value.id)
                if mod is not None:
                    return self.resolve_symbol(mod, e.attr, depth + 1)
                # Class.method
                c = self.resolve_expr(scope, e.value, depth + 1)
                if c is not None and c.is_class:
                    return self.class_method(c, e.attr)
            elif isinstance(e.value, ast.Attribute):
                # pkg.sub.sym
                parts = []
                cur: ast.AST = e
                while isinstance(cur, ast.Attribute):
                    parts.append(cur.attr)
                    cur = cur.value
                if isinstance(cur, ast.Name):
                    parts.append(cur.id)
                    parts.reverse()
                    base = self.resolve_module_alias(scope, parts[0]) or parts[0]
                    modname = ".".join([base] + parts[1:-1])
                    if modname in self.by_modname:
                        return self.resolve_symbol(modname, parts[-1], depth + 1)
        return None

    # -- classes -------------------------------------------------------
    def class_bases(self, c: Fn) -> List[Fn]:
        out = []
        for b in c.node.bases:
            if isinstance(b, ast.Subscript):
                b = b.value
            r = self.resolve_expr(c.parent, b)
            if r is not None and r.is_class:
                out.append(r)
        return out

    def mro(self, c: Fn) -> List[Fn]:
        seen: List[Fn] = []

        def go(x: Fn) -> None:
            if x in seen:
                return
            seen.append(x)
            for b in self.class_bases(x):
                go(b)

        go(c)
        return seen

    def class_method(self, c: Fn, name: str) -> Optional[Fn]:
        for k in self.mro(c):
            ch = k.child(name)
            if ch is not None and ch.is_func:
                return ch
        return None

    def subclasses(self, c: Fn) -> List[Fn]:
        return [k for k in self.all_classes() if k is not c and c in self.mro(k)]
