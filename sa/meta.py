"""Per-property manifest metadata.  `python3 -m sa.meta` regenerates MANIFEST.json."""
from __future__ import annotations

import json
import os

VERIF = os.path.dirname(os.path.dirname(os.path.abspath(__file__)))

# id -> dict(strength, text, note, technique, design_ref)  (claimed properties only)
CLAIMED = {}

# id -> reason (properties not claimed)
NOT_APPLICABLE = {}


def claim(pid, strength, text, note, technique):
    CLAIMED[pid] = dict(strength=strength, text=text, note=note, technique=technique)


def na(pid, reason):
    NOT_APPLICABLE[pid] = reason


claim("C01", "S3",
      "Structural decision: for every pipeline the subscriber's callbacks are reachable only through the "
      "AutoDetachObserver interposed by Observable.subscribe; guard dominance (not is_stopped), flag-before-callback "
      "ordering, dispose-sets-flag, fail() routing, who-may-call on _subscribe_core and the Observer subclass "
      "override rule are decided on every path of every implementing class. This is the right level because the "
      "grammar guarantee is produced by exactly this local mechanism, for all operators at once.",
      "Assumes single-threaded delivery per subscriber (is_stopped is not atomic; see C43) and that Python attribute "
      "access is not intercepted. Trusted base: Python ast, the analyser under /verif/sa.",
      "ast guard-dominance + who-may-call (call graph) typestate check")

claim("C02", "S2",
      "Ownership discipline: (a) the AutoDetachObserver reaches dispose() after every terminal notification on every "
      "path and dispose() releases the stored source subscription; (b) every subscription / scheduled item / ref-count "
      "dependent acquired in the closure tree of each of the ~115 subscribe functions is reachable through held-by "
      "edges from the disposable that function returns; (c) every group/window observable handed downstream is tied to "
      "the returned RefCountDisposable. Decides the discipline whose conjunction is the standard release argument, for "
      "all operators, not a sampled pipeline.",
      "Held-by graph is flow-insensitive per closure tree (an acquisition held on one path only is not detected); "
      "container run-time behaviour is C25-C27; results of unknown calls are assumed to hold their arguments.",
      "ast ownership (held-by reachability) analysis + must-pass-through on the wrapper")

claim("C03", "S2",
      "Discipline: the disposable returned by Observable.subscribe is bound to the wrapper's dispose, which silences all "
      "entry points and disposes the stored subscription; E7 ownership for every subscribe function (one dispose reaches "
      "every acquisition); every scheduler run loop tests is_cancelled() before invoke() and cancel disposes the item; "
      "synchronous emit loops poll a flag set through the returned disposable.",
      "Does not decide callbacks already on the stack when dispose() is called, nor the run-time behaviour of the "
      "disposable containers (C26). Single thread / virtual time as the property states.",
      "ast ownership analysis + guard dominance (invoke guard) + producer poll-flag def-use")

claim("C04", "S3",
      "Structural decision by staging/escape analysis over every function scope of every operator and source factory "
      "(~450 scopes, ~900 bindings): nothing allocated when the observable or the operator application is built "
      "(L0/L1) is mutated, and no one-shot iterator allocated there is advanced, by code that runs per subscription "
      "(>= L2), including through callee parameters (interprocedural consumed-per-subscription summaries). This is "
      "exactly the mechanism by which re-subscription could differ, decided for all operators at once.",
      "State inside user callbacks / user iterables is outside the statement; multicast/hot operators are exempt by "
      "the property (frozen table with reasons); infinite generators whose values are discarded are stateless.",
      "ast staging / escape analysis with interprocedural parameter-consumption summaries")

claim("C44", "S3",
      "Structural decision at the factory/application boundary for all operator factories: no L0 binding is mutated or "
      "consumed at >= L1, no Subject/connectable/disposable container is constructed at L0, curry_flip keeps no state "
      "between the two calls (so @curry_flip operators are per-application by construction).",
      "User-supplied stateful arguments (a subject handed to ops.multicast) are the user's. Trusted: stage model of "
      "operator shapes (factory / application / subscribe / handlers).",
      "ast staging analysis at the L0/L1 boundary + statelessness of curry_flip")

claim("C25", "S2",
      "Lock discipline: the deciding read and the write of is_disposed are one locked region (atomic test-and-set), the "
      "action runs only on the path that performed the write and from nowhere else; BooleanDisposable.dispose only "
      "flips its flag; ScheduledDisposable.dispose only schedules a function that disposes its inner "
      "SingleAssignmentDisposable. Data-race freedom + atomic test-and-set is the standard at-most-once argument for "
      "every interleaving, which no sampled thread test can give.",
      "threading.RLock trusted; exactly-once of the inner SingleAssignmentDisposable is C26's claim; no concrete "
      "schedule is executed.",
      "ast lock-region analysis (guarded-by, test-and-set in one region, effect on winning path)")

claim("C26", "S2",
      "Lock discipline + ownership hand-off typestate on the four containers: writes to guarded fields under the lock; no "
      "decision on a guarded field read outside it (monotone early exits / pure getters excepted); path enumeration of "
      "every mutator shows an assigned/added item is stored xor disposed, a swapped-out item is disposed exactly once, "
      "the winner of dispose() takes+clears+disposes and losers dispose nothing; composite dispose/clear work on a "
      "snapshot swapped out under the lock; SingleAssignmentDisposable rejects a second assignment under the lock.",
      "threading.RLock trusted; paths enumerate loops 0/1 times; no concrete interleaving is executed — the rules are "
      "the standard sufficient discipline for all interleavings.",
      "ast lock-region analysis + path-sensitive hand-off typestate")

claim("C27", "S2",
      "Lock discipline on RefCountDisposable/InnerDisposable: guarded-by for count / is_primary_disposed / is_disposed; "
      "is_disposed set (and the underlying disposed, outside the lock, on exactly those paths) only under count == 0 and "
      "primary disposed decided in one region; primary test-and-set; single decrement per release; getter decides "
      "inert-vs-increment under the lock; the inner disposable swaps its parent under its lock and releases only the "
      "parent it obtained.",
      "The abstract model over unbounded histories named by the property is model checking, outside this family; "
      "decided here is the discipline that implies it. RLock trusted.",
      "ast lock-region analysis + path typestate")

claim("C28", "S1",
      "Necessary structural clauses only: item order = due time only; queue ties broken by a per-enqueue counter over a "
      "heapq heap; invoke() dominated by not is_cancelled(); every clock write guarded so the clock cannot move backwards "
      "and, in run loops, equal to the due time of the item about to run; advance_to dequeues only under duetime <= "
      "target (inclusive) and ends with clock = target; sleep runs nothing; advance_by delegates.",
      "The order of concrete generated schedules is NOT decided (that is a value-level property); heapq and datetime "
      "comparison semantics are trusted.",
      "ast guard-dominance with comparator normalisation + structural checks of queue/item")

claim("C29", "S2",
      "Necessary conditions for termination, decided on every path: no use under the non-reentrant _lock of a self "
      "member (method or property getter, through the class family) that takes it again; no store to a setter-less "
      "property anywhere in the package; every run-loop iteration path exits or dequeues; enabled flag test-and-set at "
      "entry and reset on every normal exit.",
      "Termination itself is undecidable; user actions are assumed to terminate and to schedule finitely many actions.",
      "ast lock re-acquisition reachability + property table + path enumeration of loop bodies")

claim("C30", "S2",
      "Lock discipline + structure of Trampoline: guarded-by for _idle/_queue; enqueue and idle test-and-set in one "
      "region and only the idle-finder drains (never nested), decided on every path of run(); invoke only in _run, "
      "outside the lock, under not is_cancelled(); ready only under duetime <= now; FIFO ready deque; idle restored in a "
      "finally under the lock; non-reentrant lock never re-acquired; per-thread trampoline resolution.",
      "threading primitives trusted; PriorityQueue stability is C28's clause; no concrete interleaving is run.",
      "ast lock-region analysis + path enumeration + guard dominance")

claim("C31", "S2",
      "Lock discipline + structure of EventLoopScheduler: guarded-by for the four shared fields with helper-under-lock "
      "and monotone-early-raise idioms; invoke only in run(), outside the lock, not cancelled; single consumer thread "
      "(created only when none, target run); timed dequeue only when not (due > now); disposed test first per iteration; "
      "exit_if_empty clears the thread slot in the region deciding emptiness; FIFO lists; dispose locked test-and-set + "
      "notify; no re-acquisition of the non-reentrant condition.",
      "threading.Condition semantics trusted; real-time behaviour is not executed.",
      "ast lock-region analysis + guard dominance with comparator normalisation")

claim("C32", "S2",
      "Producer/consumer handshake decided structurally: each core enqueues one action of its own kind before "
      "ensure_active; ownership test-and-set in one region, drain scheduled outside under the local; run pops from the "
      "front or releases ownership in the region that tests emptiness (no lost wake-up), one item per run, re-schedule "
      "after the item, fault latch under the lock then re-raise; no other delivery site; observe_on wiring.",
      "list.append/pop(0) atomicity in CPython (the enqueue is outside the lock by design); target scheduler runs each "
      "scheduled run once.",
      "ast lock-region analysis + path typestate of run()")

claim("C33", "S2",
      "Every handle.cancel() reachable from a dispose closure is dominated by the loop-affinity predicate or marshalled "
      "through call_soon_threadsafe and awaited; return-value analysis of the predicate (truthy constant only when the "
      "loop is not running, falsy on the get_running_loop() failure path, otherwise loop identity); thread-safe entry "
      "points only; cancel disposable held and delay forwarded.",
      "asyncio FIFO callback order and Future.result() blocking are trusted.",
      "ast guard dominance + return-value analysis + who-may-call on loop entry points")

claim("C43", "S2",
      "Downstream lock coverage for the eight listed combinators: every slot of every source subscription and every timer "
      "action is followed (helpers, lambdas, bound methods, synchronized wrappers) to its calls on the downstream observer; "
      "each is made under the combinator's single lock or behind a once-assigned winner flag (amb); all slots use the same "
      "lock; flat_map*/merge delegate to merge_all. Mutual exclusion of downstream calls is the discipline that yields "
      "'never two threads at once' for every interleaving.",
      "Each source emits serially from its own thread (as the property states); RLock trusted; the grammar under "
      "serialized calls is C01/C11-C13's subject.",
      "ast lock-coverage analysis over subscribe slots with interprocedural helper following")

claim("C08", "S3",
      "Structural decision by taint analysis over every truth-test context (~460) of operators, sources, subjects and "
      "observers: no value that holds a stream element (handler parameters and whatever is read back from the "
      "containers, cells and fields elements were stored in, with container depth) is the operand of a truth test or a "
      "None comparison; presence is decided by flags, sentinels or lengths. Thorough tier adds an independent typed "
      "detector (in-process mypy build: operands typed as an element TypeVar).",
      "Flow-insensitive per closure tree; results of user callbacks are not sources in the quick tier; mypy is used only "
      "as a type oracle (thorough tier) and is skipped, and said so, if unavailable.",
      "ast taint analysis with container depth; mypy-typed operand scan (thorough)")

claim("C09", "S2",
      "Guarded-callback discipline over ~230 user-callable parameters: aliases, captures, helper objects, wrappers, "
      "delegation to other package functions (assume/guarantee) and lazy iterators are propagated to a fixpoint; every "
      "invocation executed while a notification or scheduled action is processed (L3), directly or through unguarded "
      "helpers, is enclosed by a handler that catches Exception and routes it; handlers do not swallow.",
      "Exceptions from non-callable user data (__eq__, iterables) are outside the statement; subscribe-time routing is "
      "C01-R4; lexical enclosure is used (a guard established dynamically by an unrelated caller is not credited).",
      "ast taint fixpoint over user callables + enclosing-handler analysis")

claim("C39", "S3",
      "Exhaustive delegation agreement over the 131 fluent methods of the 11 mixins and the ~130 public operators: each "
      "fluent method applies, to self, the operator its own name resolves to (aliases resolved, self.other() followed "
      "one level); every parameter is forwarded by positional role / name exactly once, unchanged, omitted only under a "
      "guard on it, with equal defaults; the same from each public operator to its implementation.",
      "The operator function of the same name is the reference; cast() and single-assignment aliases are transparent. "
      "One recorded known finding (UtilityMixin.do).",
      "ast abstract evaluation of wrappers + signature binding (parameter-to-parameter forwarding)")

claim("C07", "S3",
      "slice_ is evaluated symbolically (own evaluator over its AST, nothing imported or run) to the pipeline it composes "
      "for every start/stop in {None, -5..5} (domain sized from the constants it compares with) and step in {None,1,2,3}; "
      "the pipeline's index semantics under reference models of the positional operators is compared with list slicing "
      "for every length 0..8 - all relative orders of |start|, |stop| and n. Observable.__getitem__'s integer and slice "
      "forms are evaluated the same way.",
      "Reference models of take/skip/take_last/skip_last/indexed filter+map are trusted here (their own list semantics "
      "is C05); step >= 1.",
      "symbolic evaluation of the AST + exhaustive small-domain comparison with list slicing")

claim("C20", "S2",
      "Re-entrancy discipline of Subject (the quantifier is single-thread call histories incl. calls from inside "
      "callbacks): snapshot iteration, state (cleared list, recorded exception) before call-out, path-enumerated "
      "_subscribe_core (check first; live -> register + removing subscription; stopped -> exactly the terminal, inert "
      "disposable), check_disposed before every public on_*, dispose, InnerSubscription removes exactly its observer once, "
      "append-only registration. With C01's guard rules these are the facts the broadcast guarantee rests on.",
      "is_stopped handling is C01's; foreign-thread races on `observers` are not this property's quantifier.",
      "ast ordering (dominance) rules + path enumeration of _subscribe_core")

claim("C21", "S2",
      "BehaviorSubject: path-enumerated _subscribe_core (live: register then send self.value before returning; stopped: "
      "terminal only), value stored under the lock before the delivery loop over a snapshot, value written only by "
      "__init__/_on_next_core/dispose, other entry points inherited from Subject.",
      "C20's rules for the inherited parts; value truthiness is C08.",
      "ast path enumeration + dominance rules")

claim("C22", "S2",
      "ReplaySubject: path-enumerated _subscribe_core order (check, trim, register, replay queue in order, terminal, "
      "activate) in one locked region; cores buffer/trim under the lock before delivering to a snapshot and activate "
      "afterwards; trim bounds are `len > buffer_size` and `age > window` (inclusive retention) dropping from the front; "
      "None defaults are identity tests; RemovableDisposable removes exactly its scheduled observer.",
      "Exact retained contents for concrete timelines are not decided (S1 part); ScheduledObserver handshake is C32.",
      "ast path enumeration + dominance + comparator normalisation")

claim("C23", "S2",
      "AsyncSubject: no delivery in _on_next_core (value + has_value stored under the lock); completion core snapshots, "
      "clears, reads value/has_value into locals under the lock, then value iff has_value followed by completion to each "
      "observer; late-subscriber paths enumerated (error -> only error; completed -> value iff has_value then completion); "
      "error core inherited.",
      "C20's rules for inherited parts; has_value is a flag (C08 decides no truthiness on value).",
      "ast path enumeration + dominance rules")

claim("C40", "S2",
      "using_: resource factory once, guarded, and every return path of subscribe (incl. the failure path) holds the "
      "resource's disposable (must-hold per return); finally_action_: the action runs only in the returned dispose hook "
      "(finally after subscription.dispose()) or on the re-raising failure path; do_finally: every invocation dominated by "
      "`not was_invoked` with the flag set on the same path, hook held by the returned composite, per-subscription flag; "
      "do_* handlers forward exactly their own notification unchanged on every non-raising path (path enumeration).",
      "Disposable at-most-once is C25, terminal => dispose is C02. A finally-action that itself raises is outside the claim.",
      "ast must-hold ownership per return path + guard dominance + path typestate of handlers")

claim("C41", "S1",
      "Necessary single-shot clauses by path enumeration of each bridge callback: from_future (result => value then "
      "completion; exception/cancellation => error only; unsubscribe cancels), from_callback (one value then completion "
      "with and without mapper; raising mapper => error), to_async/start (result via AsyncSubject then completion; "
      "exception => error), to_future/run (last value iff has_value flag, else SequenceContainsNoElementsError; error => "
      "exception), plus the registration/delegation wiring.",
      "Emitted values and real asyncio/thread behaviour are not decided; futures behave as documented.",
      "ast path enumeration (typestate) + wiring checks")

claim("C42", "S2",
      "Wrap coverage (every schedule* passes self._wrap(action) with the other arguments in role), handler semantics by "
      "analysis of the except block (handler(ex) once, re-raise iff falsy, normal end otherwise), recursive wrapper given "
      "to the action, periodic: failed latch before the handler and dominating later ticks, swallow path disposes the "
      "periodic subscription.",
      "The wrapped scheduler runs what it is given; the user handler's own behaviour is not constrained.",
      "ast who-passes-what (forwarding) + handler-block analysis")

claim("C36", "S1",
      "Necessary structural clauses: every clock/timestamp datetime construction in the package carries an explicit UTC "
      "tz and the naive forms are absent; the three converters go through the one tz-aware epoch constant with mutually "
      "inverse operations and are the identity on their own target type; Scheduler.now is datetime.now(timezone.utc).",
      "Exact float round-trips / order preservation are arithmetic facts about datetime and float: NOT decided.",
      "ast structural checks of datetime constructions and converter branches")

claim("C37", "S1",
      "Necessary clauses by path typestate and def-use: single-shot sources (value then completion / only completion / "
      "only error / nothing), range_ argument forwarding and per-step iteration, from_iterable's next-until-StopIteration, "
      "generate_*: first-step skip, accepted state emitted, completion on rejection, delay never truth-tested, timer "
      "tick counting, repeat_value / interval delegations.",
      "Emitted values for concrete arguments are not decided.",
      "ast path enumeration (typestate) + guard dominance")

claim("C38", "S1",
      "Necessary clauses of marbles.parse: timestamp-before-increment, frame accounting by consumed length per token "
      "class, group members at the group's timestamp, stop check before recording, map_element cases, token regex "
      "alternative order and reserved-character partition (regex AST via re._parser), argument forwarding of hot / "
      "from_marbles, spaces stripped.",
      "Parsing of arbitrary strings is not decided; `re` is used only to parse the pattern constant into its AST.",
      "ast ordering/def-use checks + regex AST inspection")

claim("C24", "S1",
      "Necessary structural clauses: connect() guarded by the connected flag, flag set before subscribing, subject "
      "subscribed, connection holds the source subscription and the flag reset; ref_count disconnect edge (decrement then "
      "zero test dominates disposing the connection, own subscription disposed), auto_connect's n-th-subscriber test, and "
      "the publish/share/replay/publish_value/multicast delegations with their subject kinds (constructor resolved "
      "through aliases).",
      "What each subscriber receives is NOT decided; the connect edge of ref_count is deliberately unconstrained "
      "(connect is idempotent); per-application state is C44.",
      "ast guard dominance + ownership of the connection + delegation resolution")

claim("C34", "S1",
      "Necessary clauses: ImmediateScheduler invokes only under duetime <= 0 and raises WouldBlockException otherwise; "
      "TimeoutScheduler's Timer delay is to_seconds(duetime) and the returned composite cancels that timer; NewThread/"
      "ThreadPool/absolute forms forward due time, action and state unchanged to a fresh exiting EventLoopScheduler; "
      "every ScheduledItem.invoke is dominated by not is_cancelled(); EventLoopScheduler returns Disposable(item.cancel).",
      "Real clock / thread timing is not decided; EventLoopScheduler's own discipline is C31.",
      "ast guard dominance + argument forwarding + ownership of the timer cancel")

claim("C35", "S1",
      "Sibling cross-check of schedule_periodic implementations: state threading by def-use, disposed test dominating the "
      "action and set by the returned disposable, exception disposes and propagates (no swallowing handler), next tick "
      "scheduled period minus elapsed, first tick after one period; timer tick counter and interval delegation. Thorough "
      "tier adds the Qt implementation.",
      "Period values / real timing not decided; CatchScheduler's periodic path is C42.",
      "ast def-use + guard dominance + handler analysis")

claim("C05", "S1",
      "Skeleton only: for the 20 listed element-wise operators the typestate signature of every slot (set of "
      "downstream-call sequences per handler path, helpers inlined) equals the hand-confirmed reference; errors pass "
      "through, completion is passed through or always ends in a terminal call, at most one output per input; no "
      "scheduler is used (outputs are emitted inside the determining input's notification); composites are pipelines of "
      "their documented components.",
      "The list-equality core (values, counts, comparisons) is NOT decided. The reference table is a behavioural "
      "abstraction confirmed by reading, regenerated only by hand (tools/gen_typestate_ref.py).",
      "ast path-enumerated typestate signatures vs confirmed reference + who-may-call on schedulers")

claim("C06", "S1",
      "Skeleton only: typestate signatures of the aggregate implementations equal the confirmed reference (silent per "
      "element, result + completion at the deciding notification), termination clauses, no scheduler, error kinds "
      "(SequenceContainsNoElementsError decided by a presence flag; single fails on a second element), composite "
      "definitions (reduce = scan + last, count/sum = reduce, min/max = *_by, all/contains/is_empty = filter/some/map).",
      "Numeric results and collection contents are NOT decided.",
      "ast path-enumerated typestate signatures + guard dominance on error kinds + delegation table")

claim("C10", "S1",
      "Sequencer structure: signatures equal the reference; the iterator-advancing action is scheduled only from "
      "subscribe and from exactly the terminal slot(s) each operator continues on, the other terminal and elements are "
      "passed through; the new inner goes through the SerialDisposable before subscribing; repeat/retry/while_do/"
      "do_while/start_with/concat/for_in delegate, counts forwarded into range().",
      "Subscription counts and output contents for concrete inputs are NOT decided.",
      "ast who-may-schedule (call graph over slots) + dominance + delegation table")

claim("C11", "S1",
      "merge_/merge_all_: signatures equal the reference (inner elements/errors passed straight through); completion-join "
      "dependence (outer-stopped flag and active count dominate every downstream completion); max_concurrent guard, "
      "enqueue on the other branch, FIFO dequeue, active count only dropped when nothing is queued; flat_map*/merge/"
      "concat_map delegations.",
      "Element order/timing for concrete inputs is NOT decided.",
      "ast typestate signatures + guard dominance (control dependence)")

claim("C12", "S1",
      "switch_latest_: signature equals the reference; every downstream call of an inner handler is dominated by "
      "`latest == captured id`, id bumped and captured before subscribing; holder routed through the SerialDisposable "
      "(held by the result) before subscribing; completion join; switch_map*/flat_map_latest delegations.",
      "Timing of concrete inner sequences is NOT decided.",
      "ast guard dominance (stale-id) + ownership + typestate signatures")

claim("C13", "S1",
      "Dependence signatures of zip / combine_latest / with_latest_from / fork_join / amb equal the hand-confirmed "
      "reference; emission and completion gates (all queues non-empty, all-have-value flag, sentinel membership, all "
      "done, winner gate with the loser disposed in the same step).",
      "Tuple contents and timing are NOT decided.",
      "ast typestate signatures vs frozen table + guard dominance")

claim("C14", "S2",
      "Chain of necessary conditions: subscribe goes through the current-thread trampoline when required "
      "(schedule_required = idle()); each synchronous producer polls a dispose flag in its loop or emits one element per "
      "scheduled step through a held container (ownership); each early terminator has an element/trigger path reaching "
      "a terminal call; terminal => wrapper dispose in a finally.",
      "The amount of work before subscribe() returns is not measured; composition through arbitrary pipelines relies on "
      "C02/C03's ownership discipline.",
      "ast guard dominance + ownership + typestate signatures")

claim("C16", "S1",
      "Necessary clauses: signatures of debounce / throttle_with_mapper / throttle_first / sample equal the reference; "
      "stale-timer guard (emission dominated by has_value and id == captured id; every source notification bumps the id); "
      "flush on completion under the presence flag; throttle_first's inclusive `elapsed >= duration` with the emission "
      "time recorded in the deciding branch; sample resets its presence flag when it emits.",
      "Timing values for concrete timelines are NOT decided.",
      "ast typestate signatures + guard dominance + comparator normalisation")

claim("C17", "S1",
      "Necessary clauses: signatures of the eight time-window operators equal the reference; boundary agreement — the "
      "age-vs-duration comparisons of on_next and on_completed in take_last_with_time / skip_last_with_time answer 'is the "
      "element of age exactly the duration emitted?' identically, and the two operators are complementary; timeout's "
      "fallback switch is decided by id equality and every source notification invalidates the pending timer.",
      "Timing values are NOT decided.",
      "ast comparator normalisation (sibling agreement at equality) + guard dominance + typestate signatures")

claim("C18", "S1",
      "Necessary clauses: signatures of the window operators and group_join equal the reference; terminal fan-out "
      "(sequences e*E / c*C on every path of the source's terminal handlers); every window handed downstream is add_ref'd "
      "to the returned RefCountDisposable; each buffer_* is the same-named window_* with identical arguments followed by "
      "flat_map(to_list).",
      "Index/time arithmetic (which element falls in which window) is NOT decided.",
      "ast typestate signatures + regular-language check on terminal paths + delegation/argument agreement")

claim("C19", "S1",
      "Necessary clauses: group_by_until signature equals the reference; one unconditional writer.on_next(element) with "
      "the writer taken from / stored in the map under the computed key, at most one new group and one delivery per path; "
      "expiry deletes the key and completes its writer; terminal fan-out; group_by = group_by_until + never(); partition's "
      "second output is filtered by the syntactic negation of the predicate over one shared published source.",
      "Key semantics and group contents are NOT decided.",
      "ast typestate signatures + def-use of the writer map + negation-wrapper check")

claim("C15", "S1",
      "Necessary structural clauses of the time-shifting operators. delay: notifications observed materialized + "
      "timestamped, queued at timestamp + delay, drained from the front only when due (<=), replayed with accept, re-armed "
      "after max(0, head - now); an error empties the queue, is recorded and delivered at once (identity test), or by the "
      "running drain. delay_with_mapper: element delivered on the delay's first signal (next or completion), holder "
      "registered before subscribing and removed after, no serial clobber by a synchronous subscription delay, completion "
      "join. delay_subscription = delay_with_mapper(timer, empty). timestamp / time_interval: per-element reading of the "
      "subscription scheduler's clock, interval = now - last then last = now. Scheduler forwarded everywhere.",
      "'Exactly d later' for concrete timelines is run-time arithmetic and is not decided; scheduler arithmetic is C29/C36.",
      "ast structural rules (role inference, guard dominance, exact pipelines) + exception-identity taint + synchronous-callback hazard rules")


# rule families added during the build (DESIGN.md section 9.3); appended to the level text of the checks that run them
_DISC = ("Also decided for these operators: the discipline rules (gate state before the downstream call it gates; callback state "
         "before the subscribe that may call back; lock-protected closure state always under the lock) and scheduler forwarding / "
         "precedence at every subscribe site.")
ADDENDA = {
    "C05": _DISC + " distinct_until_changed replaces its remembered key exactly when it emits; composites are exactly their documented pipelines.",
    "C06": _DISC + " Composites are exactly their documented pipelines.",
    "C07": "The positional operators slice composes update their countdown before the downstream call it gates (re-entrant sources).",
    "C08": "Taint sources include results of the user's data-producing callbacks (key_mapper, mapper, accumulator, ...) and the opaque "
           "parameters seed / default_value / initial_value; all()/any() over element containers are sinks.",
    "C10": _DISC + " A continuation installed by a synchronously terminating source is not clobbered by a late store into the serial "
           "disposable; recorded errors decide by identity; repeat/retry choose the unbounded form by `count is None`.",
    "C11": _DISC + " An inner's (and merge_all's outer) holder is registered in the group before subscribing.",
    "C12": _DISC + " State writes of inner handlers are stale-guarded too; composites are exact pipelines.",
    "C13": _DISC + " with_latest_from subscribes the other sources before the primary.",
    "C14": "Trampoline.run empties its queue in the finally that restores idle. The explicit-scheduler clause of the property is a "
           "KNOWN FINDING of the pinned tree (H5): Observable.subscribe's deferral ignores an explicit scheduler argument.",
    "C16": _DISC + " throttle_first computes elapsed time on the scheduler's own time values (no float seconds).",
    "C17": _DISC + " take_with_time / skip_with_time arm the boundary timer before subscribing; the fallback stored by a timer is never clobbered.",
    "C18": _DISC + " window_with_time's close/open decisions are evaluated for the three orderings of (next_span, next_shift); fan-out loops "
           "deliver to their loop variable and do not mutate the collection they iterate.",
    "C19": _DISC + " Terminal fan-out iterates a snapshot of the group map and delivers to the loop variable; expiry deletes before completing; "
           "the duration is observed through take(1); every group subscription takes a reference.",
    "C24": "The connect decision of ref_count / auto_connect is taken before the subscriber is subscribed; auto_connect's per-subscriber "
           "dispose releases only that subscriber; scheduler forwarding at the subject / connectable subscriptions.",
    "C25": "The flag is set before the action runs (re-entrancy, raising action).",
    "C29": "Every clock update after construction dispatches on the clock kind (isinstance datetime) with that kind's arithmetic.",
    "C33": "The single-thread scheduler's dispose cancels its handle unconditionally.",
    "C36": "No tz relabelling (`replace(tzinfo=...)`, argument-less astimezone) anywhere in the package (embedded positive example).",
    "C37": "Source factories: explicit scheduler wins over the subscribe-time one over the default.",
    "C38": "from_marbles scheduler precedence; check_stopped tests membership in the two terminal marbles; hot() delivers to a snapshot of its subscribers.",
    "C40": "The resource is bound by identity (not truthiness); the finally-action never escapes as a value; do_* operators forward the subscriber's scheduler.",
    "C41": "run() decides by identity whether an error was recorded.",
    "C43": "Stores into state shared between sources, made by code a source thread runs, are under the combinator's lock.",
    "C04": "Functions handed to operators (ops.map(f), ops.scan(acc, seed)) count as per-element code; an accumulator given together with a seed "
           "object built once per application does not mutate its accumulation argument in place.",
    "C20": "_subscribe_core tests is_stopped and registers the observer in one locked region.",
    "C21": "A delegated broadcast (super()._on_next_core) counts as delivery for the value-before-delivery rule; atomic subscribe.",
    "C22": "Atomic subscribe (is_stopped test and registration in one locked region).",
    "C23": "Atomic subscribe (is_stopped test and registration in one locked region).",
}


_WF = ("Well-formedness of the anchor files and of every module the rules read (E12): no name bound nowhere, no local read on a path "
       "that has not assigned it, no `self.x` no class in the hierarchy defines, no closure cell indexed past 0.")
ADDENDA2 = {
    "C01": "fail() answers True exactly when it delivered.",
    "C03": "The flag an emit loop polls is written with the value that stops the loop; ScheduledItem.invoke stores the action's result unconditionally.",
    "C05": "default_comparer is exactly ==; predicate / comparer results are used by truthiness (never compared with True / False).",
    "C06": "default_sub_comparer is exactly the difference; extrema_by decides on the sign of the comparison (> 0 replaces, >= 0 collects); average's "
           "emptiness test is the element count.",
    "C07": "The spellings ops.slice / Observable.slice hand their bounds to slice_ unchanged.",
    "C10": "The sequencers default to the trampoline; + / += are concat(self, other); a scheduled step does not replace a subscription it installed.",
    "C11": "flat_map / flat_map_indexed hand a callable on by its role and anything else as the constant inner.",
    "C13": "with_latest_from tests its no-value marker by identity; reactivex.amb folds every source; each amb handler enters the race first and is gated by its own side's constant.",
    "C15": "The re-arm uses the oldest queued notification.",
    "C16": "A superseded timer changes nothing (presence flag written only by the emitting handler); the presence flag starts False; sample subscribes "
           "the source before the sampler and builds its ticker on the given scheduler; counters advance by a non-zero step.",
    "C17": "timeout's fallback defaults to throw; timeout_with_mapper advances the timer generation through one helper, under `not switched`.",
    "C18": "window_toggle's element durations are empty() on the immediate scheduler; drain-style fan-out loops run while the queue is non-empty; "
           "window_with_time_or_count advances one generation id in both rollovers, compares generations for equality and arms the first timer; "
           "group_join fans terminal notifications out over the map of window subjects.",
    "C19": "A failing user callback ends every open group before the subscriber.",
    "C20": "on_next of the observer wrappers never stops or detaches the observer.",
    "C24": "auto_connect: counter starts at 0, advances by one, connects under `count == n and not connected`, flag starts False.",
    "C25": "The winning path writes True into the flag.",
    "C26": "SerialDisposable installs the new item before disposing the old one, in one critical section; items are disposed outside a non-reentrant lock.",
    "C27": "add_ref / GroupedObservable take a dependent for every subscription, before subscribing; release marks the container disposed.",
    "C28": "advance_to leaves the clock at the target for both clock kinds and only on the normal path.",
    "C29": "The spin guard advances both clock kinds and its counter reset is not kind-specific.",
    "C30": "The trampoline goes idle in the critical section that found the queue empty; nothing resets it after a normal drain.",
    "C33": "The thread-safe schedule_relative cancels every handle it recorded.",
    "C34": "The event loop treats an item due exactly now as due (agrees with schedule_absolute).",
    "C35": "schedule* delegations forward the state; elapsed = after - before; timer(d, p) advances from the previous due time.",
    "C36": "Every schedule_absolute converts its due time with to_datetime before computing with it.",
    "C37": "Typestate of the 12 primitive sources; emit before reschedule; one result per factory; scheduler resolved by `or <default>()`; public "
           "creation functions forward every parameter; timer compares converted seconds only.",
    "C38": "int before float in the number cast; raise_stopped forwarded.",
    "C39": "No Observable subclass shadows a fluent method; fluent parameters are in the operator's positional order.",
    "C41": "run / to_async resolve and use their scheduler; from_future's cancel is decided by the presence of the future only.",
    "C43": "Calls on window subjects are under the operator's lock; Observable.lock is one re-entrant lock allocated in __init__.",
    "C44": "compose() is analysed as an operator factory; one-shot iterators consumed by reduce / list / ... count as consumed.",
}


def all_ids():
    ids = []
    with open(os.path.join(VERIF, "properties.jsonl")) as fh:
        for line in fh:
            line = line.strip()
            if line:
                ids.append(json.loads(line)["id"])
    return ids


def build():
    checks = []
    napp = []
    for pid in all_ids():
        impl = os.path.exists(os.path.join(VERIF, "sa", "props", f"{pid}.py"))
        if pid in CLAIMED and impl:
            c = CLAIMED[pid]
            checks.append({
                "property_id": pid,
                "quick_cmd": f"sh sa/run.sh {pid} quick",
                "thorough_cmd": f"sh sa/run.sh {pid} thorough",
                "evidence_file": f"evidence/{pid}.json",
                "replay_cmd_template": f"sh sa/run.sh {pid} replay {{path}}",
                "engine": "rxsa",
                "level_claimed": {"category": "other",
                                  "text": f"[{c['strength']}] " + c["text"] + ((" " + ADDENDA[pid]) if pid in ADDENDA else "") + ((" " + ADDENDA2[pid]) if pid in ADDENDA2 else "") + " " + _WF,
                                  "design_ref": f"DESIGN.md §4 {pid}"},
                "level_note": c["note"],
                "technique": "static analysis: " + c["technique"],
            })
        else:
            reason = NOT_APPLICABLE.get(pid) or (
                "no static check is registered for this property yet (technique family: static analysis); "
                "see DESIGN.md §4 for the planned clause rules")
            napp.append({"property_id": pid, "reason": reason})
    man = {
        "version": 1,
        "setup_cmd": "python3 -m compileall -q sa",
        "hooks": {
            "guard": "REACTIVEX_RXPY_VERIF",
            "enable": "none needed: the checks parse /repo's working tree and never build or run it; no hook commits",
            "baseline_off_cmd": "cd /repo && /venv/bin/python -m pytest -ra -q -p no:cacheprovider --timeout=900 "
                                "--continue-on-collection-errors",
            "source_commits": [],
            "add_only": True,
        },
        "engines": [{"name": "rxsa", "path": "sa/", "serves_properties": [c["property_id"] for c in checks],
                     "kind_free_text": "custom ast-based static analyser written for this repository (scopes, "
                                       "operator-shape model, guard/lock context walker, path enumerator, "
                                       "ownership graph); never imports or runs reactivex"}],
        "checks": checks,
        "not_applicable": napp,
        "notes": "All checks are static analyses over /repo's current source (python ast). Exit 0 held / 1 VIOLATION / "
                 "2 ANALYSIS-ERROR. Known genuine defects are listed in known_findings.json and printed as "
                 "KNOWN-FINDING lines. See DESIGN.md.",
    }
    with open(os.path.join(VERIF, "MANIFEST.json"), "w") as fh:
        json.dump(man, fh, indent=1)
    return man


if __name__ == "__main__":
    m = build()
    print(f"MANIFEST.json: {len(m['checks'])} checks, {len(m['not_applicable'])} not_applicable")
