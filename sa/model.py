"""Operator-shape model: roles and stages of functions, subscribe slots.

stage L0 factory / L1 application / L2 subscription / L3 notification.
"""
from __future__ import annotations

import ast
from dataclasses import dataclass
from typing import Dict, List, Optional, Tuple, Union

from .astutil import call_name, dotted, strip_cast, u
from .frontend import Fn, Repo, FUNC_NODES

SCHEDULE = ("schedule", "schedule_relative", "schedule_absolute", "schedule_periodic")
SLOT_KW = ("on_next", "on_error", "on_completed")
OBS_CTORS = ("Observable", "create")
DEFER = ("defer", "defer_")


@dataclass
class Target:
    """What a callable-valued expression denotes."""
    kind: str                     # 'fn' | 'bound' | 'sync' | 'none' | 'unknown'
    fn: Optional[Fn] = None       # kind == 'fn'
    obj: Optional[str] = None     # kind == 'bound': dotted receiver, e.g. 'observer'
    attr: Optional[str] = None    # kind == 'bound': method name
    lock: Optional[str] = None    # synchronized(lock)(inner)
    inner: Optional["Target"] = None
    expr: Optional[ast.AST] = None

    def describe(self) -> str:
        if self.kind == "fn":
            return self.fn.qual
        if self.kind == "bound":
            return f"{self.obj}.{self.attr}"
        if self.kind == "sync":
            return f"synchronized({self.lock})({self.inner.describe() if self.inner else '?'})"
        return self.kind


def resolve_callable(scope: Fn, e: Optional[ast.AST], depth: int = 0) -> Target:
    """Resolve an expression used as a callback to a Target."""
    if e is None:
        return Target("none")
    e = strip_cast(e)
    if isinstance(e, ast.Constant) and e.value is None:
        return Target("none", expr=e)
    if isinstance(e, ast.Lambda):
        f = scope.module.fn_of_node.get(e)
        if f is not None:
            return Target("fn", fn=f, expr=e)
    if isinstance(e, ast.Name):
        loc = scope.resolve_local_def(e.id)
        if loc is not None and loc.is_func:
            return Target("fn", fn=loc, expr=e)
        if depth < 4:
            o = scope.owner(e.id)
            if o is not None and not o.is_module:
                bs = o.binds.get(e.id, [])
                assigns = [n for k, n in bs if k == "assign" and getattr(n, "value", None) is not None]
                if len(bs) == 1 and len(assigns) == 1:
                    return resolve_callable(o, assigns[0].value, depth + 1)
        return Target("unknown", expr=e)
    if isinstance(e, ast.Attribute):
        d = dotted(e.value)
        if d is not None:
            return Target("bound", obj=d, attr=e.attr, expr=e)
    if isinstance(e, ast.Call) and isinstance(e.func, ast.Call) and call_name(e.func) == "synchronized" \
            and e.func.args and e.args:
        return Target("sync", lock=u(e.func.args[0]), inner=resolve_callable(scope, e.args[0], depth + 1), expr=e)
    return Target("unknown", expr=e)


def subscribe_slots(call: ast.Call) -> Dict[str, Optional[ast.AST]]:
    """Slot expressions of an `X.subscribe(...)` call."""
    out: Dict[str, Optional[ast.AST]] = {"on_next": None, "on_error": None, "on_completed": None}
    for i, a in enumerate(call.args[:3]):
        if isinstance(a, ast.Starred):
            break
        out[SLOT_KW[i]] = a
    for k in call.keywords:
        if k.arg in SLOT_KW:
            out[k.arg] = k.value
    return out


def is_subscribe_call(n: ast.AST) -> bool:
    return isinstance(n, ast.Call) and isinstance(n.func, ast.Attribute) and n.func.attr == "subscribe"


def is_schedule_call(n: ast.AST) -> bool:
    return isinstance(n, ast.Call) and isinstance(n.func, ast.Attribute) and n.func.attr in SCHEDULE


def schedule_action_arg(call: ast.Call) -> Optional[ast.AST]:
    nm = call.func.attr
    pos = 0 if nm == "schedule" else 1
    if nm == "schedule_periodic":
        pos = 1
    if len(call.args) > pos and not any(isinstance(a, ast.Starred) for a in call.args[: pos + 1]):
        return call.args[pos]
    for k in call.keywords:
        if k.arg == "action":
            return k.value
    return None


class Model:
    def __init__(self, repo: Repo):
        self.repo = repo
        self.role: Dict[Fn, str] = {}
        self.slot: Dict[Fn, str] = {}
        self.stage: Dict[Fn, int] = {}
        self.subscribe_sites: List[Tuple[Fn, ast.Call]] = []
        self.schedule_sites: List[Tuple[Fn, ast.Call]] = []
        self._classify()

    def _mark(self, f: Optional[Fn], role: str, slot: str = "") -> None:
        if f is None or not f.is_func:
            return
        rank = {"helper": 0, "subscribe": 2, "deferred": 2, "callback": 3, "dispose": 3, "action": 3, "handler": 3}
        if rank[role] >= rank.get(self.role.get(f, "helper"), 0):
            self.role[f] = role
            if slot:
                self.slot[f] = slot

    def _classify(self) -> None:
        for m in self.repo.modules.values():
            for f in m.root.walk():
                if f.is_func and f.name == "_subscribe_core":
                    self._mark(f, "subscribe")
                scope = f
                if f.is_class:
                    continue
                for n in f.direct_nodes():
                    if not isinstance(n, ast.Call):
                        continue
                    nm = call_name(n)
                    if nm in OBS_CTORS and n.args:
                        t = resolve_callable(scope, n.args[0])
                        if t.kind == "fn":
                            self._mark(t.fn, "subscribe")
                    elif nm in DEFER and n.args:
                        t = resolve_callable(scope, n.args[0])
                        if t.kind == "fn":
                            self._mark(t.fn, "deferred")
                    elif is_subscribe_call(n):
                        self.subscribe_sites.append((f, n))
                        for k, a in subscribe_slots(n).items():
                            t = resolve_callable(scope, a)
                            while t.kind == "sync" and t.inner is not None:
                                t = t.inner
                            if t.kind == "fn":
                                self._mark(t.fn, "handler", k)
                    elif is_schedule_call(n):
                        self.schedule_sites.append((f, n))
                        t = resolve_callable(scope, schedule_action_arg(n))
                        if t.kind == "fn":
                            self._mark(t.fn, "action")
                    elif nm == "Disposable" and n.args:
                        t = resolve_callable(scope, n.args[0])
                        if t.kind == "fn":
                            self._mark(t.fn, "dispose")
                    elif self._is_operator_call(scope, n):
                        # a local function handed to an operator (ops.map(projection), ops.scan(acc, seed), ...) runs per
                        # element of every subscription of the resulting pipeline
                        for a in list(n.args) + [k.value for k in n.keywords]:
                            t = resolve_callable(scope, a)
                            if t.kind == "fn" and t.fn is not None and not t.fn.parent.is_module and self.role.get(t.fn, "helper") == "helper":
                                self._mark(t.fn, "callback")
        # stages
        for m in self.repo.modules.values():
            for f in m.root.walk():
                self._stage(f)
        # helper promotion: a helper's stage is the max stage of its local callers
        changed = True
        rounds = 0
        while changed and rounds < 20:
            changed = False
            rounds += 1
            for m in self.repo.modules.values():
                for f in m.root.walk():
                    if not f.is_func or f.is_lambda and False:
                        continue
                    for n in f.direct_nodes():
                        if isinstance(n, ast.Call) and isinstance(n.func, ast.Name):
                            g = f.resolve_local_def(n.func.id)
                            if g is not None and g.is_func and g.module is f.module and not g.parent.is_module \
                                    and self.role.get(g, "helper") == "helper":
                                s = self.stage.get(f, 0)
                                if s > self.stage.get(g, 0):
                                    self._raise_stage(g, s)
                                    changed = True

    def _is_operator_call(self, scope: Fn, n: ast.Call) -> bool:
        f = n.func
        if isinstance(f, ast.Attribute) and isinstance(f.value, ast.Name) and f.value.id in ("ops", "operators"):
            return True
        if isinstance(f, ast.Name):
            try:
                tgt = self.repo.resolve_expr(scope, f)
            except Exception:  # noqa: BLE001
                tgt = None
            if tgt is not None and tgt.is_func and tgt.module.rel.startswith("reactivex/operators/"):
                return True
        return False

    def _raise_stage(self, g: Fn, s: int) -> None:
        self.stage[g] = s
        for c in g.descendants():
            if self.stage.get(c, 0) < s:
                self.stage[c] = s

    def _stage(self, f: Fn) -> int:
        if f in self.stage:
            return self.stage[f]
        if f.parent is None:
            self.stage[f] = -1
            return -1
        ps = self._stage(f.parent)
        if f.is_class:
            self.stage[f] = ps
            return ps
        role = self.role.get(f, "helper")
        if role in ("handler", "action", "dispose", "callback"):
            s = 3
        elif role in ("subscribe", "deferred"):
            s = 2
        elif f.parent.is_module or (f.parent.is_class and f.parent.parent.is_module):
            s = 1 if f.has_decorator("curry_flip") else 0
        else:
            s = ps
            # application function: returned by an L0 parent (def op(source): ...; return op)
            if ps == 0 and isinstance(f.node, ast.FunctionDef):
                for n in f.parent.direct_nodes():
                    if isinstance(n, ast.Return) and n.value is not None:
                        for x in ast.walk(n.value):
                            if isinstance(x, ast.Name) and x.id == f.name:
                                s = 1
        s = max(s, ps)
        self.stage[f] = s
        return s

    # -- queries ----------------------------------------------------------
    def l2_functions(self) -> List[Fn]:
        return [f for f, r in self.role.items() if r in ("subscribe",)]

    def closure_tree(self, f: Fn) -> List[Fn]:
        return list(f.walk())


_MODEL_CACHE: Dict[int, Model] = {}


def model_of(repo: Repo) -> Model:
    k = id(repo)
    if k not in _MODEL_CACHE:
        _MODEL_CACHE[k] = Model(repo)
    return _MODEL_CACHE[k]


FLOORS = {"modules": 200, "functions": 1300, "l2_functions": 100, "subscribe_sites": 120,
          "schedule_sites": 80}


def front_summary(repo: Repo) -> Dict[str, int]:
    m = model_of(repo)
    roles: Dict[str, int] = {}
    for r in m.role.values():
        roles[r] = roles.get(r, 0) + 1
    nfun = sum(1 for _ in repo.all_functions())
    out = {"modules": len(repo.modules), "functions": nfun,
           "l2_functions": roles.get("subscribe", 0), "handlers": roles.get("handler", 0),
           "actions": roles.get("action", 0), "dispose_fns": roles.get("dispose", 0),
           "deferred": roles.get("deferred", 0),
           "subscribe_sites": len(m.subscribe_sites), "schedule_sites": len(m.schedule_sites)}
    from .frontend import AnalysisError
    for k, v in FLOORS.items():
        if out[k] < v:
            raise AnalysisError(f"front end covered only {out[k]} {k} (floor {v}): the tree was not fully parsed")
    return out
