"""Run several property checks in one process over one parsed tree (no evidence written) — used by the checker's own
test tooling (tools/mutation_sweep.py), never by a registered command.

usage: python -m sa.multi [Cxx ...]      prints one line `Cxx rc=<0|1|2> <rules that fired>` per check
"""
from __future__ import annotations

import importlib
import json
import os
import sys


def run(props=None, root=None):
    from . import core, frontend
    here = os.path.dirname(os.path.dirname(os.path.abspath(__file__)))
    if props is None:
        props = [c["property_id"] for c in json.load(open(os.path.join(here, "MANIFEST.json")))["checks"]]
    out = {}
    try:
        repo = frontend.Repo(root) if root else frontend.Repo()
    except Exception as e:  # noqa: BLE001
        return {p: (2, [f"front end: {type(e).__name__}"]) for p in props}
    known = core.load_known()
    for prop in props:
        try:
            rep = core.Report(prop, "quick", repo)
            core.run_check(importlib.import_module(f"sa.props.{prop}"), repo, rep)
            un = [v for v in rep.violations if core.match_known(v, known) is None]
            out[prop] = (1 if un else 0, sorted({v.rule for v in un}))
        except Exception as e:  # noqa: BLE001
            out[prop] = (2, [f"{type(e).__name__}: {e}"[:120]])
    return out


if __name__ == "__main__":
    res = run([a for a in sys.argv[1:] if a.startswith("C")] or None)
    for p, (rc, rules) in res.items():
        print(f"{p} rc={rc} {','.join(rules)}")
    sys.exit(max(rc for rc, _ in res.values()))
