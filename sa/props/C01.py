"""C01 — every subscriber sees a well-formed notification sequence (S3).

The grammar for *any* pipeline reduces to local facts about the wrapper that
`Observable.subscribe` interposes and about the `Observer` base class:
R1 wrap, R2 no bypass (who-may-call), R3 guarded entry points (guard dominance
+ flag-before-callback ordering), R4 fail() on subscribe-time exceptions,
R5 subclass overrides keep the guard.
"""
from __future__ import annotations

import ast

from ..astutil import call_name, dotted, u, short
from ..ctx import sites, dominates
from ..frontend import Repo
from ..core import Report
from ..rules import has_guard, assigns_to, assigned_const, self_attr_stores_from_params

OBS = "reactivex/observable/observable.py"
ADO = "reactivex/observer/autodetachobserver.py"
OBR = "reactivex/observer/observer.py"
SLOTS = ("on_next", "on_error", "on_completed")
CORE = {"_on_next_core": "on_next", "_on_error_core": "on_error", "_on_completed_core": "on_completed"}


def _entry_rules(rep: Report, cls, cb_attrs: dict, flag: str = "self.is_stopped") -> None:
    """R3 on one class.  cb_attrs: attr -> slot ('on_next'...)."""
    deliver = dict(cb_attrs)
    deliver.update(CORE)
    for mname, slot in (("on_next", "on_next"), ("on_error", "on_error"),
                        ("on_completed", "on_completed"), ("fail", "on_error")):
        m = cls.child(mname)
        if m is None:
            rep.require(mname == "fail", f"{cls.ref}.{mname}")
            continue
        flag_sets = [s for s in assigns_to(m, flag) if assigned_const(s, True)]
        n_deliv = 0
        # deliveries: `self._on_x(...)` in the entry point itself, or -- when entry points share a helper that is handed the callback
        # (`self._terminate(self._on_error, error)`) -- the helper's call of that parameter, judged in the helper's own context
        found = [(s, s.node.func.attr, m) for s in sites(m) if isinstance(s.node, ast.Call) and isinstance(s.node.func, ast.Attribute)
                 and dotted(s.node.func.value) == "self" and s.node.func.attr in deliver]
        if not found:
            for s in sites(m):
                n = s.node
                if isinstance(n, ast.Call) and isinstance(n.func, ast.Attribute) and dotted(n.func.value) == "self" and n.func.attr not in deliver:
                    hlp = cls.child(n.func.attr)
                    from ..astutil import handed_callback
                    idx = next((i for i, a in enumerate(n.args) if handed_callback(a, deliver)), None)
                    if hlp is not None and hlp.is_func and idx is not None and len(hlp.params) > idx + 1 and not s.ctx.guards:
                        pname = hlp.params[idx + 1]
                        found += [(x, handed_callback(n.args[idx], deliver), hlp) for x in sites(hlp) if isinstance(x.node, ast.Call) and isinstance(x.node.func, ast.Name)
                                  and x.node.func.id == pname]
        for s, attr_, own in found:
            n = s.node
            if own is not m:
                flag_sets = [x for x in assigns_to(own, flag) if assigned_const(x, True)]
            n_deliv += 1
            c = f"{mname}: {short(n)}" + ("" if own is m else f" (in {own.name}, handed self.{attr_})")
            rep.ob("R3-guard", m, c, has_guard(s.ctx, flag, False),
                   f"delivery `{short(n)}` is not dominated by `not {flag}`: a notification after the terminal "
                   f"one (or after dispose) would reach the subscriber")
            rep.ob("R3-kind", m, c, deliver[attr_] == slot,
                   f"`{mname}` delivers through `{attr_}` (slot {deliver[attr_]}), not its own kind")
            if slot != "on_next":
                ok = any(dominates(fs, s) for fs in flag_sets)
                rep.ob("R3-flag-first", m, c, ok,
                       f"`{flag} = True` does not precede the terminal delivery on every path: a re-entrant "
                       f"emission from inside the callback (or a second terminal) would be delivered")
        if mname != "fail":
            rep.ob("R3-kind", m, f"{mname}: delivers through its core", n_deliv > 0,
                   f"`{cls.name}.{mname}` delivers nothing: every {slot} notification is dropped")
        else:
            deliv = [s for s in sites(m) if isinstance(s.node, ast.Call) and isinstance(s.node.func, ast.Attribute)
                     and dotted(s.node.func.value) == "self" and s.node.func.attr in deliver]
            for r in sites(m):
                if isinstance(r.node, ast.Return) and isinstance(r.node.value, ast.Constant) and r.node.value.value is True:
                    rep.ob("R3-kind", m, "fail: reports the error as delivered only after delivering it", any(dominates(d_, r) for d_ in deliv),
                           f"`{cls.name}.fail` returns True (\"delivered\") on a path on which it delivers nothing: the exception is swallowed — "
                           f"the subscriber never sees it and the caller does not re-raise it")
    fl = cls.child("fail")
    if fl is not None:
        tests = [s for s in sites(fl) if isinstance(s.node, ast.If) and any(u(x) == flag for x in ast.walk(s.node.test))]
        early = [s for s in sites(fl) if tests and s.index < tests[0].index and (
            (isinstance(s.node, ast.Call) and dotted(s.node.func) in ("self.dispose",)) or
            (isinstance(s.node, ast.Assign) and any(u(t) == flag for t in s.node.targets)))]
        rep.ob("R3-guard", fl, "fail(): nothing stops the observer before its is_stopped test", bool(tests) and not early,
               "fail() marks the observer stopped (dispose() / is_stopped = True) before testing is_stopped: it then always reports "
               "'already stopped', Observable.subscribe re-raises, and a subscribe-time exception is never delivered as on_error")
        # fail() answers True exactly when it delivered the exception (Observable.subscribe re-raises on False)
        from ..rules import has_guard as _hg
        for r_ in [s for s in sites(fl) if isinstance(s.node, ast.Return) and isinstance(s.node.value, ast.Constant)]:
            stopped = _hg(r_.ctx, flag, True)
            live = _hg(r_.ctx, flag, False)
            want = False if stopped else True if live else None
            rep.ob("R3-guard", fl, f"fail(): `return {r_.node.value.value}` on the {'stopped' if stopped else 'live' if live else '?'} path",
                   want is not None and r_.node.value.value is want,
                   "fail() answers the wrong way round: True means 'delivered as on_error', False 'the observer had already stopped' — "
                   "Observable.subscribe re-raises on False, so a delivered subscribe-time exception would also propagate to the caller "
                   "(or an undelivered one would be swallowed)")
    d = cls.child("dispose")
    rep.require(d is not None, f"{cls.ref}.dispose")
    ok = any(assigned_const(s, True) and not s.ctx.branch and not s.ctx.tries for s in assigns_to(d, flag))
    rep.ob("R3-dispose-stops", d, "dispose", ok,
           f"dispose() does not unconditionally set `{flag} = True`: notifications after unsubscribe would be delivered")


def check(repo: Repo, rep: Report) -> None:
    rep.explanation = (
        "C01 decided structurally: the user's callbacks are only ever invoked through the AutoDetachObserver that "
        "Observable.subscribe interposes; its entry points (and those of the Observer base class used by subjects / "
        "scheduled observers) are dominated by the is_stopped guard, terminal entry points set the flag before the "
        "callback, dispose sets it, subscribe-time exceptions go through fail(); no code path bypasses the wrapper "
        "(who-may-call on _subscribe_core, no override of Observable.subscribe, Observer subclasses reach *_core only "
        "through super().on_*).")
    rep.assumptions += [
        "single-threaded delivery per subscriber (is_stopped is not atomic; multi-threaded grammar is C43)",
        "callbacks stored by __init__ are only invoked through the attributes they were stored in",
    ]
    rep.rule("R1-wrap", "Observable.subscribe passes the AutoDetachObserver built from the caller's callbacks to "
                        "_subscribe_core, stores the returned subscription in it and returns a disposable bound to "
                        "the wrapper's dispose", floor=4)
    rep.rule("R2-who-may-call", "_subscribe_core is called only from Observable.subscribe; no class overrides "
                                "Observable.subscribe", floor=8)
    rep.rule("R3-guard", "every delivery in on_next/on_error/on_completed/fail is dominated by `not is_stopped`", floor=8)
    rep.rule("R3-kind", "each entry point delivers its own notification kind", floor=8)
    rep.rule("R3-flag-first", "terminal entry points set is_stopped before delivering", floor=5)
    rep.rule("R3-dispose-stops", "dispose() sets is_stopped unconditionally", floor=2)
    rep.rule("R4-fail", "subscribe-time exceptions are routed to fail(ex) and re-raised only if fail returns false", floor=3)
    rep.rule("R5-override", "Observer-subclass overrides of on_* deliver only via super().on_* (guard kept); "
                            "*_core methods are called only from the guarded entry points", floor=6)

    # ---- R3 ---------------------------------------------------------------
    ado = repo.fn(ADO, "AutoDetachObserver")
    init = repo.fn(ADO, "AutoDetachObserver.__init__")
    stores = self_attr_stores_from_params(init)
    cb = {}
    for attr, ps in stores.items():
        for sl in SLOTS:
            if sl in ps:
                cb[attr] = sl
    rep.require(len(cb) == 3, f"three callback attributes in AutoDetachObserver.__init__ (found {cb})")
    _entry_rules(rep, ado, cb)

    obr = repo.fn(OBR, "Observer")
    stores = self_attr_stores_from_params(repo.fn(OBR, "Observer.__init__"))
    cb2 = {}
    for attr, ps in stores.items():
        for sl in SLOTS:
            if sl in ps:
                cb2[attr] = sl
    rep.require(len(cb2) == 3, f"three handler attributes in Observer.__init__ (found {cb2})")
    _entry_rules(rep, obr, cb2)
    # the handlers are invoked only by the *_core methods of their own kind
    for m in obr.children:
        if not m.is_func:
            continue
        for s in sites(m):
            n = s.node
            if isinstance(n, ast.Call) and isinstance(n.func, ast.Attribute) and dotted(n.func.value) == "self" \
                    and n.func.attr in cb2:
                ok = m.name in CORE and CORE[m.name] == cb2[n.func.attr] or m.name in SLOTS or m.name == "fail"
                rep.ob("R5-override", m, short(n), ok,
                       f"stored handler `{n.func.attr}` is invoked from `{m.name}`, outside the guarded entry points")

    # ---- R1 ---------------------------------------------------------------
    sub = repo.fn(OBS, "Observable.subscribe")
    wrappers = set()
    for s in sites(sub):
        n = s.node
        if isinstance(n, (ast.Assign, ast.AnnAssign)) and isinstance(n.value, ast.Call) \
                and call_name(n.value) == "AutoDetachObserver":
            t = n.targets[0] if isinstance(n, ast.Assign) else n.target
            if isinstance(t, ast.Name):
                wrappers.add(t.id)
                got = {}
                for i, a in enumerate(n.value.args[:3]):
                    got[SLOTS[i]] = u(a)
                for k in n.value.keywords:
                    if k.arg:
                        got[k.arg] = u(k.value)
                rep.ob("R1-wrap", sub, short(n.value), all(got.get(sl) == sl for sl in SLOTS),
                       f"the wrapper's slots are not the subscriber's callbacks of the same kind: {got}")
    # an observer OBJECT passed as the first argument is unpacked into its three methods: recognised by type OR by shape
    from ..rules import effective_test as _eft
    unpack = [n for n in sub.direct_nodes() if isinstance(n, ast.If) and any(isinstance(x, ast.Call) and call_name(x) == "isinstance" for x in ast.walk(_eft(sub, n.test)))
              and any(isinstance(y, ast.Assign) and isinstance(y.value, ast.Attribute) and y.value.attr == "on_completed" for y in ast.walk(n))]
    oku = False
    if len(unpack) == 1:
        t_ = _eft(sub, unpack[0].test)
        alts = t_.values if isinstance(t_, ast.BoolOp) and isinstance(t_.op, ast.Or) else [t_]
        by_type = any(isinstance(a, ast.Call) and call_name(a) == "isinstance" and "ObserverBase" in u(a) for a in alts)
        by_shape = any("hasattr" in u(a) and "on_next" in u(a) for a in alts if not (isinstance(a, ast.Call) and call_name(a) == "isinstance"))
        oku = by_type and (by_shape or len(alts) == 1)
        got_ = {u(y.targets[0]): y.value.attr for y in ast.walk(unpack[0]) if isinstance(y, ast.Assign) and isinstance(y.value, ast.Attribute)}
        oku = oku and all(got_.get(sl) == sl for sl in SLOTS)
    rep.ob("R1-wrap", sub, "an observer object (by type, or by shape) is unpacked into on_next / on_error / on_completed of the same kind", oku,
           "Observable.subscribe does not unpack an observer object into its three methods (each to the slot of its kind) when it is an "
           "ObserverBase or at least has a callable on_next: the object itself is then called as the on_next callback and its error / "
           "completion handlers are never reached")
    rep.require(len(wrappers) == 1, "exactly one AutoDetachObserver construction in Observable.subscribe")
    w = next(iter(wrappers))
    core_calls = []
    for f in sub.walk():
        if not f.is_func:
            continue
        for s in sites(f):
            if isinstance(s.node, ast.Call) and call_name(s.node) == "_subscribe_core":
                core_calls.append((f, s))
    rep.require(core_calls, "call of _subscribe_core inside Observable.subscribe")
    for f, s in core_calls:
        a0 = s.node.args[0] if s.node.args else None
        rep.ob("R1-wrap", f, short(s.node), isinstance(a0, ast.Name) and a0.id == w and f.owner(w) is sub,
               f"_subscribe_core receives `{u(a0)}` instead of the AutoDetachObserver `{w}`: the subscriber's raw "
               f"callbacks would be exposed to the source without the grammar guard")
        # the result must flow into <w>.subscription
        res_names = set()
        st = s.stmt
        if isinstance(st, (ast.Assign, ast.AnnAssign)):
            t = st.targets[0] if isinstance(st, ast.Assign) else st.target
            if isinstance(t, ast.Name):
                res_names.add(t.id)
        stored = False
        for s2 in sites(f):
            n2 = s2.node
            if isinstance(n2, ast.Assign) and any(u(t) == f"{w}.subscription" for t in n2.targets):
                used = {x.id for x in ast.walk(n2.value) if isinstance(x, ast.Name)}
                if used & res_names or any(isinstance(x, ast.Call) and call_name(x) == "_subscribe_core"
                                           for x in ast.walk(n2.value)):
                    stored = True
        rep.ob("R1-wrap", f, f"{w}.subscription = <result of _subscribe_core>", stored,
               "the subscription returned by _subscribe_core is not stored in the wrapper: terminal notifications "
               "and dispose() could not release it")
    rets = [s for s in sites(sub) if isinstance(s.node, ast.Return)]
    rep.require(rets, "return in Observable.subscribe")
    for s in rets:
        v = s.node.value
        ok = isinstance(v, ast.Call) and call_name(v) == "Disposable" and len(v.args) == 1 and u(v.args[0]) == f"{w}.dispose"
        rep.ob("R1-wrap", sub, short(s.node), ok,
               f"Observable.subscribe does not return Disposable({w}.dispose): unsubscribing would not stop the wrapper")
    # raw callbacks must not escape into nested functions of subscribe (other than building the wrapper)
    for f in sub.descendants():
        if not f.is_func:
            continue
        used = {n.id for n in f.all_nodes() if isinstance(n, ast.Name)} & set(SLOTS)
        used = {x for x in used if f.owner(x) is sub}
        rep.ob("R1-wrap", f, "raw callbacks not captured", not used,
               f"nested function captures the raw callbacks {sorted(used)} of the subscriber")

    # ---- R4 ---------------------------------------------------------------
    for f, s in core_calls:
        trys = [t for t in s.ctx.tries if any(_catches_exception(h) for h in t.handlers)]
        rep.ob("R4-fail", f, "try around _subscribe_core", bool(trys),
               "_subscribe_core is not inside a try that catches Exception: a subscribe-time failure would escape "
               "instead of becoming on_error")
        for t in trys[-1:]:
            for h in t.handlers:
                if not _catches_exception(h):
                    continue
                fails = [x for x in ast.walk(h) if isinstance(x, ast.Call) and call_name(x) == "fail"
                         and dotted(x.func.value) == w]
                rep.ob("R4-fail", f, "handler calls fail(ex)", bool(fails) and all(
                    fl.args and isinstance(fl.args[0], ast.Name) and fl.args[0].id == h.name for fl in fails),
                       "the handler does not pass the caught exception to the wrapper's fail()")
                # every raise in the handler must be guarded by `not fail(...)`
                from ..ctx import _Walker, Ctx
                wk = _Walker(f)
                wk.block(h.body, Ctx())
                raises = [x for x in wk.out if isinstance(x.node, ast.Raise)]
                ok = True
                for r in raises:
                    g = [e for e, p in r.ctx.guards if isinstance(e, ast.Call) and call_name(e) == "fail" and not p]
                    ok = ok and bool(g)
                swallow_all = not raises
                rep.ob("R4-fail", f, "re-raise only when fail() returned false", ok and not swallow_all,
                       "the handler re-raises unconditionally (double delivery: on_error and an exception) or "
                       "swallows the exception even when the observer was already stopped")

    # ---- R2 ---------------------------------------------------------------
    impls = [f for f in repo.all_functions() if f.name == "_subscribe_core" and f.parent.is_class]
    rep.require(len(impls) >= 6, f"_subscribe_core implementations (found {len(impls)})")
    for f in repo.all_functions():
        for n in f.direct_nodes():
            if isinstance(n, ast.Call) and call_name(n) == "_subscribe_core":
                ok = f is sub or sub.is_ancestor_of(f)
                rep.ob("R2-who-may-call", f, short(n), ok,
                       "_subscribe_core is called outside Observable.subscribe: the AutoDetachObserver wrapper is bypassed")
            if isinstance(n, ast.Attribute) and n.attr == "_subscribe_core" and not isinstance(
                    f.module.parents.get(n), ast.Call):
                ok = f is sub or sub.is_ancestor_of(f)
                rep.ob("R2-who-may-call", f, short(n), ok, "_subscribe_core escapes as a value")
    obs_cls = repo.fn(OBS, "Observable")
    for k in repo.subclasses(obs_cls):
        m = k.child("subscribe")
        rep.ob("R2-who-may-call", k, "no override of subscribe", m is None,
               f"{k.ref} overrides Observable.subscribe: its subscribers are not wrapped")
    for im in impls:
        rep.ob("R2-who-may-call", im, "implementation registered", True, nontrivial=False)

    # ---- R5 ---------------------------------------------------------------
    for k in repo.subclasses(obr):
        for m in k.children:
            if not m.is_func:
                continue
            if m.name in SLOTS:
                for s in sites(m):
                    n = s.node
                    if not (isinstance(n, ast.Call) and isinstance(n.func, ast.Attribute)):
                        continue
                    a = n.func.attr
                    recv = dotted(n.func.value)
                    if a in SLOTS or a in CORE or a in cb2:
                        ok = recv == "super()" and a == m.name
                        rep.ob("R5-override", m, short(n), ok,
                               f"override `{k.name}.{m.name}` delivers through `{short(n)}` instead of "
                               f"super().{m.name}(...): the is_stopped guard of Observer is bypassed")
            elif m.name in CORE:
                # overriding a core method is fine; calling another core kind via self is not
                for s in sites(m):
                    n = s.node
                    if isinstance(n, ast.Call) and isinstance(n.func, ast.Attribute) and n.func.attr in CORE \
                            and dotted(n.func.value) == "self":
                        rep.ob("R5-override", m, short(n), False,
                               f"`{m.name}` calls `{n.func.attr}` directly (unguarded delivery)")
            else:
                for s in sites(m):
                    n = s.node
                    if isinstance(n, ast.Call) and isinstance(n.func, ast.Attribute) and dotted(n.func.value) == "self" \
                            and (n.func.attr in CORE or n.func.attr in cb2):
                        rep.ob("R5-override", m, short(n), False,
                               f"`{k.name}.{m.name}` calls `{n.func.attr}` outside the guarded entry points")
        for m in k.children:
            if m.is_func and m.name in CORE:
                rep.ob("R5-override", m, f"{k.name}.{m.name} reached only via guarded entry", True, nontrivial=True)


def _catches_exception(h: ast.ExceptHandler) -> bool:
    if h.type is None:
        return True
    names = [u(h.type)] if not isinstance(h.type, ast.Tuple) else [u(e) for e in h.type.elts]
    return any(n in ("Exception", "BaseException") for n in names)
