"""C02 — termination releases every source subscription (S2)."""
from __future__ import annotations

from ..core import Report
from ..frontend import Repo
from .common_own import rule_ownership, rule_wrapper_release, rule_refcount_outputs, rule_refcount_not_self_held


def check(repo: Repo, rep: Report) -> None:
    rep.explanation = (
        "C02 as an ownership discipline: (a) the AutoDetachObserver disposes the stored source subscription after "
        "every terminal notification on every path (finally), (b) every subscription / scheduled item / ref-count "
        "dependent acquired anywhere in a subscribe function's closure tree is reachable by held-by edges from the "
        "disposable the function returns (so disposing the wrapper's subscription releases it), (c) every group / "
        "window observable handed downstream is tied to the returned RefCountDisposable. The conjunction is the "
        "standard argument that no source subscription outlives termination.")
    rep.assumptions += [
        "held-by edges are flow-insensitive over the closure tree: an acquisition that is held on one path and dropped "
        "on another is not detected",
        "run-time behaviour of the disposable containers themselves is C25–C27's subject",
        "results of unknown calls (add_ref, GroupedObservable, user functions) are assumed to hold their arguments",
    ]
    rule_wrapper_release(repo, rep)
    rule_ownership(repo, rep)
    rule_refcount_outputs(repo, rep)
    rule_refcount_not_self_held(repo, rep)
