"""C03 — unsubscribing silences the subscriber and frees its sources (S2)."""
from __future__ import annotations

import ast

from ..astutil import call_name, dotted, short, u
from ..core import Report
from ..ctx import sites
from ..engines.ownership import Ownership
from ..frontend import Repo
from ..model import model_of
from .common_own import rule_ownership, rule_wrapper_release, rule_invoke_guard

OBS = "reactivex/observable/observable.py"
ADO = "reactivex/observer/autodetachobserver.py"


def rule_producer_poll(repo: Repo, rep: Report, rid: str = "E8-producer-poll") -> None:
    rep.rule(rid, "a loop inside a scheduled action / subscribe body that emits downstream re-checks, on every "
                  "iteration, a flag written by a function wrapped in a Disposable held by the returned disposable "
                  "(or the action emits once and re-schedules itself through a held container: covered by E7)", floor=1)
    m = model_of(repo)
    for f in sorted(m.l2_functions(), key=lambda f: f.ref):
        if not f.module.rel.startswith(("reactivex/observable/", "reactivex/operators/", "reactivex/__init__.py")):
            continue
        obs = f.params[0] if f.params else None
        if obs is None:
            continue
        own = None
        for g in f.walk():
            if not g.is_func or m.role.get(g) not in ("action", "subscribe"):
                continue
            for n in g.direct_nodes():
                if not isinstance(n, (ast.While, ast.For)):
                    continue
                emits = [x for x in ast.walk(n) if isinstance(x, ast.Call) and dotted(x.func) == f"{obs}.on_next"]
                if not emits or g.owner(obs) is not f:
                    continue
                # candidate flags: names read in the loop test, or in tests of exits inside the body
                cands = set()
                want = {}      # flag -> truthiness the dispose function must write for the loop to stop
                from ..astutil import atoms as _atoms
                if isinstance(n, ast.While):
                    cands |= {x.id for x in ast.walk(n.test) if isinstance(x, ast.Name)}
                    for e_, p_ in _atoms(n.test, True):
                        if isinstance(e_, ast.Name):
                            want[e_.id] = not p_
                for x in ast.walk(n):
                    if isinstance(x, ast.If) and any(isinstance(y, (ast.Break, ast.Return)) for y in ast.walk(x)):
                        cands |= {y.id for y in ast.walk(x.test) if isinstance(y, ast.Name)}
                        for e_, p_ in _atoms(x.test, True):
                            if isinstance(e_, ast.Name):
                                want.setdefault(e_.id, p_)
                ok = False
                why = "no cancellation flag is tested by the loop"
                for v in sorted(cands):
                    o = g.owner(v)
                    if o is None or o.is_module:
                        continue
                    for h in f.walk():
                        if not h.is_func or m.role.get(h) != "dispose":
                            continue
                        writes = False
                        for y in h.direct_nodes():
                            if isinstance(y, (ast.Assign, ast.AugAssign)):
                                tg = y.targets if isinstance(y, ast.Assign) else [y.target]
                                for t in tg:
                                    base = t.value if isinstance(t, ast.Subscript) else t
                                    if isinstance(base, ast.Name) and base.id == v and h.owner(v) is o:
                                        val_ = y.value
                                        if v in want and isinstance(val_, ast.Constant) and bool(val_.value) != want[v]:
                                            why = (f"{h.qual} writes `{short(y)}`, which does not stop a loop that runs while "
                                                   f"`{'not ' if want[v] else ''}{v}`")
                                            continue
                                        writes = True
                        if not writes:
                            continue
                        own = own or Ownership(m, f)
                        # the Disposable(h) construction must be held by RET
                        held = False
                        for g2 in own.tree:
                            for c in g2.direct_nodes():
                                if isinstance(c, ast.Call) and call_name(c) == "Disposable" and c.args \
                                        and isinstance(c.args[0], ast.Name) and g2.resolve_local_def(c.args[0].id) is h:
                                    nid = own.call_nodes.get(id(c))
                                    if nid is not None and own.reaches_ret(nid):
                                        held = True
                        if held:
                            ok = True
                        else:
                            why = f"flag `{v}` is written by {h.qual}, but Disposable({h.name}) is not held by the returned disposable"
                rep.ob(rid, g, f"loop emitting {short(emits[0])}", ok,
                       f"synchronous emit loop cannot be cancelled: {why}; dispose() during the loop (e.g. by take) "
                       f"would not stop the producer")


def check(repo: Repo, rep: Report) -> None:
    rep.explanation = (
        "C03 as a discipline: (a) the disposable returned by Observable.subscribe is bound to the wrapper's dispose, "
        "which sets is_stopped (silencing all three entry points, see C01) and disposes the stored source subscription; "
        "(b) every acquisition in every subscribe function is held by the returned disposable (E7), so that one "
        "dispose reaches all of them; (c) every scheduler run loop tests is_cancelled() before invoke() and cancel "
        "disposes the item's disposable; (d) synchronous emit loops poll a flag set through the returned disposable. "
        "Not decided: callbacks already on the stack when dispose() is called.")
    rep.assumptions += [
        "flow-insensitive held-by edges; container semantics are C26's subject",
        "single thread or virtual time, as the property states",
    ]
    rep.rule("D1-returned-disposable", "Observable.subscribe returns Disposable(<wrapper>.dispose); the wrapper's dispose "
                                       "sets is_stopped unconditionally", floor=2)
    sub = repo.fn(OBS, "Observable.subscribe")
    wr = None
    for s in sites(sub):
        n = s.node
        if isinstance(n, (ast.Assign, ast.AnnAssign)) and isinstance(n.value, ast.Call) \
                and call_name(n.value) == "AutoDetachObserver":
            t = n.targets[0] if isinstance(n, ast.Assign) else n.target
            wr = u(t)
    rep.require(wr, "AutoDetachObserver construction in Observable.subscribe")
    for s in sites(sub):
        if isinstance(s.node, ast.Return):
            v = s.node.value
            ok = isinstance(v, ast.Call) and call_name(v) == "Disposable" and len(v.args) == 1 and u(v.args[0]) == f"{wr}.dispose"
            rep.ob("D1-returned-disposable", sub, short(s.node), ok,
                   "the disposable handed to the subscriber is not bound to the wrapper's dispose")
    d = repo.fn(ADO, "AutoDetachObserver.dispose")
    ok = any(isinstance(s.node, ast.Assign) and any(u(t) == "self.is_stopped" for t in s.node.targets)
             and isinstance(s.node.value, ast.Constant) and s.node.value.value is True and not s.ctx.branch
             for s in sites(d))
    rep.ob("D1-returned-disposable", d, "self.is_stopped = True", ok,
           "dispose() does not silence the wrapper: notifications after unsubscribe reach the subscriber")
    rule_wrapper_release(repo, rep)
    rule_ownership(repo, rep)
    rule_invoke_guard(repo, rep)
    rule_producer_poll(repo, rep)
