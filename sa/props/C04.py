"""C04 — cold observables can be subscribed again with identical results (S3)."""
from __future__ import annotations

from ..core import Report
from ..engines.staging import Staging
from ..frontend import Repo
from ..model import model_of

SCOPE = ("reactivex/operators/", "reactivex/observable/", "reactivex/__init__.py", "reactivex/internal/utils.py")
SKIP = ("reactivex/observable/mixins/",)

# exempt by the property's own statement (one symbol + reason each)
EXEMPT = {
    "reactivex/observable/marbles.py::hot": "hot observable by design (emits on its own schedule, shared observers)",
    "reactivex/observable/toasync.py::to_async_": "hot by design: starts the function when called, result multicast through an AsyncSubject",
    "reactivex/operators/_tofuture.py::to_future_": "subscribes at application time: its application body *is* the subscription",
    "reactivex/operators/connectable/_refcount.py::ref_count_": "multicasting operator (excluded by the property)",
    "reactivex/operators/_publish.py::publish_": "multicasting operator (excluded by the property)",
    "reactivex/operators/_publish.py::share_": "multicasting operator (excluded by the property)",
    "reactivex/operators/_replay.py::replay_": "multicasting operator (excluded by the property)",
    "reactivex/operators/_publishvalue.py::publish_value_": "multicasting operator (excluded by the property)",
    "reactivex/operators/_multicast.py::multicast_": "multicasting operator (excluded by the property)",
    "reactivex/operators/_partition.py::partition_": "built on publish + ref_count by design (two outputs share one source subscription)",
    "reactivex/operators/_partition.py::partition_indexed_": "built on publish + ref_count by design",
}
MULTICAST_OPS = {"share", "publish", "replay", "ref_count", "multicast", "publish_value", "auto_connect",
                 "share_", "publish_", "replay_", "ref_count_", "multicast_", "publish_value_", "auto_connect_"}


def top_level(S):
    t = S
    while t.parent is not None and not t.parent.is_module:
        t = t.parent
    return t


def check(repo: Repo, rep: Report) -> None:
    rep.explanation = (
        "E1 staging analysis: every function scope of every operator / source factory is assigned a stage "
        "(L0 factory, L1 application, L2 subscription, L3 notification). A binding created at L0/L1 must not be "
        "mutated (nonlocal rebinding, subscript/attribute store, del, mutating method on a mutable value) at stage "
        ">= L2, and a one-shot iterator (iter(), generator, map/filter/zip/..., itertools.*) created at L0/L1 must "
        "not be advanced at stage >= L2, directly or by handing it to a parameter that some callee advances per "
        "subscription (interprocedural summary over the resolved call graph). Exactly the class of state the "
        "property names (indices, budgets, iterators over argument lists, fallback sequences).")
    rep.assumptions += [
        "state hidden inside user callbacks or user-supplied iterables is outside the statement",
        "infinite generators whose values are discarded (for _ in gen) carry no observable state",
        "rebinding a parameter to an idempotent normalisation of itself (to_timedelta / to_seconds / to_datetime) "
        "is not state",
    ]
    rep.rule("E1-no-early-state", "no binding allocated at L0/L1 is mutated or (if one-shot) consumed at stage >= L2", floor=400)
    rep.rule("E1-no-internal-multicast", "cold (non-multicast) operators do not share a source or timer between their "
                                         "subscriptions through share/publish/replay/ref_count/multicast", floor=100)
    m = model_of(repo)
    st = Staging(repo, m)
    import ast as _ast
    from ..astutil import call_name as _cn, short as _short
    for mod in repo.modules.values():
        if not mod.rel.startswith(SCOPE) or mod.rel.startswith(SKIP) or mod.rel == "reactivex/operators/__init__.py" \
                or mod.rel == "reactivex/__init__.py":
            continue
        for S in mod.root.children:
            if not S.is_func:
                continue
            uses = [n for n in S.all_nodes() if isinstance(n, _ast.Call) and _cn(n) in MULTICAST_OPS
                    and not (isinstance(n.func, _ast.Attribute) and n.func.attr in ("replay",) and False)]
            if S.ref in EXEMPT:
                rep.ob("E1-no-internal-multicast", S, f"exempt: {EXEMPT[S.ref]}", True, nontrivial=False)
                continue
            for n in uses:
                rep.ob("E1-no-internal-multicast", S, _short(n), False,
                       f"`{_short(n)}` inside the cold operator {S.qual}: subscriptions of one observable share the "
                       f"multicast source/timer, so an overlapping or later subscription does not start fresh")
            rep.ob("E1-no-internal-multicast", S, f"{S.qual}: {len(uses)} multicast calls", True, nontrivial=False)
    n_scopes = n_bind = 0
    exempt_hit = set()
    for mod in repo.modules.values():
        if not mod.rel.startswith(SCOPE) or mod.rel.startswith(SKIP):
            continue
        for S in mod.root.walk():
            if not S.is_func:
                continue
            p, in_class = S, False
            while p is not None:
                if p.is_class:
                    in_class = True
                p = p.parent
            if in_class or m.stage.get(S, 0) > 1:
                continue
            findings, nb = st.analyse_scope(S, 2)
            n_scopes += 1
            n_bind += nb
            tl = top_level(S).ref
            if tl in EXEMPT:
                exempt_hit.add(tl)
                rep.ob("E1-no-early-state", S, f"exempt: {EXEMPT[tl]}", True, nontrivial=False)
                continue
            seen = set()
            for f in findings:
                if f.construct in seen:
                    continue
                seen.add(f.construct)
                rep.ob("E1-no-early-state", S, f.construct, False,
                       f"`{f.name}` ({f.alloc}) is allocated at stage L{f.alloc_stage} in {S.qual} but {f.how} at stage "
                       f"L{f.use_stage} in {f.user.qual}: the state is shared by all subscriptions of one observable, "
                       f"so a second subscription does not start fresh")
            rep.ob("E1-no-early-state", S, f"{nb} bindings of {S.qual}", True, nontrivial=nb > 0)
    # seeds are shared, accumulators must not update them in place
    rep.rule("E1-pure-accumulator", "an accumulator handed to scan / reduce together with a seed *object* built once per application "
                                    "does not mutate its accumulation argument in place", floor=1)
    from ..model import resolve_callable as _rc
    from ..engines.staging import MUT_METHODS as _MUT
    n_acc = 0
    for mod in repo.modules.values():
        if not mod.rel.startswith(SCOPE) or mod.rel.startswith(SKIP):
            continue
        for S in mod.root.walk():
            if not S.is_func or m.stage.get(S, 0) > 1:
                continue
            for n in S.direct_nodes():
                if not (isinstance(n, _ast.Call) and _cn(n) in ("scan", "reduce", "aggregate") and len(n.args) + len(n.keywords) >= 2):
                    continue
                acc = n.args[0] if n.args else None
                seed = n.args[1] if len(n.args) > 1 else next((k.value for k in n.keywords if k.arg == "seed"), None)
                t = _rc(S, acc) if acc is not None else None
                if t is None or t.kind != "fn" or seed is None:
                    continue
                # is the seed an object (not an immutable constant) created at this (early) stage?
                sv = seed
                if isinstance(sv, _ast.Name):
                    ks = st.alloc_kinds(S, sv.id) if S.owner(sv.id) is S else []
                    sv_nodes = [getattr(a, 'value', a) for _, _, a in ks]
                else:
                    sv_nodes = [sv]
                is_obj = any(isinstance(x, (_ast.Call, _ast.List, _ast.Dict, _ast.Set, _ast.ListComp, _ast.DictComp)) and
                             not (isinstance(x, _ast.Call) and _cn(x) in ("cast", "int", "float", "str", "tuple", "frozenset", "bool"))
                             for x in sv_nodes)
                if not is_obj:
                    continue
                n_acc += 1
                a0 = t.fn.positional_params[0] if t.fn.positional_params else None
                muts = []
                for x in t.fn.direct_nodes():
                    if isinstance(x, (_ast.Assign, _ast.AugAssign)):
                        for tg in (x.targets if isinstance(x, _ast.Assign) else [x.target]):
                            if isinstance(tg, (_ast.Attribute, _ast.Subscript)) and isinstance(tg.value, _ast.Name) and tg.value.id == a0:
                                muts.append(x)
                    if isinstance(x, _ast.Call) and isinstance(x.func, _ast.Attribute) and isinstance(x.func.value, _ast.Name) \
                            and x.func.value.id == a0 and x.func.attr in _MUT:
                        muts.append(x)
                rep.ob("E1-pure-accumulator", S, f"{S.qual}: {_short(n, 50)} -- accumulator `{t.fn.name}` leaves its seed `{_short(seed, 30)}` untouched", not muts,
                       f"the accumulator `{t.fn.name}` updates its accumulation argument in place ({[_short(x, 30) for x in muts]}), and the seed "
                       f"`{_short(seed, 30)}` is one object built when the operator is applied: every subscription starts from the totals the "
                       f"previous subscriptions left in it")
    rep.extra["accumulator_seed_pairs"] = n_acc
    rep.extra["scopes_analysed"] = n_scopes
    rep.extra["bindings_analysed"] = n_bind
    rep.extra["exemptions_applied"] = sorted(exempt_hit)
    rep.require(n_bind >= 700, f"bindings analysed ({n_bind})")
