"""C05 — element-wise operators match their list semantics (S1: skeleton only)."""
from __future__ import annotations

import ast

from ..astutil import call_name, short, u
from ..core import Report
from ..ctx import sites
from ..frontend import Repo
from ..rules import cell_name
from . import state_common as SC
from . import typestate_common as TC

OPS = [
    "reactivex/operators/_map.py::map_.subscribe",
    "reactivex/operators/_filter.py::filter_.subscribe",
    "reactivex/operators/_filter.py::filter_indexed_.subscribe",
    "reactivex/operators/_take.py::take_.subscribe",
    "reactivex/operators/_skip.py::skip_.subscribe",
    "reactivex/operators/_takewhile.py::take_while_.subscribe",
    "reactivex/operators/_takewhile.py::take_while_indexed_.subscribe",
    "reactivex/operators/_skipwhile.py::skip_while_.subscribe",
    "reactivex/operators/_distinct.py::distinct_.subscribe",
    "reactivex/operators/_distinctuntilchanged.py::distinct_until_changed_.subscribe",
    "reactivex/operators/_pairwise.py::pairwise_.subscribe",
    "reactivex/operators/_defaultifempty.py::default_if_empty_.subscribe",
    "reactivex/operators/_ignoreelements.py::ignore_elements_.subscribe",
    "reactivex/operators/_takelast.py::take_last_.subscribe",
    "reactivex/operators/_skiplast.py::skip_last_.subscribe",
    "reactivex/operators/_takelastbuffer.py::take_last_buffer_.subscribe",
    "reactivex/operators/_elementatordefault.py::element_at_or_default_.subscribe",
    "reactivex/operators/_find.py::find_value_.subscribe",
    "reactivex/operators/_materialize.py::materialize_.subscribe",
    "reactivex/operators/_dematerialize.py::dematerialize_.subscribe",
]
# composite definitions: operator -> operators it must be built from
COMPOSITES = {
    ("reactivex/operators/_pluck.py", "pluck_"): ["map"],
    ("reactivex/operators/_map.py", "map_indexed_"): ["zip_with_iterable", "starmap_indexed"],
    ("reactivex/operators/_skipwhile.py", "skip_while_indexed_"): ["map_indexed", "skip_while", "map"],
    ("reactivex/operators/_startswith.py", "start_with_"): ["concat"],
}


def check(repo: Repo, rep: Report) -> None:
    rep.explanation = (
        "The list-equality core of C05 is value-level and NOT decided. Decided is the notification skeleton of the listed "
        "operators: (1) the typestate signature of every slot — the set of downstream-call sequences each handler can "
        "produce, helpers inlined — equals the hand-confirmed reference (" + TC.LEGEND + "); (2) same termination: the "
        "source's on_error is passed through, on_completed is passed through or every one of its paths ends in a terminal "
        "call; an element handler emits at most one element per input and only completes after emitting or instead of "
        "emitting; (3) no operator of the list uses a scheduler, so every output is emitted inside the notification of "
        "the input that determines it; (4) composite operators are pipelines of the operators they are documented to be.")
    rep.assumptions += ["value-shape bugs (off-by-one counts, wrong comparison) are out of reach of this skeleton",
                        "falsy values and callback exceptions in these files are decided under C08 / C09"]
    rep.rule("K1-signature", "typestate signature of each slot equals the confirmed reference", floor=50)
    rep.rule("K2-termination", "errors pass through; completion is passed through or ends in a terminal call on every path", floor=35)
    rep.rule("K3-synchronous", "no scheduler in element-wise operators", floor=18)
    rep.rule("K4-composites", "composite operators are built from their documented components", floor=4)
    rep.rule("G1-state-before-callout", "gate state (counters / flags deciding an emission) is updated before the downstream on_next it gates", floor=4)
    rep.rule("P1-predicate-truthiness", "no result of a user predicate / comparer is compared with True / False by identity or equality (truthiness is the contract)", floor=1)
    bad_bool = []
    n_mod = 0
    for rel_, m_ in sorted(repo.modules.items()):
        if not rel_.startswith(("reactivex/operators/", "reactivex/observable/")):
            continue
        n_mod += 1
        for n_ in ast.walk(m_.tree):
            if isinstance(n_, ast.Compare) and len(n_.ops) == 1 and isinstance(n_.ops[0], (ast.Is, ast.IsNot, ast.Eq, ast.NotEq)):
                for x_ in (n_.left, n_.comparators[0]):
                    if isinstance(x_, ast.Constant) and (x_.value is True or x_.value is False):
                        bad_bool.append(f"{rel_}:{short(n_, 40)}")
    rep.ob("P1-predicate-truthiness", "reactivex/operators/_filter.py::filter_", f"{n_mod} operator / source modules: comparisons with True / False: {bad_bool or 'none'}", not bad_bool,
           f"a boolean decision is made by comparing with True / False ({'; '.join(bad_bool)}): a predicate that returns a truthy non-bool (x % 2, a "
           f"match object, `x and 'yes'`) is treated as false — filter / first / count / some select different elements from the list semantics")
    rep.rule("D2-default-equality", "the default comparer is the elements' own == and nothing else", floor=1)
    dc = repo.fn("reactivex/internal/basic.py", "default_comparer")
    cmps = [n for n in dc.all_nodes() if isinstance(n, ast.Compare)]
    prm = set(dc.params)
    ok = len(cmps) == 1 and len(cmps[0].ops) == 1 and isinstance(cmps[0].ops[0], ast.Eq) and {u(cmps[0].left), u(cmps[0].comparators[0])} == prm \
        and not [n for n in dc.all_nodes() if isinstance(n, (ast.BoolOp, ast.IfExp, ast.If))]
    rep.ob("D2-default-equality", dc, f"default_comparer: `{' ; '.join(short(n) for n in cmps) or '?'}`", ok,
           "the default comparer is not exactly `x == y`: distinct / distinct_until_changed / contains / sequence_equal disagree with list "
           "semantics for elements whose == is not implied by the extra test (an identity shortcut drops a recurring NaN object)")
    # distinct: "seen before" is decided by the comparer over every key seen so far -- never by hash / == of the keys themselves
    # (a comparer coarser than == , or unhashable keys, must work as they do for the list computation)
    rep.rule("D3-seen-by-comparer", "distinct: membership in the seen-set is decided by the comparer only (no hash(), no `in`, no set / dict of keys)", floor=2)
    dm = repo.module("reactivex/operators/_distinct.py")
    cmp_loops = 0
    for f_ in dm.root.walk():
        if not f_.is_func:
            continue
        for n_ in f_.direct_nodes():
            if isinstance(n_, ast.For) and any(isinstance(c_, ast.Call) and isinstance(c_.func, (ast.Name, ast.Attribute)) and "comparer" in u(c_.func) for c_ in ast.walk(n_)):
                cmp_loops += 1
    rep.ob("D3-seen-by-comparer", dm.root, f"{cmp_loops} loop(s) apply the comparer to every key seen so far", cmp_loops >= 1,
           "distinct no longer compares a new key with every key seen so far through the comparer")
    banned = []
    for f_ in dm.root.walk():
        if not (f_.is_func or f_.is_class):
            continue
        for n_ in (f_.direct_nodes() if f_.is_func else []):
            if isinstance(n_, ast.Call) and isinstance(n_.func, ast.Name) and n_.func.id in ("hash", "set", "dict", "frozenset"):
                banned.append((f_, n_, f"{n_.func.id}(...)"))
            elif isinstance(n_, (ast.Set, ast.SetComp, ast.Dict, ast.DictComp)):
                banned.append((f_, n_, "a set / dict"))
            elif isinstance(n_, ast.Compare) and any(isinstance(o_, (ast.In, ast.NotIn)) for o_ in n_.ops):
                banned.append((f_, n_, "an `in` test"))
    for f_, n_, what in banned:
        rep.ob("D3-seen-by-comparer", f_, f"`{short(n_, 50)}`", False,
               f"distinct uses {what} (`{short(n_, 50)}`): keys are then matched by their hash / == instead of the comparer — a comparer coarser "
               f"than == (case-insensitive, modulo) lets duplicates through, and unhashable keys turn the sequence into a TypeError")
    if not banned:
        rep.ob("D3-seen-by-comparer", dm.root, "no hash / set / dict / `in` over keys in _distinct.py", True)
    rep.rule("D1-key-iff-emitted", "distinct_until_changed: the remembered key is replaced exactly when an element is emitted", floor=1)
    for key in OPS:
        got = TC.check_operator(repo, rep, "K1-signature", key,
                                lambda k, slot: "The element-wise skeleton (what is emitted / when the sequence terminates, per "
                                                "input notification) no longer matches the list computation's.")
        rel, d = key.split("::")
        f = repo.fn(rel, d)
        src = got.get("source#0") or got.get("inner#0") or {}
        oe = src.get("on_error", "-")
        ok = oe == "pass:E" or (TC.seqs(oe) and all("E" in s or "N" in s for s in TC.normal(oe)))
        rep.ob("K2-termination", f, f"on_error = {oe}", ok, f"{f.qual}: a source error does not reach the subscriber as the same termination")
        oc = src.get("on_completed", "-")
        ok = oc == "pass:C" or (TC.normal(oc) and all(s[-1] in "CE" for s in TC.normal(oc) if s != "_") and "_" not in TC.normal(oc))
        rep.ob("K2-termination", f, f"on_completed = {oc}", ok, f"{f.qual}: source completion does not terminate the output on every path")
        on = src.get("on_next", "-")
        ok = all(s.replace("!", "").count("N") <= 1 for s in TC.seqs(on)) if TC.seqs(on) else True
        rep.ob("K2-termination", f, f"on_next = {on}", ok, f"{f.qual}: one input can produce more than one output element")
        TC.no_scheduler(rep, "K3-synchronous", f)
        SC.rule_state_before_callout(rep, "G1-state-before-callout", f)
    for (rel, name), parts in COMPOSITES.items():
        f = repo.fn(rel, name)
        used = [call_name(n) for n in f.all_nodes() if isinstance(n, ast.Call)]
        missing = [p for p in parts if p not in used]
        rep.ob("K4-composites", f, f"{name} = pipeline of {parts}", not missing,
               f"{name} is no longer built from {missing}: its definition as a composition of element-wise operators changed")

    # distinct_until_changed: role of the remembered key = the closure cell handed to the comparer
    duc = repo.fn("reactivex/operators/_distinctuntilchanged.py", "distinct_until_changed_.subscribe")
    on = duc.child("on_next")
    rep.require(on is not None, "distinct_until_changed on_next")
    keys = set()
    for s_ in sites(on):
        n_ = s_.node
        if isinstance(n_, ast.Call) and isinstance(n_.func, ast.Name) and len(n_.args) == 2:
            o = on.owner(n_.func.id)
            if o is not None and o.is_func and o is not on and o is not duc:      # a factory-level callable: the comparer
                keys |= SC.closure_cells(on, n_.args[0]) | SC.closure_cells(on, n_.args[1])
    rep.require(len(keys) == 1, "distinct_until_changed: remembered key cell")
    key = next(iter(keys))
    emits = SC.downstream_next_calls(on, duc.params[0])
    writes = [s_ for s_ in sites(on) if isinstance(s_.node, ast.Assign) and cell_name(s_.node.targets[0]) == key]
    ok = len(emits) == 1 and bool(writes) and all(w.ctx.branch == emits[0].ctx.branch for w in writes)
    rep.ob("D1-key-iff-emitted", on, "remembered key := key of the element, in the emitting branch only", ok,
           "distinct_until_changed replaces the remembered key on a path that does not emit (or emits without remembering): "
           "elements are compared with the previous *input* instead of the last *emitted* element -- with a comparer that is "
           "not transitive (tolerance) a slowly drifting sequence is never emitted")
    TC.pipelines_exact(repo, rep, "K4-composites", {
        ("reactivex/operators/_map.py", "map_indexed_"): [["zip_with_iterable", "starmap_indexed"]],
        ("reactivex/operators/_skipwhile.py", "skip_while_indexed_"): [["map_indexed", "skip_while", "map"]],
    })
