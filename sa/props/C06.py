"""C06 — aggregating operators match their reference semantics (S1: skeleton only)."""
from __future__ import annotations

import ast

from ..astutil import call_name, dotted, short, u
from ..core import Report
from ..ctx import sites
from ..frontend import Repo
from ..rules import has_guard
from . import typestate_common as TC

OPS = [
    "reactivex/operators/_minby.py::extrema_by.subscribe",
    "reactivex/operators/_toiterable.py::to_iterable_.subscribe",
    "reactivex/operators/_toset.py::to_set_.subscribe",
    "reactivex/operators/_todict.py::to_dict_.subscribe",
    "reactivex/operators/_firstordefault.py::first_or_default_async_.first_or_default_async.subscribe",
    "reactivex/operators/_lastordefault.py::last_or_default_async.subscribe",
    "reactivex/operators/_singleordefault.py::single_or_default_async_.single_or_default_async.subscribe",
    "reactivex/operators/_some.py::some_.subscribe",
    "reactivex/operators/_sequenceequal.py::sequence_equal_.sequence_equal.subscribe",
]
COMPOSITES = {
    ("reactivex/operators/_reduce.py", "reduce_"): ["scan", "last", "last_or_default"],
    ("reactivex/operators/_count.py", "count_"): ["reduce"],
    ("reactivex/operators/_sum.py", "sum_"): ["reduce"],
    ("reactivex/operators/_average.py", "average_"): ["scan", "last", "map"],
    ("reactivex/operators/_min.py", "min_"): ["min_by", "map"],
    ("reactivex/operators/_max.py", "max_"): ["max_by", "map"],
    ("reactivex/operators/_all.py", "all_"): ["filter", "some", "map"],
    ("reactivex/operators/_contains.py", "contains_"): ["filter", "some"],
    ("reactivex/operators/_isempty.py", "is_empty_"): ["some", "map"],
    ("reactivex/operators/_scan.py", "scan_"): ["map"],
    ("reactivex/operators/_first.py", "first_"): ["first_or_default_async_"],
    ("reactivex/operators/_last.py", "last_"): ["last_or_default_async"],
    ("reactivex/operators/_single.py", "single_"): ["single_or_default_async_"],
}
ERRKINDS = [
    ("reactivex/operators/_firstordefault.py", "first_or_default_async_.first_or_default_async.subscribe", "has_default"),
    ("reactivex/operators/_lastordefault.py", "last_or_default_async.subscribe", "has_default"),
    ("reactivex/operators/_singleordefault.py", "single_or_default_async_.single_or_default_async.subscribe", "has_default"),
]


def check(repo: Repo, rep: Report) -> None:
    rep.explanation = (
        "The value-level core (numeric results, set/dict contents) is NOT decided. Decided skeleton of the aggregates: "
        "(1) typestate signature of every slot equals the hand-confirmed reference (" + TC.LEGEND + "): aggregates emit "
        "nothing per element and exactly (value, completion) at completion; short-circuiting ones (first, some, "
        "sequence_equal, single's second element) emit / fail inside the deciding element's notification; (2) errors pass "
        "through and completion always terminates; (3) no scheduler; (4) error kinds: in first/last/single(_or_default) the "
        "completion path taken when nothing was seen and no default applies delivers SequenceContainsNoElementsError, "
        "decided by a presence flag (never by the stored value: C08), and single fails on a second element; (5) composite "
        "aggregates are built from the operators of their documented definition.")
    rep.rule("K1-signature", "typestate signature of each slot equals the confirmed reference", floor=25)
    rep.rule("K2-termination", "errors pass through; completion always ends in a terminal call", floor=15)
    rep.rule("K3-synchronous", "no scheduler in aggregates", floor=8)
    rep.rule("K4-composites", "composite aggregates are built from their documented components", floor=12)
    rep.rule("D3-default-ordering", "the default ordering of min / max / min_by / max_by is the sign of the keys' own difference, unconverted", floor=1)
    dsc = repo.fn("reactivex/internal/basic.py", "default_sub_comparer")
    rets = [n.value for n in dsc.all_nodes() if isinstance(n, ast.Return) and n.value is not None]
    a_, b_ = (dsc.params + ["?", "?"])[:2]
    def _ordering(e: ast.AST) -> bool:
        if isinstance(e, ast.BinOp) and isinstance(e.op, ast.Sub):
            if u(e.left) == a_ and u(e.right) == b_:
                return True
            return u(e.left) in (f"({a_} > {b_})", f"{a_} > {b_}", f"{b_} < {a_}") and u(e.right) in (f"({a_} < {b_})", f"{a_} < {b_}", f"{b_} > {a_}")
        return False
    rep.ob("D3-default-ordering", dsc, f"default_sub_comparer returns `{' ; '.join(short(r) for r in rets) or '?'}`", len(rets) == 1 and _ordering(rets[0]),
           "the default comparer of min / max / min_by / max_by is not the plain difference of the two keys: a conversion (int(), round()) or "
           "another expression changes its sign for some keys (keys less than 1 apart compare equal), so the extremum differs from min(xs) / max(xs)")
    # value halves of the aggregate skeletons ------------------------------------------------------------------------
    rep.rule("V1-sign-of-comparison", "extrema_by decides on the SIGN of the comparer's result: `> 0` replaces the extremum, `>= 0` collects; nothing else", floor=2)
    eb = repo.fn("reactivex/operators/_minby.py", "extrema_by.subscribe.on_next")
    cres = {u(n_.targets[0]) for n_ in eb.direct_nodes() if isinstance(n_, ast.Assign) and isinstance(n_.value, ast.Call) and isinstance(n_.value.func, ast.Name)
            and eb.owner(n_.value.func.id) is not None and not eb.owner(n_.value.func.id).is_module and "compar" in n_.value.func.id}
    cmps = [n_ for n_ in eb.direct_nodes() if isinstance(n_, ast.Compare) and len(n_.ops) == 1 and any(isinstance(x, ast.Name) and x.id in cres for x in (n_.left, n_.comparators[0]))]
    shapes = set()
    for c_ in cmps:
        other = c_.comparators[0] if isinstance(c_.left, ast.Name) and c_.left.id in cres else c_.left
        flip = not (isinstance(c_.left, ast.Name) and c_.left.id in cres)
        opn = type(c_.ops[0]).__name__
        if flip:
            opn = {"Lt": "Gt", "LtE": "GtE", "Gt": "Lt", "GtE": "LtE"}.get(opn, opn)
        okc = isinstance(other, ast.Constant) and other.value == 0 and type(other.value) is int
        shapes.add(opn if okc else f"{opn} {u(other)}")
        rep.ob("V1-sign-of-comparison", eb, f"extrema_by: `{short(c_)}` compares the comparer's result with 0", okc,
               "extrema_by compares the comparer's result with something other than 0: keys that differ by less than that threshold are treated as "
               "ties (max([1.0, 1.5]) is 1.0), so the emitted extremum differs from min(xs) / max(xs)")
    rep.ob("V1-sign-of-comparison", eb, f"extrema_by: replace on `> 0`, collect on `>= 0` (found {sorted(shapes)})", shapes == {"Gt", "GtE"},
           "extrema_by does not replace the current extremum exactly when the comparer's result is positive and collect ties when it is zero")
    rep.rule("V2-average-empty", "average: 'the input was empty' is decided by the element count, the result is sum / count", floor=2)
    avm = repo.fn("reactivex/operators/_average.py", "average_.mapper")
    raises = [x for x in sites(avm) if isinstance(x.node, ast.Raise)]
    okr = bool(raises) and all(any(p_ and isinstance(e, ast.Compare) and len(e.ops) == 1 and isinstance(e.ops[0], ast.Eq) and
                                   {u(e.left).split(".")[-1], u(e.comparators[0])} == {"count", "0"} for e, p_ in r_.ctx.guards) for r_ in raises)
    rep.ob("V2-average-empty", avm, "average: raise 'empty' iff count == 0", okr,
           "average decides emptiness on something other than the element count: a non-empty input whose values sum to 0 is reported as empty")
    rets = [x.node.value for x in sites(avm) if isinstance(x.node, ast.Return)]
    okd = len(rets) == 1 and isinstance(rets[0], ast.BinOp) and isinstance(rets[0].op, ast.Div) and u(rets[0].left).endswith(".sum") and ".count" in u(rets[0].right)
    rep.ob("V2-average-empty", avm, "average: returns sum / count", okd, "average does not return the sum divided by the count")
    rep.rule("K5-error-kinds", "empty input without default => SequenceContainsNoElementsError (flag-decided); single: second element => error", floor=4)
    for key in OPS:
        got = TC.check_operator(repo, rep, "K1-signature", key,
                                lambda k, slot: "An aggregate must stay silent per element and emit exactly its result followed by "
                                                "completion (or its error) at the deciding notification.")
        rel, d = key.split("::")
        f = repo.fn(rel, d)
        for sub, sl in got.items():
            if "on_error" not in sl:
                continue
            oe, oc = sl["on_error"], sl["on_completed"]
            rep.ob("K2-termination", f, f"{sub}.on_error = {oe}", oe == "pass:E" or all("E" in s for s in TC.normal(oe)),
                   f"{f.qual}: a source error is not delivered as the termination")
            ok = oc == "pass:C" or bool(TC.normal(oc)) and all(s == "_" or s[-1] in "CE" for s in TC.normal(oc))
            if "sequence_equal" not in key:
                ok = ok and "_" not in TC.normal(oc)
            rep.ob("K2-termination", f, f"{sub}.on_completed = {oc}", ok, f"{f.qual}: completion of the input does not terminate the aggregate on every path")
        TC.no_scheduler(rep, "K3-synchronous", f)
    for (rel, name), parts in COMPOSITES.items():
        f = repo.fn(rel, name)
        used = [call_name(n) for n in f.all_nodes() if isinstance(n, ast.Call)]
        missing = [p for p in parts if p not in used]
        rep.ob("K4-composites", f, f"{name} uses {parts}", not missing, f"{name} is no longer defined through {missing}")
    TC.pipelines_exact(repo, rep, "K4-composites", {
        ("reactivex/operators/_reduce.py", "reduce_"): [["scan", "last_or_default"], ["scan", "last"]],
        ("reactivex/operators/_count.py", "count_"): [["filter", "count"], ["reduce"]],
        ("reactivex/operators/_sum.py", "sum_"): [["map", "sum"], ["reduce"]],
        ("reactivex/operators/_average.py", "average_"): [["map", "scan", "last", "map"]],
        ("reactivex/operators/_min.py", "min_"): [["min_by", "map"]],
        ("reactivex/operators/_max.py", "max_"): [["max_by", "map"]],
        ("reactivex/operators/_all.py", "all_"): [["filter", "some", "map"]],
        ("reactivex/operators/_contains.py", "contains_"): [["filter", "some"]],
        ("reactivex/operators/_isempty.py", "is_empty_"): [["some", "map"]],
        ("reactivex/operators/_first.py", "first_"): [["filter", "first"]],
        ("reactivex/operators/_last.py", "last_"): [["filter", "last"]],
        ("reactivex/operators/_single.py", "single_"): [["filter", "single"]],
    })
    for rel, d, flag in ERRKINDS:
        f = repo.fn(rel, d)
        errs = []
        for g in f.walk():
            if g.is_func:
                for s in sites(g):
                    if isinstance(s.node, ast.Call) and dotted(s.node.func) == f"{f.params[0]}.on_error" and s.node.args \
                            and "SequenceContainsNoElementsError" in u(s.node.args[0]):
                        errs.append((g, s))
        ok = len(errs) == 1 and errs[0][0].name == "on_completed" and any(u(e) == flag and not p for e, p in errs[0][1].ctx.guards)
        rep.ob("K5-error-kinds", f, "empty without default -> SequenceContainsNoElementsError", ok,
               f"{f.qual}: completing without any element and without a default does not fail with SequenceContainsNoElementsError")
    sg = repo.fn("reactivex/operators/_singleordefault.py", "single_or_default_async_.single_or_default_async.subscribe.on_next")
    second = [s for s in sites(sg) if isinstance(s.node, ast.Call) and dotted(s.node.func) == "observer.on_error"]
    from ..rules import cell_name as _cn
    ok = len(second) == 1 and any(isinstance(e, (ast.Name, ast.Subscript)) and _cn(e) and p for e, p in second[0].ctx.guards)
    rep.ob("K5-error-kinds", sg, "single: second element -> on_error", ok, "single does not fail when a second element arrives")
