"""C07 — slicing an observable behaves like slicing a list (S3)."""
from __future__ import annotations

import ast
from typing import Dict, Tuple

from ..astutil import short, u
from ..core import Report
from ..ctx import sites
from ..engines import slicesem as S
from ..frontend import AnalysisError, Repo

SL = "reactivex/operators/_slice.py"
OBS = "reactivex/observable/observable.py"
RANGE = list(range(-5, 6))
NMAX = 8


def sign(v) -> str:
    if v is None:
        return "None"
    return "neg" if v < 0 else ("zero" if v == 0 else "pos")


def stepcls(v) -> str:
    return "None" if v is None else ("1" if v == 1 else ">1")


def check(repo: Repo, rep: Report) -> None:
    rep.explanation = (
        "E10: slice_ builds its pipeline from sign tests only (checked structurally: every comparison in it is between a "
        "local and the constants 0/1 or None), so its body is evaluated symbolically (own evaluator over the AST; nothing "
        "is imported or run) for every start, stop in {None, -5..5} and step in {None, 1, 2, 3} to the sequence of "
        "ops.X(arg) it composes; the index semantics of that sequence, under reference models of take / skip / take_last "
        "/ skip_last / indexed filters and maps, is compared with list(range(n))[start:stop:step] for every n in 0..8. "
        "The magnitudes cover every relative order of |start|, |stop| and n, which is all a pipeline of positional "
        "operators can depend on. Observable.__getitem__'s integer form is evaluated the same way against [xs[k]].")
    rep.assumptions += ["the positional operators behave as their reference models (their own list semantics is C05)",
                        "step >= 1 as the property states; source errors pass through each composed operator (C05)"]
    rep.rule("S1-sign-only", "slice_ branches only on comparisons among its locals and small integer constants (the enumeration domain is sized from them)", floor=4)
    rep.rule("S2-slice-semantics", "for every sign class: composed pipeline == list slicing for all n <= 8", floor=40)
    rep.rule("S3-getitem-int", "source[k] == [xs[k]] (or empty when out of range) for k in -5..5", floor=8)
    rep.rule("S4-bounds-reentrant", "the positional operators slice_ composes update their countdown before the downstream on_next it gates", floor=1)
    rep.rule("S5-spellings-forward", "ops.slice / Observable.slice hand (start, stop, step) to slice_ unchanged, in that order", floor=2)
    for rel, q, callee in (("reactivex/operators/__init__.py", "slice", "slice_"),
                           ("reactivex/observable/mixins/filtering.py", "FilteringMixin.slice", "slice")):
        ent = repo.fn(rel, q)
        params = [a.arg for a in ent.node.args.args if a.arg != "self"]
        calls = [n for n in ent.direct_nodes() if isinstance(n, ast.Call) and u(n.func).split(".")[-1] == callee]
        ok = len(calls) == 1 and not calls[0].keywords and [u(a) for a in calls[0].args] == params[:3] and len(params) == 3 \
            and not [n for n in ent.direct_nodes() if isinstance(n, (ast.Assign, ast.AugAssign)) and any(u(t) in params for t in (n.targets if isinstance(n, ast.Assign) else [n.target]))]
        rep.ob("S5-spellings-forward", ent, f"{q}({', '.join(params)}) -> {callee}({', '.join(params[:3])})", ok,
               f"{q} does not hand its (start, stop, step) to {callee} unchanged: this spelling of a slice selects different elements "
               f"from source[start:stop:step] for some bounds (e.g. a bound of 0 rewritten by `or None`)")
    from . import state_common as SC
    n_gate = 0
    for rel, q in (("reactivex/operators/_take.py", "take_.subscribe"), ("reactivex/operators/_skip.py", "skip_.subscribe"),
                   ("reactivex/operators/_takelast.py", "take_last_.subscribe"), ("reactivex/operators/_skiplast.py", "skip_last_.subscribe"),
                   ("reactivex/operators/_filter.py", "filter_indexed_.subscribe")):
        n_gate += SC.rule_state_before_callout(rep, "S4-bounds-reentrant", repo.fn(rel, q))
    rep.require(n_gate >= 1, "gate writes in the positional operators")
    # take admits an element only while its countdown is positive (strictly): at 0 the budget is spent, even if the completion call
    # has not been reached yet because the consumer fed the next element from inside its on_next
    from ..astutil import compare_norm as _cnm
    from ..rules import names_augmented as _naug, cell_name as _cnn
    tk = repo.fn("reactivex/operators/_take.py", "take_.subscribe.on_next")
    cnt = _naug(tk, ast.Sub)
    okt = False
    why_t = "no countdown"
    if len(cnt) == 1:
        for x in sites(tk):
            if isinstance(x.node, ast.Call) and u(x.node.func).endswith(".on_next"):
                for e, p_ in x.ctx.guards:
                    r = _cnm(e, lambda y: _cnn(y) == cnt[0])
                    if r and isinstance(r[1], ast.Constant) and r[1].value == 0:
                        okt = (p_ and r[0] == ">") or (not p_ and r[0] == "<=")
                        why_t = f"`{short(e)}`"
    rep.ob("S4-bounds-reentrant", tk, f"take forwards only while the countdown is > 0 ({why_t})", okt,
           "take admits an element when its countdown is already 0: an element fed by the consumer from inside the delivery of the last "
           "allowed one is forwarded too — source[:n] emits n + 1 elements")
    fn = repo.fn(SL, "slice_")
    consts = [0]
    for s in sites(fn):
        n = s.node
        if isinstance(n, ast.Compare):
            ops_ = [n.left] + list(n.comparators)
            ok = True
            for o in ops_:
                if isinstance(o, ast.UnaryOp) and isinstance(o.op, ast.USub):
                    o = o.operand
                if isinstance(o, ast.Constant) and (o.value is None or isinstance(o.value, int)):
                    if isinstance(o.value, int):
                        consts.append(abs(o.value))
                elif isinstance(o, ast.Name):
                    pass
                else:
                    ok = False
            rep.ob("S1-sign-only", fn, short(n), ok,
                   f"`{short(n)}` compares something other than locals / integer constants: the enumeration domain of this "
                   f"check does not cover it")
    M = max(consts)
    if M > 40:
        raise AnalysisError(f"slice_ compares with the constant {M}: enumeration domain too large for this check")
    global RANGE, NMAX
    RANGE = list(range(-(M + 5), M + 6))
    NMAX = M + 8
    rep.extra["domain"] = {"start/stop": f"None, {RANGE[0]}..{RANGE[-1]}", "step": "None,1,2,3", "n": f"0..{NMAX}"}
    # S2
    classes: Dict[Tuple[str, str, str], Dict] = {}
    n_eval = 0
    for start in [None] + RANGE:
        for stop in [None] + RANGE:
            for step in (None, 1, 2, 3):
                key = (sign(start), sign(stop), stepcls(step))
                c = classes.setdefault(key, {"bad": None, "pipe": None, "n": 0})
                kind, val = S.run_slice(fn, start, stop, step)
                if kind == "raise":
                    if c["bad"] is None:
                        c["bad"] = f"slice({start}, {stop}, {step}) raises {val}"
                    continue
                c["pipe"] = c["pipe"] or repr(val.ops)
                if val.source != "SRC":
                    c["bad"] = c["bad"] or "the pipeline is not applied to the source"
                for n in range(NMAX + 1):
                    n_eval += 1
                    c["n"] += 1
                    try:
                        got = S.evaluate(val, n)
                    except (S.Raised,) + S._PY_ERRORS as r:
                        got = f"raises {r}"
                    want = list(range(n))[start:stop:step]
                    if got != want and c["bad"] is None:
                        c["bad"] = (f"slice({start}, {stop}, {step}) on {n} elements composes {val.ops!r} which selects "
                                    f"{got}, list slicing gives {want}")
    for (a, b, st), c in sorted(classes.items()):
        rep.ob("S2-slice-semantics", fn, f"start:{a} stop:{b} step:{st}", c["bad"] is None,
               c["bad"] or "", nontrivial=True)
    rep.extra["cases_evaluated"] = n_eval
    rep.extra["sample_pipelines"] = {f"{k}": v["pipe"] for k, v in list(sorted(classes.items()))[:12]}
    # S3
    gi = repo.fn(OBS, "Observable.__getitem__")
    for k in RANGE:
        kind, val = S.run_getitem(gi, k)
        bad = None
        if kind != "slice":
            bad = f"source[{k}] raises {val}"
        else:
            start, stop, step, applied = val
            if not (isinstance(applied, S.Symbolic) and applied.name == "SRC"):
                bad = "slice_ is not applied to self"
            kind2, p = S.run_slice(fn, start, stop, step)
            if kind2 != "pipeline":
                bad = f"source[{k}] -> slice({start}, {stop}, {step}) raises {p}"
            else:
                for n in range(NMAX + 1):
                    xs = list(range(n))
                    want = [xs[k]] if -n <= k < n else []
                    try:
                        got = S.evaluate(p, n)
                    except (S.Raised,) + S._PY_ERRORS as r:
                        got = f"raises {r}"
                    if got != want:
                        bad = (f"source[{k}] becomes slice({start}, {stop}, {step}) = {p.ops!r}: on {n} elements it selects "
                               f"{got}, xs[{k}] is {want}")
                        break
        rep.ob("S3-getitem-int", gi, f"key {k} ({sign(k)}{' = -1' if k == -1 else ''})", bad is None, bad or "")
    # slice form of __getitem__ forwards key.start/stop/step
    kind, val = S.run_getitem(gi, S.SliceObj(1, 2, 3))
    ok = kind == "slice" and val[:3] == (1, 2, 3)
    rep.ob("S3-getitem-int", gi, "slice form forwards (start, stop, step)", ok,
           "source[a:b:c] does not forward (a, b, c) to slice_ in that order")
    # ... for every sign class of the bounds: __getitem__ itself decides nothing about a slice key (slice_ is the one place that does,
    # and S2 evaluates it); a shortcut taken here for "obviously empty" bounds is a second, unchecked slicing semantics
    badk = None
    nk = 0
    for a_ in (None, -3, -1, 0, 1, 3):
        for b_ in (None, -3, -1, 0, 1, 3):
            for c_ in (None, 1, 2):
                nk += 1
                try:
                    kind, val = S.run_getitem(gi, S.SliceObj(a_, b_, c_))
                except Exception as e_:  # noqa: BLE001
                    kind, val = f"interpreter: {type(e_).__name__}: {e_}", ()
                if not (kind == "slice" and tuple(val[:3]) == (a_, b_, c_)) and badk is None:
                    badk = f"source[{a_}:{b_}:{c_}] is not handed to slice_ as ({a_}, {b_}, {c_}) (got {kind} {tuple(val[:3]) if val else ''})"
    rep.ob("S3-getitem-int", gi, f"slice keys are forwarded untouched for {nk} combinations of bound signs", badk is None, badk or "")
