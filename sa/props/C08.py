"""C08 — falsy values are ordinary elements (S3)."""
from __future__ import annotations

import ast
import os

from ..astutil import short, u
from ..core import Report
from ..engines.truthy import DATA_FUNCS, DATA_PARAMS, Truthy
from ..frontend import Repo
from ..model import model_of

SCOPE = ("reactivex/operators/", "reactivex/observable/", "reactivex/subject/", "reactivex/observer/",
         "reactivex/run.py", "reactivex/notification.py", "reactivex/internal/", "reactivex/testing/")
SKIP = ("reactivex/observable/mixins/",)


def check(repo: Repo, rep: Report) -> None:
    rep.explanation = (
        "E4 opaque-data truthiness: flow-insensitive taint per closure tree with a container depth. Sources: the value "
        "parameter of every on_next handler / _on_next_core / on_next method; values read back from containers, cells "
        "and fields into which elements were stored; results of the user's data-producing callbacks (key_mapper, mapper, "
        "accumulator, ... -- with the identity default a key *is* the element, a mapped value *becomes* one) and the "
        "opaque data parameters seed / default_value / initial_value. Sinks: an element (depth 0) as the operand of if/while/assert/"
        "ternary/comprehension-if/not/and/or/bool()/filter(None, ...) or compared with None. Containers of elements may "
        "be tested for emptiness. Presence must be decided by flags / sentinels / lengths, never by the element's value. "
        "Thorough tier adds a typed detector: one in-process mypy build, flagging truth/None tests whose operand type is "
        "a bare element TypeVar or a union containing one.")
    rep.assumptions += ["flow-insensitive: a variable is an element if any assignment gives it one",
                        "predicates / comparers / conditions are not data sources: their results are truth values"]
    rep.rule("E4-element-truthiness", "no stream element is truth-tested or compared with None", floor=200)
    rep.rule("E4-sources", "every on_next handler / _on_next_core value parameter is a taint source", floor=60)
    m = model_of(repo)
    n_tests = n_src = 0
    for mod in repo.modules.values():
        if not mod.rel.startswith(SCOPE) or mod.rel.startswith(SKIP):
            continue
        for root in mod.root.children:
            if not (root.is_func or root.is_class):
                continue
            t = Truthy(repo, m, root, DATA_FUNCS, DATA_PARAMS)
            for g, p in t.seeds:
                n_src += 1
                rep.ob("E4-sources", g, f"{g.qual}({p})", True)
            sk, n = t.sinks()
            n_tests += n
            seen = set()
            for s in sk:
                c = f"`{short(s.expr, 40)}` {s.how}: `{short(s.node, 60)}`"
                if c in seen:
                    continue
                seen.add(c)
                rep.ob("E4-element-truthiness", s.fn, c, False,
                       f"`{u(s.expr)}` holds a stream element and is {s.how}: a falsy element (None, 0, False, '', empty "
                       f"container) is mistaken for the absence of a value — dropped, not counted or not replayed")
            rep.ob("E4-element-truthiness", root, f"{root.qual}: {n} truth-test contexts", True, nontrivial=n > 0)
    rep.extra["truth_test_contexts"] = n_tests
    rep.extra["taint_sources"] = n_src
    rep.require(n_tests >= 350, f"truth-test contexts enumerated ({n_tests})")
    if rep.tier == "thorough":
        from ..engines.typed_truthy import run as typed_run
        rep.rule("E4-typed", "typed detector: no truth/None test on an operand typed as an element TypeVar", floor=1)
        hits, note = typed_run(repo.root)
        rep.notes.append(note)
        if hits is None:
            rep.ob("E4-typed", "package", "typed cross-check skipped", True, nontrivial=False)
        else:
            for path, line, col, why, ty in hits:
                rel = os.path.relpath(path, repo.root) if os.path.isabs(path) else path
                mod = repo.opt_module(rel)
                fn = None
                text = f"line {line}"
                if mod is not None:
                    for n in ast.walk(mod.tree):
                        if getattr(n, "lineno", None) == line and getattr(n, "col_offset", None) == col and isinstance(n, ast.expr):
                            text = short(n, 50)
                            fn = mod.fn_at(n)
                            break
                rep.ob("E4-typed", fn or rel, f"`{text}` {why} (type {ty})", False,
                       f"operand of type {ty} (an element type variable) is {why}: falsy / None elements are mishandled")
            rep.ob("E4-typed", "package", f"typed detector: {len(hits)} hits ({note})", True)
