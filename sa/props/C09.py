"""C09 — exceptions raised by user callbacks are delivered as on_error (S2)."""
from __future__ import annotations

import ast

from ..astutil import short, u
from ..core import Report
from ..engines.callguard import CallGuard
from ..frontend import Repo
from ..model import model_of

SCOPE = ("reactivex/operators/", "reactivex/observable/", "reactivex/__init__.py", "reactivex/internal/utils.py")
SKIP = ("reactivex/observable/mixins/",)


def check(repo: Repo, rep: Report) -> None:
    rep.explanation = (
        "E2 guarded user callbacks. User callables = parameters annotated Mapper / MapperIndexed / Predicate / "
        "PredicateIndexed / Comparer / SubComparer / Accumulator or a Callable[...] (selectors, factories, conditions; "
        "Action / OnNext-style callbacks and scheduler or thread factories excluded). Aliases (`m = mapper or identity`), "
        "closure capture, storage in helper objects (HashSet(comparer) -> self.comparer), passing on to other package "
        "functions (assume/guarantee across the delegation graph: the callee's parameter becomes a user callable under "
        "the same obligation), local wrappers and lazy iterators (map/filter/takewhile/generator expressions over one) "
        "are propagated to a fixpoint. Obligation: every invocation (or advance of such a lazy iterator) executed at "
        "stage L3 — inside a source handler, scheduled action or dispose hook — directly or through unguarded helpers, "
        "is lexically enclosed by a handler that catches Exception and routes it (on_error / throw / re-raise to an "
        "enclosing router). Invocations at subscribe time (<= L2) are routed by Observable.subscribe's fail() (C01-R4).")
    rep.assumptions += ["exceptions from non-callable user data (__eq__, __hash__, user iterables) are outside the statement",
                        "Observable.subscribe routes subscribe-time exceptions (decided under C01)"]
    rep.rule("E2-guarded-invocation", "every L3 invocation of a user callable is enclosed by a routing handler", floor=35)
    rep.rule("E2-routes", "a handler that guards a user callable routes the exception (on_error / throw / re-raise), it does not swallow it", floor=35)
    rep.rule("E2-sources", "user-callable parameters enumerated", floor=150)
    m = model_of(repo)
    cg = CallGuard(repo, m, SCOPE, SKIP)
    rep.extra["user_callable_parameters"] = cg.n_params
    rep.extra["user_callable_bindings"] = len(cg.U)
    rep.extra["lazy_iterator_bindings"] = len(cg.LZ)
    rep.extra["unguarded_wrappers"] = sorted(f.ref for f in cg.ung)
    for k, why in cg.U.items():
        if why.startswith("parameter "):
            rep.ob("E2-sources", "package", why, True)
    n_inv = 0
    for g in cg.fns:
        role = m.role.get(g, "helper")
        for inv in cg.invocations(g):
            n_inv += 1
            c = f"{short(inv.site.node, 60)} [{inv.what[:70]}]"
            if role in ("handler", "action", "dispose"):
                rep.ob("E2-guarded-invocation", g, c, inv.guarded,
                       f"`{short(inv.site.node)}` invokes {inv.what} while a notification / scheduled action is being "
                       f"processed ({role} {g.qual}) with no enclosing handler that routes the exception to on_error: it "
                       f"propagates into the emitter or the scheduler instead of reaching the subscriber")
            else:
                rep.ob("E2-guarded-invocation", g, c + f" ({role}, stage L{m.stage.get(g, 0)}: transferred to callers / fail())",
                       True, nontrivial=False)
            if inv.site.ctx.tries:
                from ..engines.callguard import handler_catches_exception, handler_routes
                for t in inv.site.ctx.tries:
                    # a narrower handler ahead of the routing one (`except StopIteration: on_completed()`) takes that class of the
                    # callback's exceptions away from on_error: the try around a user callback catches for the callback alone
                    is_next = isinstance(inv.site.node, ast.Call) and isinstance(inv.site.node.func, ast.Name) and inv.site.node.func.id == "next"
                    for h in (t.handlers if any(handler_catches_exception(x) for x in t.handlers) and not is_next else ()):
                        if handler_catches_exception(h):
                            break
                        if h.type is not None and not handler_routes(h):
                            rep.ob("E2-routes", g, f"`except {u(h.type)}` ahead of the routing handler around {short(inv.site.node, 50)}", False,
                                   f"the try around the user callback `{short(inv.site.node, 50)}` also has `except {u(h.type)}`, which does not deliver the "
                                   f"exception: a {u(h.type)} raised by the callback is taken for the library's own signal (end of iteration, "
                                   f"missing key) — the sequence completes or continues instead of failing with that exception")
                    for h in t.handlers:
                        if handler_catches_exception(h):
                            rep.ob("E2-routes", g, f"handler around {short(inv.site.node, 50)}", handler_routes(h),
                                   "the handler catches the user callback's exception but neither delivers it (on_error / "
                                   "throw) nor re-raises it: the failure is swallowed and the pipeline keeps running")
    rep.extra["invocation_sites"] = n_inv
    rep.require(n_inv >= 55, f"invocation sites ({n_inv})")
