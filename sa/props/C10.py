"""C10 — sequential composition runs one source at a time, in order (S1)."""
from __future__ import annotations

import ast

from ..astutil import call_name, dotted, short, u
from ..core import Report
from ..ctx import sites, dominates
from ..frontend import Repo
from ..model import is_schedule_call, is_subscribe_call, resolve_callable, schedule_action_arg, subscribe_slots
from ..engines.excident import rule_exception_identity
from ..model import model_of
from . import sync_common as SY
from . import typestate_common as TC

SEQ = {
    "reactivex/observable/concat.py::concat_with_iterable_.subscribe": {"on_completed"},
    "reactivex/observable/catch.py::catch_with_iterable_.subscribe": {"on_error"},
    "reactivex/observable/onerrorresumenext.py::on_error_resume_next_.subscribe": {"on_error", "on_completed"},
}
COMPOSITES = {
    ("reactivex/operators/_repeat.py", "repeat_"): ["concat_with_iterable", "defer"],
    ("reactivex/operators/_retry.py", "retry_"): ["catch_with_iterable"],
    ("reactivex/operators/_whiledo.py", "while_do_"): ["concat_with_iterable", "takewhile"],
    ("reactivex/operators/_dowhile.py", "do_while_"): ["while_do", "concat"],
    ("reactivex/operators/_startswith.py", "start_with_"): ["concat"],
    ("reactivex/operators/_concat.py", "concat_"): ["concat"],
    ("reactivex/__init__.py", "for_in"): ["concat_with_iterable", "map"],
}


def check(repo: Repo, rep: Report) -> None:
    rep.explanation = (
        "Structural clauses of the three sequencers (concat_with_iterable_, catch_with_iterable_, on_error_resume_next_): "
        "(1) typestate signatures equal the confirmed reference (" + TC.LEGEND + "); (2) who-may-advance: the function that "
        "advances the source iterator and subscribes the next source is (re-)scheduled only from subscribe (initial step) "
        "and from exactly the terminal slot(s) of the current inner subscription on which the operator continues "
        "(concat: on_completed; catch: on_error; on_error_resume_next: both) — never from on_next and never from the other "
        "terminal, which is passed through; elements pass through unchanged; (3) serial swap: the holder of the new inner "
        "subscription is stored in the SerialDisposable before the inner is subscribed, so the previous one is disposed; "
        "(4) repeat / retry / while_do / do_while / start_with / concat / for_in are delegations to these, with the count "
        "forwarded into range(). Subscription *counts* for concrete inputs are not decided.")
    rep.rule("K1-signature", "typestate signature of each slot equals the confirmed reference", floor=12)
    rep.rule("Q1-who-advances", "the advancing action is scheduled only from subscribe and from the continuing terminal slot(s)", floor=9)
    rep.rule("Q2-serial-swap", "new inner subscription goes through the SerialDisposable before subscribing", floor=3)
    rep.rule("Q3-delegations", "repeat/retry/while_do/do_while/start_with/concat/for_in delegate to the sequencers; counts forwarded", floor=9)
    rep.rule("Q4-continuation-survives", "a continuation installed by a synchronously failing / completing source is not "
                                         "replaced by the late store of that source's own subscription (placeholder idiom)", floor=2)
    rep.rule("Q6-trampolined-handover", "the sequencers hand over to the next source through the trampoline by default (`given or CurrentThreadScheduler`)", floor=3)
    for rel_, q_ in (("reactivex/observable/concat.py", "concat_with_iterable_.subscribe"), ("reactivex/observable/catch.py", "catch_with_iterable_.subscribe"),
                     ("reactivex/observable/onerrorresumenext.py", "on_error_resume_next_.subscribe")):
        sf = repo.fn(rel_, q_)
        defs_ = [n_.value for n_ in sf.direct_nodes() if isinstance(n_, ast.Assign) and isinstance(n_.value, ast.BoolOp) and isinstance(n_.value.op, ast.Or)
                 and isinstance(n_.value.values[-1], ast.Call)]
        okd = len(defs_) == 1 and "CurrentThreadScheduler" in u(defs_[0].values[-1])
        rep.ob("Q6-trampolined-handover", sf, f"{sf.qual}: default scheduler `{short(defs_[0].values[-1], 50) if defs_ else '?'}`", okd,
               f"{sf.qual} does not default to the trampoline: on an inline scheduler each hand-over to the next source is a nested call, so a long "
               f"chain of synchronously completing sources (repeat, while_do, for_in, concat of many) overflows the stack and is cut by a RecursionError")
    rep.rule("Q7-plus-is-concat", "Observable.__add__ / __iadd__ are concat(self, other), in that order", floor=2)
    for dn in ("__add__", "__iadd__"):
        dm = repo.fn("reactivex/observable/observable.py", f"Observable.{dn}")
        rets_ = [x.node.value for x in sites(dm) if isinstance(x.node, ast.Return)]
        okp = len(rets_) == 1 and isinstance(rets_[0], ast.Call) and call_name(rets_[0]) == "concat" and [u(a) for a in rets_[0].args] == ["self", dm.params[1]]
        rep.ob("Q7-plus-is-concat", dm, f"{dn}: `{short(rets_[0], 40) if rets_ else '?'}`", okp,
               f"Observable.{dn} is not concat(self, other): `xs + ys` / `xs += ys` subscribes the operands in the wrong order")
    rep.rule("Q5-error-identity", "the recorded last error decides by identity, not truthiness", floor=1)
    m_ = model_of(repo)
    ch = repo.fn("reactivex/operators/_catch.py", "catch_handler.subscribe")
    for root_ in [repo.fn(*k.split("::")) for k in SEQ] + [ch]:
        SY.rule_no_serial_clobber(rep, "Q4-continuation-survives", root_)
        rule_exception_identity(rep, "Q5-error-identity", m_, root_)
    # catch(handler): the source's subscription lives in a placeholder registered in the serial *before* subscribing
    srcsub = [s_ for s_ in sites(ch) if is_subscribe_call(s_.node)]
    rep.require(len(srcsub) == 1, "catch_handler: source subscription")
    st_ = srcsub[0].stmt
    holder_ = u(st_.targets[0].value) if isinstance(st_, ast.Assign) and isinstance(st_.targets[0], ast.Attribute) and st_.targets[0].attr == "disposable" else None
    reg_ = [s_ for s_ in sites(ch) if isinstance(s_.node, ast.Assign) and isinstance(s_.node.targets[0], ast.Attribute) and s_.node.targets[0].attr == "disposable"
            and u(s_.node.value) == holder_]
    rets_ = {u(s_.node.value) for s_ in sites(ch) if isinstance(s_.node, ast.Return)}
    ok_ = holder_ is not None and bool(reg_) and dominates(reg_[0], srcsub[0]) and rets_ == {u(reg_[0].node.targets[0].value)}
    rep.ob("Q4-continuation-survives", ch, "catch(handler): serial.disposable = d1 before d1.disposable = source.subscribe(...); serial returned", ok_,
           "catch(handler) stores the source subscription in the returned serial disposable only after subscribe() returns: a "
           "source failing synchronously has already installed the handler's sequence there, which the late store disposes")
    hd = ch.child("on_error")
    ok_ = hd is not None and any(isinstance(s_.node, ast.Assign) and isinstance(s_.node.targets[0], ast.Attribute) and s_.node.targets[0].attr == "disposable"
                                 and reg_ and u(s_.node.targets[0].value) == u(reg_[0].node.targets[0].value) for s_ in sites(hd))
    rep.ob("Q4-continuation-survives", ch, "catch(handler): the handler's sequence is held through the same serial", bool(ok_),
           "the handler's sequence is not held by the returned disposable")
    for key, cont in SEQ.items():
        TC.check_operator(repo, rep, "K1-signature", key,
                          lambda k, slot: "Sequential composition must forward elements unchanged, continue only on its own terminal "
                                          "kind and otherwise pass the terminal through.")
        rel, d = key.split("::")
        root = repo.fn(rel, d)
        # the advancing action = what subscribe schedules as its initial step
        action = None
        for s0 in sites(root):
            if is_schedule_call(s0.node):
                t0 = resolve_callable(root, schedule_action_arg(s0.node))
                if t0.kind == "fn" and t0.fn.parent is root:
                    action = t0.fn
        rep.require(action is not None, f"initial scheduled step in {root.ref}")
        # every schedule of `action` and where it is
        sched = []
        for g in root.walk():
            if g.is_func:
                for s in sites(g):
                    if is_schedule_call(s.node):
                        t = resolve_callable(g, schedule_action_arg(s.node))
                        if t.kind == "fn" and t.fn is action:
                            sched.append((g, s))
        # slots of the inner subscription
        inner = [s for s in sites(action) if is_subscribe_call(s.node)]
        rep.require(len(inner) == 1, f"one inner subscription in {action.ref}")
        slots = subscribe_slots(inner[0].node)
        slot_fn = {}
        for k, v in slots.items():
            t = resolve_callable(action, v)
            slot_fn[k] = t
        allowed_fns = {root}
        for k in cont:
            if slot_fn[k].kind == "fn":
                allowed_fns.add(slot_fn[k].fn)
        for g, s in sched:
            where = "subscribe (initial step)" if g is root else next((k for k, t in slot_fn.items() if t.kind == "fn" and t.fn is g), g.qual)
            rep.ob("Q1-who-advances", g, f"schedule(action) in {where}", g in allowed_fns,
                   f"the next source is started from `{where}`: sources would run concurrently or out of order instead of one "
                   f"after another on {sorted(cont)}")
        for k in ("on_next", "on_error", "on_completed"):
            t = slot_fn[k]
            if k in cont:
                ok = t.kind == "fn" and any(g is t.fn for g, _ in sched)
                rep.ob("Q1-who-advances", action, f"{k} continues with the next source", ok,
                       f"the operator does not continue with the next source when the current one ends with {k}")
            else:
                want = {"on_next": "on_next", "on_error": "on_error", "on_completed": "on_completed"}[k]
                ok = t.kind == "bound" and t.obj == root.params[0] and t.attr == want
                rep.ob("Q1-who-advances", action, f"{k} is passed through", ok,
                       f"{k} of the current source is not passed straight to the subscriber")
        # serial swap
        sub_site = inner[0]
        holder = None
        if isinstance(sub_site.stmt, ast.Assign) and isinstance(sub_site.stmt.targets[0], ast.Attribute) and sub_site.stmt.targets[0].attr == "disposable":
            holder = u(sub_site.stmt.targets[0].value)
        swaps = [s for s in sites(action) if isinstance(s.node, ast.Assign) and isinstance(s.node.targets[0], ast.Attribute)
                 and s.node.targets[0].attr == "disposable" and u(s.node.value) == holder]
        ok = holder is not None and bool(swaps) and dominates(swaps[0], sub_site)
        serial = None
        if swaps:
            sv = u(swaps[0].node.targets[0].value)
            serial = any(isinstance(x.node, ast.Assign) and u(x.node.targets[0]) == sv and isinstance(x.node.value, ast.Call)
                         and call_name(x.node.value) == "SerialDisposable" for x in sites(root))
        rep.ob("Q2-serial-swap", action, f"subscription.disposable = {holder}; {holder}.disposable = current.subscribe(...)", ok and bool(serial),
               "the new inner subscription is not routed through the SerialDisposable before subscribing: the previous inner "
               "is not disposed / the new one cannot be cancelled")
    TC.rule_scheduler_forwarded(rep, "F0-scheduler-forwarded", ch)
    rt = repo.opt_fn("reactivex/operators/_retry.py", "retry_.subscribe")
    if rt is not None:
        TC.rule_scheduler_forwarded(rep, "F0-scheduler-forwarded", rt)
    TC.composite_uses(repo, rep, "Q3-delegations", COMPOSITES)
    for rel, name, param in (("reactivex/operators/_repeat.py", "repeat_", "repeat_count"), ("reactivex/operators/_retry.py", "retry_", "retry_count")):
        f = repo.fn(rel, name)
        rng = [n for n in f.all_nodes() if isinstance(n, ast.Call) and isinstance(n.func, ast.Name) and n.func.id == "range"]
        rep.ob("Q3-delegations", f, f"range({param})", len(rng) == 1 and [u(a) for a in rng[0].args] == [param],
               f"{name} does not bound its number of subscriptions by range({param})")
        # the unbounded form is chosen by `count is None`, never by the truthiness of the count (0 is a count)
        tests = []
        for g_ in f.walk():
            if g_.is_func:
                for nd in g_.direct_nodes():
                    if isinstance(nd, (ast.If, ast.IfExp)):
                        from ..rules import effective_test as _et
                        if any(isinstance(x, ast.Name) and x.id == param for x in ast.walk(_et(g_, nd.test))):
                            tests.append((g_, nd))
        for g_, nd in tests:
            from ..rules import effective_test
            from ..astutil import atoms
            bad = [e for e, _p in atoms(effective_test(g_, nd.test), True) if isinstance(e, ast.Name) and e.id == param]
            rep.ob("Q3-delegations", g_, f"{name}: `{short(nd.test, 40)}` decides bounded / unbounded by identity with None", not bad,
                   f"{name} chooses the unbounded form when `{param}` is falsy: a count of 0 ({name.rstrip('_')}(0)) re-subscribes for ever "
                   f"instead of never")
        rep.ob("Q3-delegations", f, f"{name}: a test on {param} selects the unbounded form", bool(tests),
               f"{name} no longer distinguishes `{param} is None` (unbounded) from a number")
