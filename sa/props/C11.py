"""C11 — merging keeps each inner order and completes when all complete (S1)."""
from __future__ import annotations

import ast

from ..astutil import call_name, compare_norm, dotted, short, u
from ..core import Report
from ..ctx import sites
from ..frontend import Repo
from ..model import is_subscribe_call
from ..rules import cell_name, has_guard, locals_by_init, names_assigned_const, names_augmented
from . import sync_common as SY
from . import typestate_common as TC

MG = "reactivex/operators/_merge.py"
KEYS = [f"{MG}::merge_.subscribe", f"{MG}::merge_all_.subscribe"]
COMPOSITES = {
    ("reactivex/operators/_flatmap.py", "_flat_map_internal"): ["map_indexed", "merge_all"],
    ("reactivex/operators/_flatmap.py", "flat_map_"): ["_flat_map_internal"],
    ("reactivex/operators/_flatmap.py", "flat_map_indexed_"): ["_flat_map_internal"],
    ("reactivex/observable/merge.py", "merge_"): ["from_iterable", "merge_all"],
    ("reactivex/operators/__init__.py", "concat_map"): ["map", "merge"],
}


def rule_flat_map_dispatch(repo: Repo, rep: Report) -> None:
    """flat_map / flat_map_indexed: a callable argument is THE mapper (by its role: plain vs indexed); anything else is the
    inner sequence every element maps to."""
    FM = "reactivex/operators/_flatmap.py"
    for q, role in (("flat_map_", "mapper"), ("flat_map_indexed_", "mapper_indexed")):
        f = repo.fn(FM, q)
        par = f.params[1]
        calls = [s for s in sites(f) if isinstance(s.node, ast.Call) and call_name(s.node) == "_flat_map_internal"]
        ok_pos = ok_neg = False
        for s in calls:
            kw = {k.arg: k.value for k in s.node.keywords}
            is_callable = [p_ for e, p_ in s.ctx.guards if isinstance(e, ast.Call) and call_name(e) == "callable" and e.args and u(e.args[0]) == par]
            if is_callable == [True]:
                ok_pos = set(kw) == {role} and u(kw[role]) == par
            elif is_callable == [False]:
                v = kw.get("mapper")
                ok_neg = set(kw) == {"mapper"} and isinstance(v, ast.Lambda) and u(v.body) == par
        rep.ob("J3-delegations", f, f"{q}: callable({par}) -> _flat_map_internal({role}={par}); else -> mapper=lambda _: {par}", ok_pos and ok_neg and len(calls) == 2,
               f"{q} does not hand a callable argument on as `{role}` and a non-callable one as the constant inner sequence: the mapper is "
               f"called with the wrong arity, or the mapper function itself is merged as if it were the inner sequence")
    fi = repo.fn(FM, "_flat_map_internal")
    # role, not name: the projection is the closure handed to map_indexed(...)
    pj = [a.id for x in sites(fi) if isinstance(x.node, ast.Call) and call_name(x.node) in ("map_indexed", "mapi") for a in x.node.args if isinstance(a, ast.Name)]
    proj = fi.child(pj[0]) if len(pj) == 1 else None
    ok = False
    if proj is not None:
        src_ = " ".join(u(n_) for n_ in proj.direct_nodes() if isinstance(n_, ast.IfExp))
        if len(proj.params) >= 2:
            a_, b_ = proj.params[0], proj.params[1]
            ok = f"mapper({a_}) if mapper" in src_ and f"mapper_indexed({a_}, {b_}) if mapper_indexed" in src_
    rep.ob("J3-delegations", fi, "projection: mapper(x) if mapper else mapper_indexed(x, i) if mapper_indexed", ok,
           "the projection does not call the plain mapper with the element and the indexed mapper with (element, index)")


def check(repo: Repo, rep: Report) -> None:
    rep.explanation = (
        "Structural clauses of merge_ / merge_all_: (1) typestate signatures equal the confirmed reference (" + TC.LEGEND +
        "): inner elements and errors are passed straight through (so each inner keeps its order and the first error "
        "terminates), the outer's error is passed through; (2) completion join: every downstream on_completed reachable "
        "from an inner completion is control-dependent on the outer-stopped flag *and* on the active set/count being "
        "exhausted, and the outer's on_completed depends on the active set/count; the outer handler sets the stopped flag; "
        "(3) max_concurrent: subscribing an inner from the outer's on_next is dominated by `active < max_concurrent`, the "
        "other branch enqueues, and a completing inner dequeues the oldest (pop(0)/popleft) — so concat_map "
        "(max_concurrent=1) is the ordered concatenation; (4) flat_map*, merge (creation), concat_map are delegations. "
        "Element order / timing for concrete inputs is not decided.")
    rep.rule("K1-signature", "typestate signature of each slot equals the confirmed reference", floor=10)
    rep.rule("J1-completion-join", "downstream completion depends on outer-stopped and no-active-inner", floor=4)
    rep.rule("J2-max-concurrent", "inner subscription bounded by max_concurrent; FIFO queue of waiting inners", floor=4)
    rep.rule("J3-delegations", "flat_map* / merge / concat_map delegations", floor=5)
    rule_flat_map_dispatch(repo, rep)
    for key in KEYS:
        TC.check_operator(repo, rep, "K1-signature", key,
                          lambda k, slot: "Merging must pass inner elements and the first error straight through and complete only "
                                          "from the completion-join paths.")
    rep.rule("J4-registered-before-subscribe", "an inner's holder is in the group before the inner is subscribed (a synchronously "
                                               "completing inner must find it there to remove it)", floor=2)
    for name in ("merge_", "merge_all_"):
        root = repo.fn(MG, f"{name}.subscribe")
        SY.rule_registered_before_subscribe(rep, "J4-registered-before-subscribe", root)
        outer = root.child("on_completed")
        rep.require(outer is not None, f"{name}.subscribe.on_completed")
        # roles: the stopped flag is the cell the outer on_completed sets True; the active measure is the integer cell
        # the element handler increments (merge_) or the size of the CompositeDisposable holding the inners (merge_all_)
        flags = names_assigned_const(outer, True)
        counters = [c for g in root.walk() if g.is_func for c in names_augmented(g, ast.Add)]
        groups = locals_by_init(root, lambda v: isinstance(v, ast.Call) and call_name(v) == "CompositeDisposable")
        if not flags or not (counters or groups):
            rep.ob("J1-completion-join", outer, f"{name}: keeps an outer-stopped flag and a measure of live inners", False,
                   f"{name} does not keep {'a flag raised by the outer completion' if not flags else 'a count / group of live inners'}: "
                   f"'completes once the outer and every inner completed' cannot be decided — the result never completes, or completes "
                   f"while an inner is still live")
            continue
        def count_pred(t, counters=counters, groups=groups, name=name):
            if name == "merge_":
                return any(c in t for c in counters)
            return any(f"len({g})" in t for g in groups)
        for g, s, k in TC.downstream_sites(root, ("on_completed",)):
            gt = TC.guards_text(s)
            stopped = any(any(fl in t for fl in flags) and not t.startswith("not") for t in gt)
            counted = any(count_pred(t) for t in gt)
            inner = g.parent is not root and g is not root
            is_outer = g.parent is root and g.name == "on_completed"
            if is_outer:
                sets = any(isinstance(x.node, ast.Assign) and cell_name(x.node.targets[0]) in flags and u(x.node.value) == "True"
                           and x.index < s.index for x in sites(g))
                rep.ob("J1-completion-join", g, f"{name} outer on_completed: {gt}", counted and sets,
                       f"{name}: the outer's completion completes downstream without checking that no inner is active (or does "
                       f"not record that the outer stopped): the output completes while inners are still emitting, or never")
            else:
                rep.ob("J1-completion-join", g, f"{name} inner on_completed: {gt}", stopped and counted,
                       f"{name}: an inner's completion completes downstream without (outer stopped and no active inner) "
                       f"dominating it: the output completes before the outer / the other inners did")
    # merge_all measures "no inner active" as len(group) == 1: the one remaining member must be the *outer's* holder, so that
    # holder is in the group before the outer is subscribed (a synchronously emitting outer otherwise sees a group that does
    # not contain it yet: premature completion with one inner active, or none ever)
    ma = repo.fn(MG, "merge_all_.subscribe")
    from ..engines.typestate import source_names
    srcs_ = set(source_names(ma))
    outer_sub = [s_ for s_ in sites(ma) if is_subscribe_call(s_.node) and isinstance(s_.node.func.value, ast.Name) and s_.node.func.value.id in srcs_]
    rep.require(len(outer_sub) == 1, "merge_all: outer subscription")
    st_ = outer_sub[0].stmt
    holder_ = u(st_.targets[0].value) if isinstance(st_, ast.Assign) and isinstance(st_.targets[0], ast.Attribute) and st_.targets[0].attr == "disposable" else None
    groups_ = locals_by_init(ma, lambda v: isinstance(v, ast.Call) and call_name(v) == "CompositeDisposable")
    adds_ = [r_ for g0 in groups_ for r_ in SY.registrations(ma, g0, holder_)] if holder_ else []
    from ..ctx import dominates as _dom
    ok_ = holder_ is not None and bool(adds_) and _dom(adds_[0], outer_sub[0])
    rep.ob("J4-registered-before-subscribe", ma, "merge_all: the outer's holder is in the group before the outer is subscribed", ok_,
           "merge_all adds the outer subscription to its group only after source.subscribe(...) returned, although it measures 'no inner "
           "active' as len(group) == 1: an outer that emits inside subscribe() completes the output while an inner is still active, or "
           "never completes it")
    # max_concurrent
    root = repo.fn(MG, "merge_.subscribe")
    on_next = root.child("on_next")
    helper = root.child("subscribe")
    rep.require(on_next is not None and helper is not None, "merge_.subscribe.on_next / inner subscribe helper")
    calls = [s for s in sites(on_next) if isinstance(s.node, ast.Call) and isinstance(s.node.func, ast.Name) and s.node.func.id == "subscribe"]
    counters = names_augmented(on_next, ast.Add)
    queues = [q for q in locals_by_init(root, lambda v: isinstance(v, ast.List) and not v.elts)
              if any(isinstance(x.node, ast.Call) and dotted(x.node.func) == f"{q}.append" for x in sites(on_next))]
    if len(counters) != 1 or len(queues) != 1:
        rep.ob("J2-max-concurrent", root, "per-subscription active counter and FIFO waiting list", False,
               "merge(max_concurrent): the active-inner counter (incremented by the outer element handler) and the waiting list "
               "(an empty list allocated in subscribe that the handler appends to) are not both per-subscription state of "
               "subscribe: the concurrency limit / the start order of queued inners is not what the property describes")
        TC.composite_uses(repo, rep, "J3-delegations", COMPOSITES)
        return
    cnt, queue = counters[0], queues[0]
    is_cnt = lambda x: cell_name(x) == cnt
    ok = False
    for s in calls:
        for e, p in s.ctx.guards:
            r = compare_norm(e, is_cnt)
            if p and r and r[0] == "<" and u(r[1]) == "max_concurrent":
                ok = True
    inc = [s for s in sites(on_next) if isinstance(s.node, ast.AugAssign) and is_cnt(s.node.target) and isinstance(s.node.op, ast.Add)]
    rep.ob("J2-max-concurrent", on_next, "subscribe(inner) only under active_count < max_concurrent (and count it)", ok and len(calls) == 1 and bool(inc)
           and inc[0].ctx.branch == calls[0].ctx.branch, "more than max_concurrent inner sequences can be subscribed at once")
    enq = [s for s in sites(on_next) if isinstance(s.node, ast.Call) and dotted(s.node.func) == f"{queue}.append"]
    ok = False
    for e, p in (enq[0].ctx.guards if enq else ()):
        r = compare_norm(e, is_cnt)
        if r and u(r[1]) == "max_concurrent" and ((p and r[0] in (">=", ">")) or (not p and r[0] in ("<", "<="))):
            ok = True
    rep.ob("J2-max-concurrent", on_next, "otherwise the inner is queued", ok, "an inner arriving while the limit is reached is dropped or subscribed")
    ioc = helper.child("on_completed")
    pops = [s for s in sites(ioc) if isinstance(s.node, ast.Call) and isinstance(s.node.func, ast.Attribute) and dotted(s.node.func.value) == queue
            and s.node.func.attr in ("pop", "popleft")]
    ok = len(pops) == 1 and (pops[0].node.func.attr == "popleft" or [u(a) for a in pops[0].node.args] == ["0"]) and has_guard(pops[0].ctx, queue, True)
    rep.ob("J2-max-concurrent", ioc, "a completing inner starts the oldest queued inner", ok,
           "queued inner sequences are not started first-in-first-out (concat_map would reorder its inners)")
    dec = [s for s in sites(ioc) if isinstance(s.node, ast.AugAssign) and is_cnt(s.node.target) and isinstance(s.node.op, ast.Sub)]
    ok = len(dec) == 1 and has_guard(dec[0].ctx, queue, False)
    rep.ob("J2-max-concurrent", ioc, "the active count drops only when nothing is queued", ok,
           "the active count is decremented although a queued inner takes the slot (the limit drifts)")
    TC.composite_uses(repo, rep, "J3-delegations", COMPOSITES)
    TC.pipelines_exact(repo, rep, "J3-delegations", {
        ("reactivex/operators/_flatmap.py", "_flat_map_internal"): [["map_indexed", "merge_all"]],
        ("reactivex/observable/merge.py", "merge_"): [["merge_all"]],
        ("reactivex/operators/__init__.py", "concat_map"): [["map", "merge"]],
    })
    cm = repo.fn("reactivex/operators/__init__.py", "concat_map")
    ok = any(isinstance(n, ast.Call) and call_name(n) == "merge" and any(k.arg == "max_concurrent" and u(k.value) == "1" for k in n.keywords) for n in cm.all_nodes())
    rep.ob("J3-delegations", cm, "concat_map = map + merge(max_concurrent=1)", ok, "concat_map does not merge with max_concurrent=1")
