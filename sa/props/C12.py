"""C12 — switching forwards only the latest inner sequence (S1)."""
from __future__ import annotations

import ast

from ..astutil import call_name, dotted, short, u
from ..core import Report
from ..ctx import sites, dominates
from ..engines.ownership import Ownership
from ..frontend import Repo
from ..model import is_subscribe_call, model_of
from ..rules import cell_name, names_assigned_const, names_augmented
from . import typestate_common as TC

SW = "reactivex/operators/_switchlatest.py"
KEY = f"{SW}::switch_latest_.subscribe"
COMPOSITES = {
    ("reactivex/operators/_flatmap.py", "flat_map_latest_"): ["map", "switch_latest"],
    ("reactivex/operators/__init__.py", "switch_map"): ["map", "switch_latest"],
    ("reactivex/operators/__init__.py", "switch_map_indexed"): ["map_indexed", "switch_latest"],
}


def _eq_guard(e, pol, latest, idv) -> bool:
    """guard `latest == id` (either order) holding, or `latest != id` failing"""
    if isinstance(e, ast.Compare) and len(e.ops) == 1 and isinstance(e.ops[0], (ast.Eq, ast.NotEq)):
        a, b = cell_name(e.left), cell_name(e.comparators[0])
        if {a, b} == {latest, idv}:
            return pol == isinstance(e.ops[0], ast.Eq)
    return False


def check(repo: Repo, rep: Report) -> None:
    rep.explanation = (
        "Structural clauses of switch_latest_: (1) typestate signatures equal the confirmed reference (" + TC.LEGEND + "); "
        "(2) stale guard: every downstream call made by a handler attached to an inner sequence is dominated by an equality "
        "between the id captured when that inner arrived and the current 'latest' id; the id is incremented (and captured) "
        "before the new inner is subscribed; (3) the holder of the new inner subscription is assigned to a SerialDisposable "
        "— which disposes the previous inner at that moment — before subscribing, and that SerialDisposable is held by the "
        "returned composite; (4) completion join: inner completion completes downstream only if the outer stopped, the "
        "outer's only if no inner is live; (5) switch_map / switch_map_indexed / flat_map_latest are map + switch_latest.")
    rep.rule("K1-signature", "typestate signature of each slot equals the confirmed reference", floor=6)
    rep.rule("W1-stale-guard", "inner handlers forward only under `latest == captured id`; id bumped before subscribing", floor=4)
    rep.rule("W2-serial-swap", "previous inner disposed through the SerialDisposable on arrival; held by the result", floor=2)
    rep.rule("W3-completion-join", "completion requires outer stopped and no live inner", floor=2)
    rep.rule("W4-delegations", "switch_map* / flat_map_latest delegations", floor=3)
    TC.check_operator(repo, rep, "K1-signature", KEY,
                      lambda k, slot: "Only the latest inner may reach the subscriber; errors pass through; completion only via the join.")
    root = repo.fn(SW, "switch_latest_.subscribe")
    outer_next = root.child("on_next")
    rep.require(outer_next is not None, "outer on_next")
    inner_sub = [s for s in sites(outer_next) if is_subscribe_call(s.node)]
    rep.require(len(inner_sub) == 1, "inner subscription in switch_latest")
    # roles: `latest` is the cell the outer element handler increments; the captured id is the local copied from it;
    # the stopped flag is the cell the outer completion sets True; has-latest the cell the outer element handler sets True
    outer_done = root.child("on_completed")
    rep.require(outer_done is not None, "outer on_completed")
    lat = names_augmented(outer_next, ast.Add)
    stopped_flags = names_assigned_const(outer_done, True)
    live_flags = names_assigned_const(outer_next, True)
    if len(lat) != 1 or not stopped_flags or not live_flags:
        missing = [w for w, have in (("an id incremented per arriving inner", len(lat) == 1), ("a flag the outer completion raises", bool(stopped_flags)),
                                     ("a flag an arriving inner raises", bool(live_flags))) if not have]
        rep.ob("W3-completion-join" if len(lat) == 1 else "W1-stale-guard", root, "switch_latest keeps: latest id, outer-stopped flag, has-latest flag", False,
               f"switch_latest does not keep {' / '.join(missing)}: stale inners cannot be told from the latest one, or the completion join "
               f"(outer stopped and no live inner) cannot be decided — the result completes early, never, or forwards a superseded inner")
        return
    latest = lat[0]
    cap = [s for s in sites(outer_next) if isinstance(s.node, ast.Assign) and isinstance(s.node.targets[0], ast.Name) and cell_name(s.node.value) == latest]
    inc = [s for s in sites(outer_next) if isinstance(s.node, ast.AugAssign) and cell_name(s.node.target) == latest and isinstance(s.node.op, ast.Add)]
    idv = u(cap[0].node.targets[0]) if cap else None
    ok = bool(cap) and bool(inc) and inc[0].index < cap[0].index < inner_sub[0].index
    rep.ob("W1-stale-guard", outer_next, f"latest += 1; {idv} = latest; ...subscribe(inner)", ok,
           "the 'latest' id is not advanced and captured before the new inner is subscribed: elements of the new inner are "
           "dropped as stale or the previous inner is still considered current")
    for g, s, k in TC.downstream_sites(root):
        if g.parent is not outer_next:
            continue
        gt = TC.guards_text(s)
        from ..rules import expanded_guards as _xg
        ok = any(_eq_guard(e, p, latest, idv) for e, p in _xg(g, s.ctx)) if idv else False
        rep.ob("W1-stale-guard", g, f"inner {g.name}: {short(s.node)} under {gt}", ok,
               f"an inner sequence's {k} reaches the subscriber without `latest == {idv}` dominating it: a superseded inner "
               f"still emits / terminates the output")
    # state writes of inner handlers are stale-guarded too: a superseded inner must not touch the join state
    for g in outer_next.children:
        if not g.is_func:
            continue
        for s in sites(g):
            n_ = s.node
            if isinstance(n_, (ast.Assign, ast.AugAssign)):
                tgt = n_.targets[0] if isinstance(n_, ast.Assign) else n_.target
                cn = cell_name(tgt)
                if cn and g.owner(cn) is root:
                    from ..rules import expanded_guards as _xg2
                    ok = any(_eq_guard(e, p, latest, idv) for e, p in _xg2(g, s.ctx)) if idv else False
                    rep.ob("W1-stale-guard", g, f"inner {g.name}: `{short(n_, 40)}` under the stale guard", ok,
                           f"an inner sequence's {g.name} updates the operator's state (`{cn}`) without `latest == {idv}` dominating "
                           f"it: a superseded inner that terminates late resets the join state of the current one (the output "
                           f"completes while the latest inner is still running)")
    # serial swap
    sub = inner_sub[0]
    holder = u(sub.stmt.targets[0].value) if isinstance(sub.stmt, ast.Assign) and isinstance(sub.stmt.targets[0], ast.Attribute) else None
    swaps = [s for s in sites(outer_next) if isinstance(s.node, ast.Assign) and isinstance(s.node.targets[0], ast.Attribute)
             and s.node.targets[0].attr == "disposable" and u(s.node.value) == holder]
    sv = u(swaps[0].node.targets[0].value) if swaps else None
    serial = sv and any(isinstance(x.node, ast.Assign) and u(x.node.targets[0]) == sv and isinstance(x.node.value, ast.Call)
                        and call_name(x.node.value) == "SerialDisposable" for x in sites(root))
    ok = bool(swaps) and dominates(swaps[0], sub) and bool(serial)
    rep.ob("W2-serial-swap", outer_next, f"{sv}.disposable = {holder} before {holder}.disposable = inner.subscribe(...)", ok,
           "the previous inner is not unsubscribed (through the SerialDisposable) as soon as a new inner arrives")
    own = Ownership(model_of(repo), root)
    ok = sv is not None and own.reaches_ret(("v", id(root), sv))
    rep.ob("W2-serial-swap", root, f"{sv} held by the returned disposable", ok, "the current inner subscription is not released on dispose")
    # completion join
    for g, s, k in TC.downstream_sites(root, ("on_completed",)):
        gt = TC.guards_text(s)
        if g.parent is outer_next:
            ok = any(p and cell_name(e) in stopped_flags for e, p in s.ctx.guards)
            rep.ob("W3-completion-join", g, f"inner completion: {gt}", ok, "the latest inner's completion completes the output although the outer has not completed")
        else:
            ok = any((not p) and cell_name(e) in live_flags for e, p in s.ctx.guards) and any(
                isinstance(x.node, ast.Assign) and cell_name(x.node.targets[0]) in stopped_flags and u(x.node.value) == "True" and x.index < s.index for x in sites(g))
            rep.ob("W3-completion-join", g, f"outer completion: {gt}", ok, "the outer's completion completes the output while the latest inner is still live")
    TC.composite_uses(repo, rep, "W4-delegations", COMPOSITES)
    TC.pipelines_exact(repo, rep, "W4-delegations", {
        ("reactivex/operators/_flatmap.py", "flat_map_latest_"): [["map", "switch_latest"]],
        ("reactivex/operators/__init__.py", "switch_map"): [["map", "switch_latest"]],
        ("reactivex/operators/__init__.py", "switch_map_indexed"): [["map_indexed", "switch_latest"]],
    })
