"""C13 — multi-source combinators follow their pairing rules (S1)."""
from __future__ import annotations

import ast

from ..astutil import call_name, dotted, short, u
from ..core import Report
from ..ctx import sites
from ..frontend import Repo
from . import typestate_common as TC
from .C43 import winner_gate_ok

KEYS = [
    "reactivex/observable/zip.py::zip_.subscribe",
    "reactivex/observable/combinelatest.py::combine_latest_.subscribe",
    "reactivex/observable/withlatestfrom.py::with_latest_from_.subscribe",
    "reactivex/observable/forkjoin.py::fork_join_.subscribe",
    "reactivex/operators/_amb.py::amb_.subscribe",
]
WHY = {
    "zip_": "zip: an element may emit a tuple and then complete only if a completed source has nothing buffered; a source's completion completes only when its own buffer is empty.",
    "combine_latest_": "combine_latest: emit only once every source has a value; complete when all sources are done.",
    "with_latest_from_": "with_latest_from: only primary elements emit, children only record; only the primary completes; any error terminates.",
    "fork_join_": "fork_join: nothing per element; emit the tuple of last values when all completed, or complete at once when a source completes empty.",
    "amb_": "amb: every notification of either side goes through the winner gate.",
}


def check(repo: Repo, rep: Report) -> None:
    rep.explanation = (
        "Completion / emission dependence signatures of the five combinators against the hand-confirmed reference ("
        + TC.LEGEND + "), plus the presence and gating clauses: zip buffers per source and emits only when every queue is "
        "non-empty; combine_latest's emission is dominated by the all-have-value flag, completion by all-done; "
        "with_latest_from emits only under `NO_VALUE not in values` (a sentinel, not truthiness) and its children have no "
        "completion slot; fork_join decides with per-source has-value flags; amb's downstream calls are all dominated by "
        "the once-assigned winner flag and the loser's subscription is disposed in the same step as the choice. Tuple "
        "contents and timing are not decided.")
    rep.rule("K1-signature", "typestate signature of each slot equals the confirmed reference", floor=14)
    rep.rule("G1-gating", "emission / completion gates of each combinator", floor=8)
    for key in KEYS:
        name = key.split("::")[1].split(".")[0]
        TC.check_operator(repo, rep, "K1-signature", key, lambda k, slot, n=name: WHY[n])
    TC.rule_scheduler_forwarded(rep, "F0-scheduler-forwarded", repo.fn("reactivex/operators/_zip.py", "zip_with_iterable_.subscribe"))
    # zip -- role: the per-source buffers are the local that element handlers append their element to (`Q[i].append(x)`)
    z = repo.fn("reactivex/observable/zip.py", "zip_.subscribe")
    queues = set()
    for g in z.walk():
        if g.is_func:
            for n in g.direct_nodes():
                if isinstance(n, ast.Call) and isinstance(n.func, ast.Attribute) and n.func.attr == "append" \
                        and isinstance(n.func.value, ast.Subscript) and isinstance(n.func.value.value, ast.Name) \
                        and n.args and isinstance(n.args[0], ast.Name) and n.args[0].id in g.params:
                    queues.add(n.func.value.value.id)
    rep.require(len(queues) == 1, "zip: per-source buffers")
    def mentions(e, names):
        return any(isinstance(x, ast.Name) and x.id in names for x in ast.walk(e))
    def is_call(e, fname):
        return isinstance(e, ast.Call) and isinstance(e.func, ast.Name) and e.func.id == fname
    for g, s, k in TC.downstream_sites(z, ("on_next",)):
        gt = TC.guards_text(s)
        from ..rules import expanded_guards as _xg
        rep.ob("G1-gating", g, f"zip emits under {gt}", any(p and is_call(e, "all") and mentions(e, queues) for e, p in _xg(g, s.ctx)),
               "zip emits a tuple although some source has no buffered element")
    for g, s, k in TC.downstream_sites(z, ("on_completed",)):
        gt = TC.guards_text(s)
        from ..rules import expanded_guards as _xg
        ok = any(p and mentions(e, queues) and (is_call(e, "any") or (isinstance(e, ast.Compare) and "len(" in u(e))) for e, p in _xg(g, s.ctx))
        rep.ob("G1-gating", g, f"zip completes under {gt}", ok, "zip completes although the completed source still has buffered elements")
    # combine_latest -- role: the all-have-value flag is a variable assigned from an expression containing all(<has-value cells>)
    c = repo.fn("reactivex/observable/combinelatest.py", "combine_latest_.subscribe")
    for g, s, k in TC.downstream_sites(c, ("on_next",)):
        gt = TC.guards_text(s)
        from ..rules import cell_name as _cell
        flags = {_cell(t) for n in g.direct_nodes() if isinstance(n, ast.Assign) for t in n.targets if _cell(t)
                 and any(is_call(x, "all") for x in ast.walk(n.value))}
        ok = any(p and ((isinstance(e, (ast.Name, ast.Subscript)) and _cell(e) in flags) or is_call(e, "all")) for e, p in s.ctx.guards)
        rep.ob("G1-gating", g, f"combine_latest emits under {gt}", ok, "combine_latest emits before every source has produced a value")
    for g, s, k in TC.downstream_sites(c, ("on_completed",)):
        gt = TC.guards_text(s)
        rep.ob("G1-gating", g, f"combine_latest completes under {gt}", any(p and is_call(e, "all") for e, p in s.ctx.guards),
               "combine_latest completes before all sources are done")
    # with_latest_from -- role: `values` is the list the child handlers store into; it is initialised with a sentinel object
    w = repo.fn("reactivex/observable/withlatestfrom.py", "with_latest_from_.subscribe")
    stores = set()
    for g in w.walk():
        if g.is_func and g.params:
            for n in g.direct_nodes():
                if isinstance(n, ast.Assign) and isinstance(n.targets[0], ast.Subscript) and isinstance(n.targets[0].value, ast.Name) \
                        and isinstance(n.value, ast.Name) and n.value.id in g.params:
                    stores.add(n.targets[0].value.id)
    rep.require(len(stores) == 1, "with_latest_from: latest-values list")
    vals = next(iter(stores))
    for g, s, k in TC.downstream_sites(w, ("on_next",)):
        gt = TC.guards_text(s)
        ok = False
        by_equality = False
        o = g.owner(vals)
        inits = [n.value for n in (o.direct_nodes() if o is not None else ()) if isinstance(n, (ast.Assign, ast.AnnAssign)) and n.value is not None
                 and u(n.targets[0] if isinstance(n, ast.Assign) else n.target) == vals]
        for e, p in s.ctx.guards:
            # `not any(v is MARK for v in values)` / `all(v is not MARK for v in values)`: identity with the marker the list is initialised with
            if isinstance(e, ast.Call) and call_name(e) in ("any", "all") and len(e.args) == 1 and isinstance(e.args[0], (ast.GeneratorExp, ast.ListComp)) \
                    and len(e.args[0].generators) == 1 and u(e.args[0].generators[0].iter) == vals and not e.args[0].generators[0].ifs:
                elt, var = e.args[0].elt, u(e.args[0].generators[0].target)
                if isinstance(elt, ast.Compare) and len(elt.ops) == 1 and isinstance(elt.ops[0], (ast.Is, ast.IsNot)) and isinstance(elt.comparators[0], ast.Name) \
                        and u(elt.left) == var:
                    sentinel = elt.comparators[0].id
                    want_any = isinstance(elt.ops[0], ast.Is)
                    if (call_name(e) == "any") == want_any and p == (not want_any):
                        ok = bool(inits) and all(mentions(v, {sentinel}) for v in inits)
            if isinstance(e, ast.Compare) and len(e.ops) == 1 and isinstance(e.ops[0], (ast.NotIn, ast.In, ast.Eq, ast.NotEq)) \
                    and any(isinstance(x, ast.Name) and x.id == vals for x in ast.walk(e)):
                by_equality = True
        rep.ob("G1-gating", g, f"with_latest_from emits under {gt}", ok,
               ("with_latest_from decides 'every other source has a value' with `in` / `==` on the stored elements: the comparison runs the "
                "element's own __eq__, so an element that compares equal to anything (mock.ANY, a wildcard object) is taken for the "
                "no-value marker and the operator never emits" if by_equality else
                "with_latest_from emits before every other source has a value (or decides by truthiness / equality of the values "
                "instead of identity with the marker the list is initialised with)"))
    # the other sources are subscribed before the primary: a primary that emits inside subscribe() must already find their
    # latest values (every child subscription site precedes the primary's)
    from ..model import is_subscribe_call as _isc
    for g_ in w.walk():
        if not g_.is_func:
            continue
        prim = [x for x in sites(g_) if _isc(x.node) and isinstance(x.node.func.value, ast.Name) and g_.params and x.node.func.value.id == g_.params[0]]
        kids = [x for x in sites(g_) if isinstance(x.node, ast.Call) and isinstance(x.node.func, ast.Name) and g_.resolve_local_def(x.node.func.id) is not None
                and any(_isc(y.node) for y in sites(g_.resolve_local_def(x.node.func.id)))]
        if prim and kids:
            rep.ob("G1-gating", g_, "with_latest_from: the other sources are subscribed before the primary", all(k.index < prim[0].index for k in kids),
                   "with_latest_from subscribes its primary source before the others: primary elements delivered at subscription time are "
                   "dropped although every other source would have had a value")
    # reactivex.amb(*sources): every source is folded through the two-source operator
    rep.rule("A1-amb-fold", "reactivex.amb folds every one of its sources through the two-source amb operator and returns the fold", floor=1)
    af = repo.fn("reactivex/observable/amb.py", "amb_")
    var = af.node.args.vararg.arg if af.node.args.vararg else None
    loops = [n for n in af.direct_nodes() if isinstance(n, ast.For) and isinstance(n.iter, ast.Name) and n.iter.id == var and isinstance(n.target, ast.Name)]
    ok = False
    what = "no loop over the sources"
    if len(loops) == 1:
        lv = loops[0].target.id
        accs = [st for st in loops[0].body if isinstance(st, ast.Assign) and isinstance(st.targets[0], ast.Name)
                and any(isinstance(x, ast.Name) and x.id == st.targets[0].id for x in ast.walk(st.value))
                and any(isinstance(x, ast.Name) and x.id == lv for x in ast.walk(st.value))]
        rets = [n for n in af.direct_nodes() if isinstance(n, ast.Return)]
        uses_amb = any(isinstance(x, ast.Call) and call_name(x) == "amb" for g_ in af.walk() for x in g_.all_nodes()) if hasattr(af, "walk") else False
        ok = len(accs) == 1 and len(rets) == 1 and u(rets[0].value) == accs[0].targets[0].id and uses_amb
        what = "the loop does not accumulate `acc = amb(acc, source)` / the fold is not returned"
    rep.ob("A1-amb-fold", af, "for source in sources: acc = amb(acc, source); return acc", ok,
           f"reactivex.amb does not race all its sources ({what}): some sources are never subscribed — the result mirrors the wrong "
           f"source or never()")
    # fork_join
    f = repo.fn("reactivex/observable/forkjoin.py", "fork_join_.subscribe")
    for g, s, k in TC.downstream_sites(f, ("on_next",)):
        gt = TC.guards_text(s)
        rep.ob("G1-gating", g, f"fork_join emits under {gt}", sum(1 for e, p in s.ctx.guards if p and is_call(e, "all")) >= 2,
               "fork_join emits without all sources having completed with a value")
    # amb
    a = repo.fn("reactivex/operators/_amb.py", "amb_.subscribe")
    n = 0
    for g, s, k in TC.downstream_sites(a):
        ok, flag = winner_gate_ok(a, g, s)
        n += 1
        rep.ob("G1-gating", g, f"amb {g.name}: {short(s.node)} behind the winner gate", ok, "a notification bypasses amb's winner choice")
    # role: the choice helper called by one side's handlers disposes the holder of the *other* side's subscription
    from ..model import is_subscribe_call
    subs = [x for x in sites(a) if is_subscribe_call(x.node)]
    rep.require(len(subs) == 2, "amb: two subscriptions")
    def holder_of(x):
        tgt = x.stmt.targets[0] if isinstance(x.stmt, ast.Assign) else None
        if isinstance(tgt, ast.Attribute) and tgt.attr == "disposable":
            return u(tgt.value)
        if isinstance(tgt, ast.Name):
            for y in sites(a):
                if isinstance(y.node, ast.Assign) and isinstance(y.node.targets[0], ast.Attribute) and y.node.targets[0].attr == "disposable" \
                        and u(y.node.value) == tgt.id:
                    return u(y.node.targets[0].value)
        return None
    def chooser_of(x):
        out = set()
        for arg in x.node.args:
            h = a.resolve_local_def(arg.id) if isinstance(arg, ast.Name) else None
            if h is not None:
                for m in h.direct_nodes():
                    if isinstance(m, ast.Call) and isinstance(m.func, ast.Name) and a.resolve_local_def(m.func.id) is not None:
                        out.add(m.func.id)
        return out
    info = [(chooser_of(x), holder_of(x)) for x in subs]
    for i, (choosers, holder) in enumerate(info):
        other_holder = info[1 - i][1]
        rep.require(len(choosers) == 1 and holder is not None and other_holder is not None, "amb: choice helper / subscription holders")
        side = next(iter(choosers))
        ch = a.child(side)
        ok = ch is not None and any(isinstance(x.node, ast.Call) and dotted(x.node.func) == f"{other_holder}.dispose" and
                                    any((not p) and any(isinstance(t, ast.Assign) and u(t.targets[0]) == u(e) for t in ch.direct_nodes())
                                        for e, p in x.ctx.guards) for x in sites(ch))
        rep.ob("G1-gating", a, f"{side}: loser's subscription disposed with the choice", ok, "the losing source is not unsubscribed at the moment the winner is chosen")
        # every notification kind of a side takes part in the race: its handler calls the side's choice helper, unconditionally,
        # before it tests the winner (a first notification that is an error / completion must win too)
        for arg in subs[i].node.args:
            h = a.resolve_local_def(arg.id) if isinstance(arg, ast.Name) else None
            if h is None:
                rep.ob("G1-gating", a, f"amb: `{short(arg, 30)}` handed to subscribe is a local handler", False,
                       "amb hands a notification kind straight to the subscriber (or to a non-local handler): it bypasses the race")
                continue
            hs = list(sites(h))
            calls = [y for y in hs if isinstance(y.node, ast.Call) and isinstance(y.node.func, ast.Name) and y.node.func.id == side and not y.ctx.branch]
            down = [y for y in hs if isinstance(y.node, ast.Call) and isinstance(y.node.func, ast.Attribute) and y.node.func.attr in ("on_next", "on_error", "on_completed")
                    and u(y.node.func.value) == a.params[0]]
            # ... and forwards only if the winner is ITS side: the constant in the gate is the one its side's choice helper assigns
            side_consts = {u(n_.value) for n_ in (ch.direct_nodes() if ch is not None else ()) if isinstance(n_, ast.Assign) and isinstance(n_.value, ast.Name)}
            for d in down:
                gate = [e for e, p_ in d.ctx.guards if p_ and isinstance(e, ast.Compare) and len(e.ops) == 1 and isinstance(e.ops[0], ast.Eq)]
                okc = any(isinstance(e.comparators[0], ast.Name) and u(e.comparators[0]) in side_consts or isinstance(e.left, ast.Name) and u(e.left) in side_consts for e in gate)
                rep.ob("G1-gating", h, f"amb {h.name}: `{short(d.node, 30)}` gated by its own side's constant {sorted(side_consts)}", okc,
                       f"amb's {h.name} forwards when the OTHER side won (gate {[short(e, 40) for e in gate]}): this side's notifications are dropped when it "
                       f"wins and forwarded when it lost")
            rep.ob("G1-gating", h, f"amb {h.name}: {side}() before the winner test", bool(calls) and all(calls[0].index < d.index for d in down),
                   f"amb's {h.name} does not enter the race ({side}() is not called first): when this is the first notification of all, no winner "
                   f"is chosen and the notification is dropped — amb does not mirror the first source to notify")
