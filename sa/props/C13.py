"""C13 — multi-source combinators follow their pairing rules (S1)."""
from __future__ import annotations

import ast

from ..astutil import call_name, dotted, short, u
from ..core import Report
from ..ctx import sites
from ..frontend import Repo
from . import typestate_common as TC
from .C43 import winner_gate_ok

KEYS = [
    "reactivex/observable/zip.py::zip_.subscribe",
    "reactivex/observable/combinelatest.py::combine_latest_.subscribe",
    "reactivex/observable/withlatestfrom.py::with_latest_from_.subscribe",
    "reactivex/observable/forkjoin.py::fork_join_.subscribe",
    "reactivex/operators/_amb.py::amb_.subscribe",
]
WHY = {
    "zip_": "zip: an element may emit a tuple and then complete only if a completed source has nothing buffered; a source's completion completes only when its own buffer is empty.",
    "combine_latest_": "combine_latest: emit only once every source has a value; complete when all sources are done.",
    "with_latest_from_": "with_latest_from: only primary elements emit, children only record; only the primary completes; any error terminates.",
    "fork_join_": "fork_join: nothing per element; emit the tuple of last values when all completed, or complete at once when a source completes empty.",
    "amb_": "amb: every notification of either side goes through the winner gate.",
}


def check(repo: Repo, rep: Report) -> None:
    rep.explanation = (
        "Completion / emission dependence signatures of the five combinators against the hand-confirmed reference ("
        + TC.LEGEND + "), plus the presence and gating clauses: zip buffers per source and emits only when every queue is "
        "non-empty; combine_latest's emission is dominated by the all-have-value flag, completion by all-done; "
        "with_latest_from emits only under `NO_VALUE not in values` (a sentinel, not truthiness) and its children have no "
        "completion slot; fork_join decides with per-source has-value flags; amb's downstream calls are all dominated by "
        "the once-assigned winner flag and the loser's subscription is disposed in the same step as the choice. Tuple "
        "contents and timing are not decided.")
    rep.rule("K1-signature", "typestate signature of each slot equals the confirmed reference", floor=14)
    rep.rule("G1-gating", "emission / completion gates of each combinator", floor=8)
    for key in KEYS:
        name = key.split("::")[1].split(".")[0]
        TC.check_operator(repo, rep, "K1-signature", key, lambda k, slot, n=name: WHY[n])
    # zip
    z = repo.fn("reactivex/observable/zip.py", "zip_.subscribe")
    for g, s, k in TC.downstream_sites(z, ("on_next",)):
        gt = TC.guards_text(s)
        rep.ob("G1-gating", g, f"zip emits under {gt}", any("all(" in t and "queues" in t for t in gt),
               "zip emits a tuple although some source has no buffered element")
    for g, s, k in TC.downstream_sites(z, ("on_completed",)):
        gt = TC.guards_text(s)
        ok = any("len(queue" in t or "any(" in t for t in gt)
        rep.ob("G1-gating", g, f"zip completes under {gt}", ok, "zip completes although the completed source still has buffered elements")
    # combine_latest
    c = repo.fn("reactivex/observable/combinelatest.py", "combine_latest_.subscribe")
    for g, s, k in TC.downstream_sites(c, ("on_next",)):
        gt = TC.guards_text(s)
        rep.ob("G1-gating", g, f"combine_latest emits under {gt}", any("has_value_all" in t and not t.startswith("not") for t in gt),
               "combine_latest emits before every source has produced a value")
    for g, s, k in TC.downstream_sites(c, ("on_completed",)):
        gt = TC.guards_text(s)
        rep.ob("G1-gating", g, f"combine_latest completes under {gt}", any("all(" in t for t in gt), "combine_latest completes before all sources are done")
    # with_latest_from
    w = repo.fn("reactivex/observable/withlatestfrom.py", "with_latest_from_.subscribe")
    for g, s, k in TC.downstream_sites(w, ("on_next",)):
        gt = TC.guards_text(s)
        rep.ob("G1-gating", g, f"with_latest_from emits under {gt}", any("NO_VALUE not in values" in t for t in gt),
               "with_latest_from emits before every other source has a value (or decides by truthiness of the values)")
    # fork_join
    f = repo.fn("reactivex/observable/forkjoin.py", "fork_join_.subscribe")
    for g, s, k in TC.downstream_sites(f, ("on_next",)):
        gt = TC.guards_text(s)
        rep.ob("G1-gating", g, f"fork_join emits under {gt}", any("all(" in t or "has_value" in t for t in gt) and bool(gt),
               "fork_join emits without all sources having completed with a value")
    # amb
    a = repo.fn("reactivex/operators/_amb.py", "amb_.subscribe")
    n = 0
    for g, s, k in TC.downstream_sites(a):
        ok, flag = winner_gate_ok(a, g, s)
        n += 1
        rep.ob("G1-gating", g, f"amb {g.name}: {short(s.node)} behind the winner gate", ok, "a notification bypasses amb's winner choice")
    for side, other in (("choice_left", "right_subscription"), ("choice_right", "left_subscription")):
        ch = a.child(side)
        ok = ch is not None and any(isinstance(s.node, ast.Call) and dotted(s.node.func) == f"{other}.dispose" and
                                    any("choice" in u(e) and not p for e, p in s.ctx.guards) for s in sites(ch))
        rep.ob("G1-gating", a, f"{side}: loser ({other}) disposed with the choice", ok, "the losing source is not unsubscribed at the moment the winner is chosen")
