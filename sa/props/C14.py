"""C14 — early termination cancels synchronous infinite sources (S2)."""
from __future__ import annotations

import ast

from ..astutil import call_name, dotted, short, u
from ..core import Report
from ..ctx import sites, dominates
from ..engines.ownership import Ownership
from ..frontend import Repo
from ..model import is_schedule_call, model_of
from ..rules import has_guard
from . import typestate_common as TC
from .C03 import rule_producer_poll
from .common_own import rule_wrapper_release

OBS = "reactivex/observable/observable.py"
TS = "reactivex/scheduler/trampolinescheduler.py"
PRODUCERS = [
    ("reactivex/observable/range.py", "range_.subscribe"),
    ("reactivex/observable/generate.py", "generate_.subscribe"),
    ("reactivex/observable/fromiterable.py", "from_iterable_.subscribe"),
    ("reactivex/observable/returnvalue.py", "return_value_.subscribe"),
    ("reactivex/observable/returnvalue.py", "from_callable_.subscribe"),
]
EARLY = {
    "reactivex/operators/_take.py::take_.subscribe": ("source#0", "on_next"),
    "reactivex/operators/_firstordefault.py::first_or_default_async_.first_or_default_async.subscribe": ("source#0", "on_next"),
    "reactivex/operators/_takewhile.py::take_while_.subscribe": ("source#0", "on_next"),
    "reactivex/operators/_takewhile.py::take_while_indexed_.subscribe": ("source#0", "on_next"),
    "reactivex/operators/_elementatordefault.py::element_at_or_default_.subscribe": ("source#0", "on_next"),
    "reactivex/operators/_find.py::find_value_.subscribe": ("source#0", "on_next"),
    "reactivex/operators/_some.py::some_.subscribe": ("source#0", "on_next"),
    "reactivex/operators/_takeuntil.py::take_until_.subscribe": ("inner#0", "on_next"),
}


def check(repo: Repo, rep: Report) -> None:
    rep.explanation = (
        "Decided chain of necessary conditions: (a) Observable.subscribe runs _subscribe_core through the current-thread "
        "trampoline whenever schedule_required() — so the subscription is assigned before a synchronous source starts "
        "emitting — and schedule_required is the trampoline's idle state; (b) every synchronous producer either polls, in "
        "its emit loop, a flag set through the returned disposable, or emits one element per scheduled step and re-"
        "schedules itself through a container that is (held by) the returned disposable; (c) every early terminator has "
        "an element (or trigger) path that reaches a terminal downstream call — so the wrapper disposes (d: terminal => "
        "dispose, finally) and the producer's next poll / step is cancelled. The amount of work done before returning is "
        "not measured.")
    rep.rule("H1-trampolined-subscribe", "subscribe goes through the trampoline when required; schedule_required = idle()", floor=3)
    rep.rule("H2-cancellable-producer", "producers poll a dispose flag or re-schedule per element through the returned disposable", floor=5)
    rep.rule("H6-fair-producer", "synchronous producers emit one element per scheduled step, yielding to the trampoline in between", floor=4)
    rep.rule("H3-early-terminal", "early terminators reach a terminal downstream call from their element / trigger path", floor=8)
    sub = repo.fn(OBS, "Observable.subscribe")
    # role, not name: the deferred step is the closure of subscribe() that calls self._subscribe_core
    steps = [g.name for g in sub.children if g.is_func and any(isinstance(x.node, ast.Call) and dotted(x.node.func) == "self._subscribe_core" for x in sites(g))]
    step = steps[0] if len(steps) == 1 else "?subscribe-step"
    sched = [s for s in sites(sub) if isinstance(s.node, ast.Call) and isinstance(s.node.func, ast.Attribute) and s.node.func.attr == "schedule"
             and s.node.args and u(s.node.args[0]) == step]
    direct = [s for s in sites(sub) if isinstance(s.node, ast.Call) and isinstance(s.node.func, ast.Name) and s.node.func.id == step]
    ok = len(sched) == 1 and len(direct) == 1 and any(isinstance(e, ast.Call) and e.func.attr == "schedule_required" and p for e, p in sched[0].ctx.guards
                                                       if isinstance(e.func, ast.Attribute)) \
        and any(isinstance(e, ast.Call) and isinstance(e.func, ast.Attribute) and e.func.attr == "schedule_required" and not p for e, p in direct[0].ctx.guards)
    rep.ob("H1-trampolined-subscribe", sub, "if schedule_required(): schedule(set_disposable) else set_disposable()", ok,
           "Observable.subscribe does not defer the source's subscribe function to the trampoline when one is required: a "
           "synchronous source emits everything before the subscription is assigned, so an early terminator cannot cancel it")
    recv = dotted(sched[0].node.func.value) if sched else None
    ok = recv is not None and any(isinstance(s.node, ast.Assign) and u(s.node.targets[0]) == recv and u(s.node.value) == "CurrentThreadScheduler.singleton()" for s in sites(sub))
    rep.ob("H1-trampolined-subscribe", sub, "the trampoline is the current thread's scheduler", ok, "subscribe does not use the current-thread trampoline")
    # H5: the deferral covers the scheduler the subscription is actually made with.  The property also quantifies over an
    # *explicit* immediate / current-thread scheduler passed to subscribe(); the sources schedule their emission steps on that
    # scheduler, so unless the deferral decision takes it into account a source on a synchronous explicit scheduler starts
    # (and, being never-ending, keeps running) inside _subscribe_core, before the subscription handle exists.
    rep.rule("H5-explicit-scheduler", "the deferral in Observable.subscribe takes the subscription's explicit scheduler into account", floor=1)
    sched_param = next((p_ for p_ in sub.params if p_ == "scheduler"), None)
    rep.require(sched_param is not None, "Observable.subscribe(scheduler=...) parameter")
    decide = []
    for s_ in sites(sub):
        if isinstance(s_.node, ast.If) and any(isinstance(x, ast.Attribute) and x.attr == "schedule_required" for x in ast.walk(s_.node.test)):
            decide.append(s_)
    uses_explicit = False
    for d_ in decide:
        names = {x.id for x in ast.walk(d_.node.test) if isinstance(x, ast.Name)}
        defs = [y.node.value for y in sites(sub) if isinstance(y.node, ast.Assign) and isinstance(y.node.targets[0], ast.Name) and y.node.targets[0].id in names]
        if sched_param in names or any(isinstance(x, ast.Name) and x.id == sched_param for dv in defs for x in ast.walk(dv)):
            uses_explicit = True
    rep.ob("H5-explicit-scheduler", sub, "Observable.subscribe: the trampoline deferral ignores the explicit `scheduler` argument", bool(decide) and uses_explicit,
           "Observable.subscribe defers the source's subscribe function only through CurrentThreadScheduler.singleton(); with an explicit "
           "ImmediateScheduler or a fresh CurrentThreadScheduler passed to subscribe(), range / from_iterable / generate / repeat_value run "
           "their emission steps synchronously inside _subscribe_core, before the subscription handle exists: take(n) cannot cancel them and "
           "subscribe() does not return after a bounded amount of work")
    sr = repo.fn(TS, "TrampolineScheduler.schedule_required")
    ok = any(isinstance(s.node, ast.Return) and u(s.node.value) == "self.get_trampoline().idle()" for s in sites(sr))
    rep.ob("H1-trampolined-subscribe", sr, "schedule_required() = trampoline.idle()", ok, "schedule_required does not report the trampoline's idle state")
    # a drain that ends by an exception must not leave the other sources' pending steps behind: the next, unrelated
    # subscribe on this thread would resurrect them (a zombie never-ending source feeding an exhausted `take`)
    rep.rule("H4-drain-leaves-nothing", "Trampoline.run empties the queue, under the lock, on the failure path of the drain that restores idle (finally / re-raising catch-all)", floor=1)
    trun = repo.fn("reactivex/scheduler/trampoline.py", "Trampoline.run")
    from .C30 import trampoline_roles
    T_IDLE, T_Q, _T_LK, _T_CV = trampoline_roles(repo)
    clears = [s for s in sites(trun) if isinstance(s.node, ast.Call) and isinstance(s.node.func, ast.Attribute) and s.node.func.attr == "clear"
              and dotted(s.node.func.value) == f"self.{T_Q}"]
    idles = [s for s in sites(trun) if isinstance(s.node, ast.Assign) and u(s.node.targets[0]) == f"self.{T_IDLE}" and u(s.node.value) == "True"]
    def _failure_ctx(x):
        # runs when the drain raises: inside a `finally`, or inside a catch-all handler that re-raises
        if x.ctx.finals:
            return ("finally", id(x.ctx.finals[-1]))
        for h in x.ctx.handlers:
            if (h.type is None or u(h.type) == "BaseException") and any(isinstance(y, ast.Raise) and y.exc is None for y in ast.walk(h)):
                return ("handler", id(h))
        return None
    ok = bool(clears) and bool(idles) and all(_failure_ctx(c) and c.ctx.locks for c in clears) and \
        any(_failure_ctx(c) == _failure_ctx(i) for c in clears for i in idles)
    rep.ob("H4-drain-leaves-nothing", trun, f"drain raised: with lock: {T_IDLE} = True; {T_Q}.clear()", ok,
           "Trampoline.run does not discard the remaining queue when the drain ends by an exception (under the lock): after an "
           "action raised, steps queued by other sources survive and are run by the next unrelated subscribe on the thread -- a "
           "never-ending source whose early terminator is already exhausted keeps producing for ever")
    rep.rule("F0-scheduler-forwarded", "trigger-driven early terminators subscribe source and trigger with the subscriber's scheduler", floor=2)
    for rel_, q_ in (("reactivex/operators/_takeuntil.py", "take_until_.subscribe"), ("reactivex/operators/_skipuntil.py", "skip_until_.subscribe")):
        TC.rule_scheduler_forwarded(rep, "F0-scheduler-forwarded", repo.fn(rel_, q_))
    # producers
    m = model_of(repo)
    rule_producer_poll(repo, rep, "E8-producer-poll")
    for rel, d in PRODUCERS:
        root = repo.fn(rel, d)
        own = Ownership(m, root)
        res = own.results()
        ok = bool(res) and all(okk for _, okk in res)
        loops = [n for g in root.walk() if g.is_func for n in g.direct_nodes() if isinstance(n, (ast.While, ast.For))
                 and any(isinstance(x, ast.Call) and dotted(x.func) == f"{root.params[0]}.on_next" for x in ast.walk(n))]
        how = "emit loop (poll rule applies)" if loops else "one element per scheduled step"
        rep.ob("H2-cancellable-producer", root, f"{root.qual}: {how}; every scheduled step held by the returned disposable", ok,
               f"{root.qual}: a scheduled emission step is not held by the returned disposable: dispose() cannot stop the producer")
        # H6: a never-ending producer must yield to the trampoline between elements.  An early terminator that depends on
        # *other* trampolined work (the inner sequences of flat_map / switch_map, the trigger of take_until) can only fire if
        # that work gets to run; a producer that emits its whole iterable from inside one action starves it.
        rep.ob("H6-fair-producer", root, f"{root.qual}: emits one element per scheduled step (yields to the trampoline)", not loops,
               f"{root.qual} emits all its elements from a loop inside a single scheduled action: work that downstream operators put on "
               f"the same trampoline (inner sequences of flat_map / switch_map, the trigger of take_until) never runs while an endless "
               f"iterable is being drained, so the early terminator never fires and subscribe() does not return")
    # early terminators
    from ..engines.typestate import signature
    for key, (subk, slot) in EARLY.items():
        rel, d = key.split("::")
        f = repo.fn(rel, d)
        sig = signature(m, f).get(subk, {}).get(slot, "-")
        ok = any(("C" in s or "E" in s) and not s.endswith("!") for s in TC.seqs(sig))
        rep.ob("H3-early-terminal", f, f"{subk}.{slot} = {sig}", ok,
               f"{f.qual}: no element/trigger path reaches a terminal downstream call: the operator cannot terminate early, so an "
               f"infinite synchronous source is never cancelled")
    rule_wrapper_release(repo, rep)
