"""C15 — time-shifting operators move notifications by the requested time (S1: structural clauses only)."""
from __future__ import annotations

import ast
from typing import List, Optional

from ..astutil import call_name, compare_norm, dotted, short, u
from ..core import Report
from ..ctx import sites, dominates
from ..engines.excident import rule_exception_identity
from ..frontend import Fn, Repo
from ..model import is_schedule_call, is_subscribe_call, model_of, resolve_callable, schedule_action_arg, subscribe_slots
from ..rules import cell_name, locals_by_init, names_assigned_const
from . import sync_common as SY
from . import typestate_common as TC

DL = "reactivex/operators/_delay.py"
DS = "reactivex/operators/_delaysubscription.py"
DM = "reactivex/operators/_delaywithmapper.py"
TS = "reactivex/operators/_timestamp.py"
TI = "reactivex/operators/_timeinterval.py"


def _mentions(e: ast.AST, names) -> bool:
    return any(isinstance(x, ast.Name) and x.id in names for x in ast.walk(e))


def check(repo: Repo, rep: Report) -> None:
    rep.explanation = (
        "The arithmetic of C15 ('exactly d later' for concrete timelines) is run-time and NOT decided. Decided are the "
        "structural clauses every correct implementation of the anchored design needs. delay: the source is observed "
        "materialized and timestamped; a non-error notification is queued with timestamp + delay (the delay being the "
        "variable derived from the operator's duetime); the error branch empties the queue, records the exception and, when "
        "no drain is running, calls on_error directly (not through the scheduler), the recorded exception being tested by "
        "identity; the drain pops from the *front* only under `timestamp <= now` (inclusive: an item is delivered exactly "
        "when due), replays it with accept(observer), re-schedules itself after max(0, head.timestamp - now) and is first "
        "scheduled after the delay. delay_with_mapper: the element is emitted from both the first emission and the "
        "completion of its delay sequence and the delay's holder is then removed (first signal wins); the holder is "
        "registered before the delay sequence is subscribed; the subscription-delay form does not let a synchronous signal "
        "clobber the source subscription (serial placeholder); completion = source ended and no pending delay. "
        "delay_subscription = delay_with_mapper(timer(duetime), empty). timestamp / time_interval read the clock of the "
        "subscription's scheduler per element; the interval is now - last with last updated afterwards and initialised at "
        "subscription. Every subscription made passes the subscriber's scheduler on.")
    rep.assumptions += ["scheduler arithmetic (to_timedelta / now / schedule_relative) behaves as specified (C29, C36)",
                        "materialize / timestamp / map / timer are their own properties' concern (C05, C37)"]
    rep.rule("T1-delay-queue", "delay: notifications queued at timestamp + delay; drain pops the head only when due (<=), in order; re-arms after max(0, head - now)", floor=6)
    rep.rule("T2-delay-error", "delay: an error empties the queue, is recorded and delivered at once when no drain runs; tested by identity", floor=5)
    rep.rule("T3-delay-with-mapper", "delay_with_mapper: element emitted on the delay's first signal (next or completion); holder discipline; completion join", floor=8)
    rep.rule("T4-delay-subscription", "delay_subscription = delay_with_mapper(timer(duetime, scheduler), empty)", floor=2)
    rep.rule("T5-clock-readings", "timestamp / time_interval read the subscription scheduler's clock per element; interval = now - last, then last = now", floor=6)
    rep.rule("F0-scheduler-forwarded", "every subscription made on behalf of a subscriber passes that subscriber's scheduler on", floor=4)
    m = model_of(repo)
    # ------------------------------------------------------------------ delay
    root = repo.fn(DL, "observable_delay_timespan.subscribe")
    fac = repo.fn(DL, "observable_delay_timespan")
    on = root.child("on_next")
    rep.require(on is not None, "delay: notification handler")
    act = on.find("action") if hasattr(on, "find") else None
    rep.require(act is not None, "delay: drain action")
    note = on.params[0]
    duetime_param = fac.params[1]
    # role: the delay = locals of subscribe derived from the operator's duetime
    delays = set(locals_by_init(root, lambda v: _mentions(v, {duetime_param})))
    queues = locals_by_init(root, lambda v: isinstance(v, ast.List) and not v.elts)
    rep.require(delays and queues, "delay: derived delay / queue")
    # the queue is the empty-list local the handler appends to
    qn = [q for q in queues if any(isinstance(s.node, ast.Call) and dotted(s.node.func) == f"{q}.append" for s in sites(on))]
    rep.require(len(qn) == 1, "delay: the notification queue")
    q = qn[0]
    err_guard = lambda s: any(p and isinstance(e, ast.Call) and call_name(e) == "isinstance" and "OnError" in u(e) for e, p in s.ctx.guards)
    not_err = lambda s: any((not p) and isinstance(e, ast.Call) and call_name(e) == "isinstance" and "OnError" in u(e) for e, p in s.ctx.guards)
    apps = [s for s in sites(on) if isinstance(s.node, ast.Call) and dotted(s.node.func) == f"{q}.append"]
    shifted = [s for s in apps if not_err(s)]
    ok = False
    for s in shifted:
        a = s.node.args[0] if s.node.args else None
        if isinstance(a, ast.Call) and call_name(a) == "Timestamp":
            kw = {k.arg: k.value for k in a.keywords}
            # Timestamp is a dataclass (value, timestamp): positional arguments bind in that order
            for name_, pos_ in (("value", 0), ("timestamp", 1)):
                if name_ not in kw and len(a.args) > pos_:
                    kw[name_] = a.args[pos_]
            ts = kw.get("timestamp")
            ok = isinstance(ts, ast.BinOp) and isinstance(ts.op, ast.Add) and u(ts.left) == f"{note}.timestamp" and isinstance(ts.right, ast.Name) \
                and ts.right.id in delays and u(kw.get("value")) == f"{note}.value"
    rep.ob("T1-delay-queue", on, "queue.append(Timestamp(value=n.value, timestamp=n.timestamp + delay))", ok and len(shifted) == 1,
           "a non-error notification is not queued with its arrival time plus the requested delay: elements / completion are "
           "not delivered exactly the delay later")
    # error branch
    errs = [s for s in sites(on) if err_guard(s)]
    cleared = any((isinstance(s.node, ast.Delete) and u(s.node.targets[0]) == f"{q}[:]") or
                  (isinstance(s.node, ast.Call) and dotted(s.node.func) == f"{q}.clear") for s in errs)
    rec = [s for s in errs if isinstance(s.node, ast.Assign) and u(s.node.value) == f"{note}.value.exception" and cell_name(s.node.targets[0])]
    rep.ob("T2-delay-error", on, "error branch: queue emptied", cleared, "pending elements are not dropped when the source fails")
    rep.ob("T2-delay-error", on, "error branch: exception recorded", len(rec) == 1, "the source's exception is not recorded")
    exc = cell_name(rec[0].node.targets[0]) if rec else "?exception"
    direct = [s for g, s, k in TC.downstream_sites(root, ("on_error",)) if g is on]
    ok = len(direct) == 1 and [u(a) for a in direct[0].node.args] == [exc] and \
        any((p and u(e) in (exc, f"{exc} is not None")) or ((not p) and u(e) == f"{exc} is None") for e, p in direct[0].ctx.guards) and not direct[0].ctx.locks
    rep.ob("T2-delay-error", on, "on_error(exception) called directly from the notification handler, outside the lock", ok,
           "an error is not delivered immediately (inside the source's own error notification) but left to the scheduled drain")
    # the running latch decides direct delivery: should_run = not running
    runs = [c for c in names_assigned_const(act, True) if c in names_assigned_const(act, False) and act.owner(c) is root]
    rep.ob("T2-delay-error", act, "the drain marks itself running (True ... False) so that an error arriving meanwhile is delivered by it", len(runs) == 1,
           "the drain does not latch `running`: an error arriving during a drain is delivered twice or never")
    late = [s for g, s, k in TC.downstream_sites(root, ("on_error",)) if g is act]
    ok = len(late) == 1 and not late[0].ctx.locks and not late[0].ctx.loops
    rep.ob("T2-delay-error", act, "after a drain: the recorded error is delivered outside the lock", ok,
           "an error recorded while the drain held the lock is not delivered when the drain ends")
    rule_exception_identity(rep, "T2-delay-error", m, root)
    # drain
    pops = [s for s in sites(act) if isinstance(s.node, ast.Call) and isinstance(s.node.func, ast.Attribute) and s.node.func.attr in ("pop", "popleft")
            and dotted(s.node.func.value) == q]
    ok = len(pops) == 1 and (pops[0].node.func.attr == "popleft" or [u(a) for a in pops[0].node.args] == ["0"]) and bool(pops[0].ctx.loops)
    due = False
    if pops:
        for e, p in pops[0].ctx.guards:
            for x in ast.walk(e):
                if isinstance(x, ast.Compare):
                    r = compare_norm(x, lambda t: u(t) == f"{q}[0].timestamp")
                    if r and p and r[0] == "<=" and isinstance(r[1], ast.Attribute) and r[1].attr == "now":
                        due = True
    rep.ob("T1-delay-queue", act, "drain: queue.pop(0) in a loop, only under queue[0].timestamp <= scheduler.now", ok and due,
           "the drain does not take due notifications from the front of the queue under `timestamp <= now`: notifications are "
           "delivered early, late (strict comparison: one scheduling round later) or out of order")
    acc = [s for s in sites(act) if isinstance(s.node, ast.Call) and isinstance(s.node.func, ast.Attribute) and s.node.func.attr == "accept"
           and [u(a) for a in s.node.args] == [root.params[0]]]
    rep.ob("T1-delay-queue", act, "popped notification replayed with accept(observer), inside the drain loop", len(acc) == 1 and bool(acc[0].ctx.loops),
           "a due notification is not replayed to the subscriber")
    res = [s for s in sites(act) if is_schedule_call(s.node) and s.node.func.attr == "schedule_relative"]
    ok = False
    if len(res) == 1:
        dv = res[0].node.args[0]
        defs = [s.node.value for s in sites(act) if isinstance(s.node, (ast.Assign, ast.AnnAssign)) and s.node.value is not None
                and u(s.node.targets[0] if isinstance(s.node, ast.Assign) else s.node.target) == u(dv)]
        diffs = {u(s.node.targets[0]) for s in sites(act) if isinstance(s.node, ast.Assign) and isinstance(s.node.value, ast.BinOp)
                 and isinstance(s.node.value.op, ast.Sub) and u(s.node.value.left) == f"{q}[0].timestamp" and isinstance(s.node.value.right, ast.Attribute)
                 and s.node.value.right.attr == "now"}
        clamp = [d for d in defs if isinstance(d, ast.Call) and call_name(d) == "max" and len(d.args) == 2 and
                 ({u(a) for a in d.args} & diffs or any(isinstance(a, ast.BinOp) and u(a.left) == f"{q}[0].timestamp" for a in d.args))]
        ok = bool(clamp) and resolve_callable(act, schedule_action_arg(res[0].node)).fn is act
    rep.ob("T1-delay-queue", act, "re-arm: schedule_relative(max(0, queue[0].timestamp - now), action)", ok,
           "the drain is not re-armed for the moment the next queued notification becomes due")
    first = [s for s in sites(on) if is_schedule_call(s.node) and s.node.func.attr == "schedule_relative"]
    ok = len(first) == 1 and isinstance(first[0].node.args[0], ast.Name) and first[0].node.args[0].id in delays \
        and resolve_callable(on, schedule_action_arg(first[0].node)).fn is act
    rep.ob("T1-delay-queue", on, "first drain scheduled after the delay", ok, "the first drain is not scheduled one delay after the first notification")
    subs = [s for s in sites(root) if is_subscribe_call(s.node)]
    pl = TC.pipelines_of(root)
    ok = len(subs) == 1 and ["materialize", "timestamp"] in pl and resolve_callable(root, subs[0].node.args[0]).fn is on
    rep.ob("T1-delay-queue", root, "source.pipe(materialize(), timestamp()).subscribe(handler)", ok,
           "delay does not observe its source as timestamped notifications")
    TC.rule_scheduler_forwarded(rep, "F0-scheduler-forwarded", root)
    TC.discipline(rep, root)
    d_ = repo.fn(DL, "delay_")
    ok = any(isinstance(s.node, ast.Return) and u(s.node.value) == f"observable_delay_timespan({', '.join(d_.params)})" for s in sites(d_))
    rep.ob("T1-delay-queue", d_, "delay_ -> observable_delay_timespan(source, duetime, scheduler)", ok, "delay_ no longer forwards its arguments to the implementation")
    # ------------------------------------------------------------------ delay_with_mapper
    wroot = repo.fn(DM, "delay_with_mapper_.delay_with_mapper.subscribe")
    start = wroot.child("start")
    rep.require(start is not None, "delay_with_mapper: start")
    son = start.child("on_next")
    rep.require(son is not None, "delay_with_mapper: element handler")
    x = son.params[0]
    inner = [s for s in sites(son) if is_subscribe_call(s.node)]
    rep.require(len(inner) == 1, "delay_with_mapper: delay subscription")
    slots = subscribe_slots(inner[0].node)
    for k in ("on_next", "on_completed"):
        t = resolve_callable(son, slots.get(k))
        ok = False
        if t.kind == "fn":
            em = [s for s in sites(t.fn) if isinstance(s.node, ast.Call) and dotted(s.node.func) == f"{wroot.params[0]}.on_next" and [u(a) for a in s.node.args] == [x]]
            rem = [s for s in sites(t.fn) if isinstance(s.node, ast.Call) and isinstance(s.node.func, ast.Attribute) and s.node.func.attr == "remove"]
            ok = len(em) == 1 and len(rem) == 1 and not em[0].ctx.branch and not rem[0].ctx.branch
        rep.ob("T3-delay-with-mapper", son, f"delay.{k}: on_next(x) then the delay's holder is removed", ok,
               f"the element is not delivered (exactly once, unconditionally) when its delay sequence signals by {k}, or the "
               f"delay is not released afterwards (the other signal would deliver it again)")
    t = resolve_callable(son, slots.get("on_error"))
    rep.ob("T3-delay-with-mapper", son, "a failing delay sequence fails the output", t.kind == "bound" and t.obj == wroot.params[0] and t.attr == "on_error",
           "an error of a delay sequence is not passed to the subscriber")
    SY.rule_registered_before_subscribe(rep, "T3-delay-with-mapper", wroot)
    SY.rule_no_serial_clobber(rep, "T3-delay-with-mapper", wroot)
    done = wroot.child("done")
    rep.require(done is not None, "delay_with_mapper: done")
    comp = [s for g, s, k in TC.downstream_sites(wroot, ("on_completed",))]
    groups = locals_by_init(wroot, lambda v: isinstance(v, ast.Call) and call_name(v) == "CompositeDisposable")
    ends = names_assigned_const(start.child("on_completed"), True) if start.child("on_completed") is not None else []
    ok = len(comp) == 1 and wroot.find("done") is not None and comp[0] in sites(done) and \
        any(p and cell_name(e) in ends for e, p in comp[0].ctx.guards) and \
        any(p and any(g_ in u(e) for g_ in groups) and ("== 0" in u(e) or "0 ==" in u(e)) for e, p in comp[0].ctx.guards)
    rep.ob("T3-delay-with-mapper", done, "completion only when the source ended and no delay is pending", ok,
           "delay_with_mapper completes while elements are still being delayed, or never")
    # the source's slots
    ssub = [s for s in sites(start) if is_subscribe_call(s.node)]
    ok = len(ssub) == 1 and resolve_callable(start, subscribe_slots(ssub[0].node).get("on_error")).attr == "on_error"
    rep.ob("T3-delay-with-mapper", start, "source errors pass through at once", ok, "a source error is not delivered immediately")
    TC.rule_scheduler_forwarded(rep, "F0-scheduler-forwarded", wroot)
    TC.discipline(rep, wroot)
    # ------------------------------------------------------------------ delay_subscription
    dsub = repo.fn(DS, "delay_subscription_")
    pl = TC.pipelines_of(dsub)
    rep.ob("T4-delay-subscription", dsub, "source.pipe(delay_with_mapper(...))", pl == [["delay_with_mapper"]],
           f"delay_subscription is no longer exactly delay_with_mapper over a timer: {pl}")
    call = [n for n in dsub.all_nodes() if isinstance(n, ast.Call) and call_name(n) == "delay_with_mapper"]
    ok = False
    if len(call) == 1 and len(call[0].args) == 2:
        a0, a1 = call[0].args
        tmr = isinstance(a0, ast.Call) and call_name(a0) == "timer" and [u(a) for a in a0.args] == [dsub.params[1]] and \
            {k.arg: u(k.value) for k in a0.keywords} == {"scheduler": dsub.params[2]}
        mp = resolve_callable(dsub, a1)
        emp = mp.kind == "fn" and any(isinstance(s.node, ast.Return) and isinstance(s.node.value, ast.Call) and call_name(s.node.value) == "empty" for s in sites(mp.fn))
        ok = tmr and emp
    rep.ob("T4-delay-subscription", dsub, "delay_with_mapper(timer(duetime, scheduler=scheduler), lambda _: empty())", ok,
           "the subscription is not delayed by timer(duetime) on the given scheduler, or elements are delayed too")
    # ------------------------------------------------------------------ timestamp / time_interval
    tsf = repo.fn(TS, "timestamp_.factory")
    tmap = tsf.child("mapper")
    scheds = set(locals_by_init(tsf, lambda v: _mentions(v, {tsf.params[0]})))
    ok = tmap is not None and any(isinstance(s.node, ast.Return) and isinstance(s.node.value, ast.Call) and call_name(s.node.value) == "Timestamp"
                                  and {k.arg: u(k.value) for k in s.node.value.keywords}.get("value") == tmap.params[0]
                                  and any(k.arg == "timestamp" and isinstance(k.value, ast.Attribute) and k.value.attr == "now" and u(k.value.value) in scheds
                                          for k in s.node.value.keywords) for s in sites(tmap))
    rep.ob("T5-clock-readings", tsf, "timestamp: Timestamp(value=value, timestamp=<subscription scheduler>.now) per element", ok,
           "timestamp does not attach the subscription scheduler's clock reading taken when the element passes")
    rep.ob("T5-clock-readings", tsf, "timestamp: source.pipe(map(mapper)) built per subscription (defer)", TC.pipelines_of(tsf) == [["map"]] and
           any(isinstance(n, ast.Call) and call_name(n) == "defer" for n in repo.fn(TS, "timestamp_").all_nodes()),
           "timestamp is no longer a per-subscription map over the source")
    # anchors by role, not by path: the mapper is the function that builds TimeInterval(...); the per-subscription function is
    # its enclosing subscribe function / defer factory (whose scheduler parameter is the subscription's scheduler)
    tif = repo.fn(TI, "time_interval_")
    imap = next((g for g in tif.walk() if g.is_func and any(isinstance(n, ast.Return) and isinstance(n.value, ast.Call) and call_name(n.value) == "TimeInterval"
                                                            for n in g.direct_nodes())), None)
    rep.require(imap is not None, "time_interval mapper (the function returning TimeInterval(...))")
    ti = imap.parent
    while ti is not None and ti is not tif and m.role.get(ti) not in ("subscribe", "deferred"):
        ti = ti.parent
    rep.require(ti is not None and ti is not tif and ti.params, "time_interval: per-subscription function around the mapper")
    sched_param = ti.params[1] if m.role.get(ti) == "subscribe" and len(ti.params) > 1 else ti.params[0]
    scheds = set(locals_by_init(ti, lambda v: _mentions(v, {sched_param})))
    lasts = [l for l in locals_by_init(ti, lambda v: isinstance(v, ast.Attribute) and v.attr == "now" and u(v.value) in scheds)]
    rep.ob("T5-clock-readings", ti, "time_interval: last initialised from the scheduler clock at subscription", len(lasts) == 1,
           "the first interval is not measured from the subscription")
    rep.ob("T5-clock-readings", ti, "time_interval: the previous reading is per-subscription state", len(lasts) == 1 and ti.owner(lasts[0]) is ti,
           "the previous clock reading of time_interval is not owned by the per-subscription function: overlapping subscriptions reset and "
           "advance each other's baseline")
    last = lasts[0] if lasts else "?last"
    nows = [s for s in sites(imap) if isinstance(s.node, ast.Assign) and isinstance(s.node.value, ast.Attribute) and s.node.value.attr == "now"
            and u(s.node.value.value) in scheds]
    now = u(nows[0].node.targets[0]) if nows else "?now"
    from ..rules import uc
    span = [s for s in sites(imap) if isinstance(s.node, ast.Assign) and uc(s.node.value) == f"{now} - {last}"]
    upd = [s for s in sites(imap) if isinstance(s.node, ast.Assign) and cell_name(s.node.targets[0]) == last and u(s.node.value) == now]
    ok = len(nows) == 1 and len(span) == 1 and len(upd) == 1 and span[0].index < upd[0].index and not span[0].ctx.branch and not upd[0].ctx.branch
    rep.ob("T5-clock-readings", imap, "span = now - last; then last = now", ok,
           "the interval is not the time since the previous element (computed before `last` is moved forward)")
    sp = u(span[0].node.targets[0]) if span else "?span"
    ok = any(isinstance(s.node, ast.Return) and isinstance(s.node.value, ast.Call) and call_name(s.node.value) == "TimeInterval"
             and {k.arg: u(k.value) for k in s.node.value.keywords} == {"value": imap.params[0], "interval": sp} for s in sites(imap))
    rep.ob("T5-clock-readings", imap, "returns TimeInterval(value=value, interval=span)", ok, "the element / the measured span is not what is emitted")
    rep.ob("T5-clock-readings", ti, "time_interval: source.pipe(map(mapper))", TC.pipelines_of(ti) == [["map"]], "time_interval is no longer a map over the source")
    TC.rule_scheduler_forwarded(rep, "F0-scheduler-forwarded", ti)
