"""C16 — rate-limiting operators follow their timing rules (S1)."""
from __future__ import annotations

import ast

from ..astutil import call_name, compare_norm, dotted, short, u
from ..core import Report
from ..ctx import sites
from ..frontend import Repo
from ..rules import cell_name, names_assigned_const, names_augmented
from . import typestate_common as TC

DB = "reactivex/operators/_debounce.py"
TF = "reactivex/operators/_throttlefirst.py"
SM = "reactivex/operators/_sample.py"
KEYS = [f"{DB}::debounce_.subscribe", f"{DB}::throttle_with_mapper_.subscribe", f"{TF}::throttle_first_.subscribe",
        f"{SM}::sample_observable.subscribe"]


def check(repo: Repo, rep: Report) -> None:
    rep.explanation = (
        "Structural clauses: (1) typestate signatures of debounce_, throttle_with_mapper_, throttle_first_ and sample equal "
        "the confirmed reference (" + TC.LEGEND + "): elements are held back, the pending one is flushed before completion, "
        "errors terminate at once; (2) stale-timer guard: the emission made by a timer action / throttle handler is "
        "dominated by `has_value and id == captured id`, and the id is bumped by every source notification (on_next, "
        "on_error, on_completed), so a superseded timer never emits; the flush on completion is decided by the presence "
        "flag; (3) throttle_first emits iff `now - last >= duration` (inclusive: 'at least the window duration') or nothing "
        "was emitted yet, and records the emission time with the decision; (4) sample resets the presence flag when it "
        "emits, so a value is sampled once. Timing values are not decided.")
    rep.rule("K1-signature", "typestate signature of each slot equals the confirmed reference", floor=12)
    rep.rule("R1-stale-timer", "timer / throttle emissions dominated by has_value and id == captured id; every source notification bumps the id", floor=8)
    rep.rule("R2-flush", "completion flushes the pending value under the presence flag, then completes", floor=2)
    rep.rule("R3-throttle-first", "throttle_first: emit iff elapsed >= duration (inclusive) or first; emission time recorded with the decision", floor=2)
    rep.rule("R4-sample-once", "sample: emission resets the presence flag", floor=1)
    for key in KEYS:
        TC.check_operator(repo, rep, "K1-signature", key,
                          lambda k, slot: "Rate limiting must hold elements back, flush the pending one on completion and emit only from the current timer.")
    for name in ("debounce_", "throttle_with_mapper_"):
        root = repo.fn(DB, f"{name}.subscribe")
        outer = {k: root.child(k) for k in ("on_next", "on_error", "on_completed")}
        rep.require(all(outer.values()), f"outer handlers of {name}")
        # roles: the id is the cell the element handler increments; the presence flag the cell it sets True
        ids = names_augmented(outer["on_next"], ast.Add)
        present = names_assigned_const(outer["on_next"], True)
        if len(ids) != 1 or len(present) != 1:
            rep.ob("R1-stale-timer", outer["on_next"], f"{name}: element handler bumps one id and raises one presence flag", False,
                   f"{name}: the element handler does not keep an id (incremented per element) and a presence flag (set True per "
                   f"element): pending-ness of an element is not decided by a flag, or superseded timers are not invalidated")
            continue
        idc, flag = ids[0], present[0]
        # nothing is pending before the first element: the presence flag starts False
        inits_ = [n_.value for n_ in root.direct_nodes() if isinstance(n_, (ast.Assign, ast.AnnAssign)) and n_.value is not None
                  and u(n_.targets[0] if isinstance(n_, ast.Assign) else n_.target) == flag]
        inits_ = [v_.elts[0] if isinstance(v_, ast.List) and len(v_.elts) == 1 else v_ for v_ in inits_]
        rep.ob("R2-flush", root, f"{name}: presence flag `{flag}` starts False", len(inits_) == 1 and isinstance(inits_[0], ast.Constant) and inits_[0].value is False,
               f"{name}: the presence flag does not start False: a source that completes without having emitted makes the operator flush a "
               f"value that never arrived (None) before completing")
        has_flag = lambda s_: any(p_ and cell_name(e_) == flag for e_, p_ in s_.ctx.guards)
        # id bumps
        for k, h in outer.items():
            bumps = [s for s in sites(h) if isinstance(s.node, ast.AugAssign) and cell_name(s.node.target) == idc and isinstance(s.node.op, ast.Add)
                     and not (isinstance(s.node.value, ast.Constant) and s.node.value.value == 0)]
            ok = len(bumps) == 1 and not [b for b in bumps[0].ctx.branch if b[1] != "try"]
            rep.ob("R1-stale-timer", h, f"{name}.{k}: id bumped", ok,
                   f"{name}: {k} does not advance the id: a timer armed for an earlier element still emits after this notification")
        cap = [s for s in sites(outer["on_next"]) if isinstance(s.node, ast.Assign) and cell_name(s.node.value) == idc and isinstance(s.node.targets[0], ast.Name)]
        idv = u(cap[0].node.targets[0]) if cap else None
        # emissions in nested timer/throttle handlers
        n = 0
        for g, s, k in TC.downstream_sites(root, ("on_next",)):
            if g.parent is not outer["on_next"]:
                continue
            n += 1
            gt = TC.guards_text(s)
            ok = has_flag(s) and any(p_ and isinstance(e_, ast.Compare) and len(e_.ops) == 1 and isinstance(e_.ops[0], ast.Eq)
                                     and {cell_name(e_.left), cell_name(e_.comparators[0])} == {idc, idv} for e_, p_ in s.ctx.guards)
            rep.ob("R1-stale-timer", g, f"{name} timer emission under {gt}", ok,
                   f"{name}: the delayed emission is not dominated by `has_value and id == {idv}`: an element is emitted although a "
                   f"newer one arrived (or was already flushed)")
        # a superseded timer changes nothing: inside the delayed handlers the presence flag is written only under the same
        # `id == captured id` decision (cancellation of a timer is best effort; a stale action that still runs must not eat the
        # newer element's pending state)
        for g in outer["on_next"].children:
            if not g.is_func:
                continue
            for w in sites(g):
                if isinstance(w.node, ast.Assign) and cell_name(w.node.targets[0]) == flag:
                    okw = any(p_ and isinstance(e_, ast.Compare) and len(e_.ops) == 1 and isinstance(e_.ops[0], ast.Eq)
                              and {cell_name(e_.left), cell_name(e_.comparators[0])} == {idc, idv} for e_, p_ in w.ctx.guards)
                    rep.ob("R1-stale-timer", g, f"{name}.{g.name}: `{short(w.node)}` only when this timer is the current one", okw,
                           f"{name}: the delayed handler clears the presence flag even when it was superseded (`id != {idv}`): cancellation is best "
                           f"effort, and a stale timer that still runs makes the newer element's own timer find nothing pending — the element is lost")
        rep.require(n >= 1, f"timer emissions in {name}")
        oc = outer["on_completed"]
        em = [s for g, s, k in TC.downstream_sites(root, ("on_next",)) if g is oc]
        comp = [s for g, s, k in TC.downstream_sites(root, ("on_completed",)) if g is oc]
        ok = len(em) == 1 and len(comp) == 1 and has_flag(em[0]) \
            and em[0].index < comp[0].index and not comp[0].ctx.branch
        rep.ob("R2-flush", oc, f"{name}: if has_value: on_next(value); on_completed()", ok,
               f"{name}: the pending element is not flushed (under the presence flag) before completion")
    # throttle_first
    tf = repo.fn(TF, "throttle_first_.subscribe.on_next")
    root_tf = repo.fn(TF, "throttle_first_.subscribe")
    ems = [s for g, s, k in TC.downstream_sites(root_tf, ("on_next",)) if g is tf]
    flag = None
    raised = set(names_assigned_const(tf, True))
    for s in ems:
        for e, p_ in s.ctx.guards:
            if p_ and isinstance(e, ast.Name) and (e.id in raised or flag is None):
                flag = e.id
    dec = [s for s in sites(tf) if flag and isinstance(s.node, ast.Assign) and u(s.node.targets[0]) == flag and u(s.node.value) == "True"]
    ok = False
    last_var = None
    if dec:
        par = tf.module.parents
        n_ = dec[0].node
        while n_ is not None and not isinstance(n_, ast.If):
            n_ = par.get(n_)
        if isinstance(n_, ast.If):
            from ..rules import effective_test
            tst = effective_test(tf, n_.test)
            parts = tst.values if isinstance(tst, ast.BoolOp) and isinstance(tst.op, ast.Or) else [tst]
            incl = first = False
            for p_ in parts:
                r = compare_norm(p_, lambda x: isinstance(x, ast.BinOp) and isinstance(x.op, ast.Sub))
                if r and r[0] == ">=" and isinstance(r[1], ast.Name):
                    sub_ = p_.left if isinstance(p_.left, ast.BinOp) else p_.comparators[0]
                    if cell_name(sub_.right) and isinstance(sub_.right, (ast.Name, ast.Subscript)):
                        last_var = cell_name(sub_.right)
                        incl = True
            for p_ in parts:
                from ..rules import uc
                if last_var and uc(p_) in (f"not {last_var}", f"{last_var} is None"):
                    first = True
            ok = incl and first
    rec = [s for s in sites(tf) if last_var and isinstance(s.node, ast.Assign) and cell_name(s.node.targets[0]) == last_var and isinstance(s.node.value, ast.Name)]
    rep.ob("R3-throttle-first", tf, "emit iff first or now - last >= duration", ok,
           "throttle_first does not emit exactly when at least the window duration has passed since the last emitted element")
    nowdefs = [s for s in sites(tf) if isinstance(s.node, ast.Assign) and isinstance(s.node.value, ast.Attribute) and s.node.value.attr == "now"]
    conv = [n for g_ in root_tf.walk() if g_.is_func for n in g_.direct_nodes() if isinstance(n, ast.Call) and isinstance(n.func, ast.Attribute) and n.func.attr == "to_seconds"]
    rep.ob("R3-throttle-first", tf, "elapsed time computed on the scheduler's own time values (no float seconds)", bool(nowdefs) and not conv,
           "throttle_first converts clock readings / the window to float seconds before subtracting: when the gap equals the window on a "
           "fractional timeline the rounded difference falls short (0.3 - 0.1 < 0.2) and the element due exactly one window later is dropped")
    rep.ob("R3-throttle-first", tf, "last emission time recorded in the deciding branch", bool(rec) and bool(dec) and rec[0].ctx.branch == dec[0].ctx.branch,
           "the time of the last emission is not recorded together with the decision to emit")
    # sample(period, scheduler): the sampler is interval(period) on the scheduler the operator was given
    sm_ = repo.fn(SM, "sample_")
    ivs = [n_ for n_ in sm_.all_nodes() if isinstance(n_, ast.Call) and call_name(n_) in ("interval", "timer")]
    okv = bool(ivs) and all(any(k_.arg == "scheduler" and isinstance(k_.value, ast.Name) and k_.value.id in sm_.params for k_ in n_.keywords) or
                             (len(n_.args) >= 2 and isinstance(n_.args[-1], ast.Name) and n_.args[-1].id in sm_.params and "sched" in n_.args[-1].id) for n_ in ivs)
    rep.ob("R4-sample-once", sm_, f"sample(period, scheduler): `{short(ivs[0], 50) if ivs else '?'}` ticks on the given scheduler", okv,
           "sample(period, scheduler) builds its sampler without the scheduler it was given: the ticks come from the default (real-time) "
           "scheduler, not from the timeline the caller pinned the operator to")
    # the source is subscribed before the sampler: an element and a tick at the same instant -> the element is sampled by that tick
    so_ = repo.fn(SM, "sample_observable.subscribe")
    from ..model import is_subscribe_call as _isc2
    subs2 = [x for x in sites(so_) if _isc2(x.node)]
    src_nm, smp_nm = repo.fn(SM, "sample_observable").params[:2]
    pos_ = lambda x: (x.node.lineno, x.node.col_offset)
    s_src = [x for x in subs2 if u(x.node.func.value) == src_nm]
    s_smp = [x for x in subs2 if u(x.node.func.value) == smp_nm]
    rep.ob("R4-sample-once", so_, f"sample: {src_nm}.subscribe(...) is evaluated before {smp_nm}.subscribe(...)", bool(s_src) and bool(s_smp) and pos_(s_src[0]) < pos_(s_smp[0]),
           "sample subscribes the sampler before the source: with both on one scheduler a tick scheduled for an instant runs before the source "
           "element of the same instant, so that element is emitted one tick late (or overwritten and never emitted)")
    so_params = repo.fn(SM, "sample_observable").params[:2]
    from ..rules import inline_locals as _inl16
    calls_so = [n_ for n_ in sm_.all_nodes() if isinstance(n_, ast.Call) and call_name(n_) == "sample_observable"]
    rep.ob("R4-sample-once", sm_, f"sample_: sample_observable(<source>, <sampler>) in that order ({len(calls_so)} calls)",
           bool(calls_so) and all(len(c_.args) == 2 and u(c_.args[0]) == sm_.params[0] and (u(c_.args[1]) == sm_.params[1] or isinstance(_inl16(sm_, c_.args[1]), ast.Call)) for c_ in calls_so),
           "sample_ hands its source and its sampler to sample_observable in the wrong order: the sampler is sampled at the source's elements")
    ss = repo.fn(SM, "sample_observable.subscribe.sample_subscribe")
    sroot = repo.fn(SM, "sample_observable.subscribe")
    src_next = sroot.child("on_next")
    rep.require(src_next is not None, "sample: source element handler")
    present = names_assigned_const(src_next, True)
    flag = present[0] if len(present) == 1 else "?presence-flag"
    if len(present) != 1:
        rep.ob("R4-sample-once", src_next, "sample: the source handler raises one presence flag per element", False,
               "sample does not record the arrival of an element in a presence flag: whether there is something to sample is decided "
               "by the value itself (a None element is never sampled)")
    em = [s for g, s, k in TC.downstream_sites(sroot, ("on_next",)) if g is ss]
    rs = [s for s in sites(ss) if isinstance(s.node, ast.Assign) and cell_name(s.node.targets[0]) == flag and u(s.node.value) == "False"]
    ok = len(em) == 1 and len(rs) == 1 and em[0].ctx.branch == rs[0].ctx.branch and any(p_ and cell_name(e_) == flag for e_, p_ in em[0].ctx.guards)
    rep.ob("R4-sample-once", ss, "if has_value: has_value = False; on_next(value)", ok, "sample emits a value more than once, or without one being pending")
