"""C17 — time-window operators respect their window boundaries (S1)."""
from __future__ import annotations

import ast
from typing import List, Optional, Tuple

from ..astutil import call_name, compare_norm, dotted, short, u
from ..core import Report
from ..ctx import sites
from ..frontend import Repo
from ..model import is_subscribe_call
from ..rules import cell_name, names_augmented
from . import typestate_common as TC

O = "reactivex/operators/"
KEYS = [
    f"{O}_takewithtime.py::take_with_time_.subscribe", f"{O}_skipwithtime.py::skip_with_time_.subscribe",
    f"{O}_takeuntilwithtime.py::take_until_with_time_.subscribe", f"{O}_skipuntilwithtime.py::skip_until_with_time_.skip_until_with_time.subscribe",
    f"{O}_takelastwithtime.py::take_last_with_time_.subscribe", f"{O}_skiplastwithtime.py::skip_last_with_time_.skip_last_with_time.subscribe",
    f"{O}_timeout.py::timeout_.subscribe", f"{O}_timeoutwithmapper.py::timeout_with_mapper_.timeout_with_mapper.subscribe",
]


def age_tests(h) -> List[Tuple[object, str, str]]:
    """(site, operator, role) for comparisons `age <op> duration` in handler h; role = 'emit' if the guarded code
    emits downstream, 'drop' if it only removes from the queue."""
    out = []
    par = h.module.parents
    # roles: `now` is a local read from the scheduler clock; the age is `now - <recorded time>`; the duration is a
    # variable of the operator factory (an enclosing function), not of the subscription
    nows = {t.id for n in h.direct_nodes() if isinstance(n, ast.Assign) and isinstance(n.value, ast.Attribute) and n.value.attr == "now"
            for t in n.targets if isinstance(t, ast.Name)}
    def is_age(x):
        return isinstance(x, ast.BinOp) and isinstance(x.op, ast.Sub) and isinstance(x.left, ast.Name) and x.left.id in nows
    def is_duration(x):
        if not isinstance(x, ast.Name):
            return False
        o = h.owner(x.id)
        return o is not None and o.is_func and o is not h and o is not h.parent or (o is h.parent and x.id in getattr(h.parent, "nonlocals", ()))
    for s in sites(h):
        n = s.node
        if not isinstance(n, ast.Compare):
            continue
        r = compare_norm(n, is_age)
        if not r or not is_duration(r[1]):
            continue
        # the statement this test controls
        st = n
        while st is not None and not isinstance(st, (ast.If, ast.While)):
            st = par.get(st)
        if st is None:
            continue
        emits = any(isinstance(x, ast.Call) and isinstance(x.func, ast.Attribute) and x.func.attr == "on_next" for b in st.body for x in ast.walk(b))
        out.append((s, r[0], "emit" if emits else "drop"))
    return out


def check(repo: Repo, rep: Report) -> None:
    rep.explanation = (
        "Structural clauses: (1) typestate signatures of the eight operators equal the confirmed reference (" + TC.LEGEND +
        "); (2) boundary agreement (E9): in take_last_with_time_ and skip_last_with_time_ the age-vs-duration comparisons "
        "of on_next and on_completed are normalised to 'is an element whose age is exactly the duration emitted?' and must "
        "give the same answer in both handlers — a boundary rule that depends on whether another element happened to "
        "arrive is exactly what the property excludes; and the two operators are complementary (skip_last emits at "
        "equality, take_last does not); (3) timeout_/timeout_with_mapper_: the switch to the fallback is decided by "
        "`id == captured id`, every source notification bumps the id under the not-switched guard, so the timer never wins "
        "after the source terminated or emitted. Timing values are not decided.")
    rep.rule("K1-signature", "typestate signature of each slot equals the confirmed reference", floor=25)
    # take_with_time / skip_with_time partition the timeline only because each arms its own timer BEFORE it subscribes its source (an
    # element due exactly at the boundary is then behind the timer in the queue); re-expressing one of them through an operator with
    # the other order (skip_until_with_time subscribes first) loses exactly the boundary elements
    for rel_, q_ in ((f"{O}_takewithtime.py", "take_with_time_"), (f"{O}_skipwithtime.py", "skip_with_time_")):
        if repo.opt_fn(rel_, q_) is not None and repo.opt_fn(rel_, q_ + ".subscribe") is None:
            rep.ob("K1-signature", repo.fn(rel_, q_), f"{q_} arms its own timer in its own subscribe function", False,
                   f"{q_} no longer has a subscribe function of its own (it delegates to another operator): the order 'timer first, then the source' "
                   f"that puts boundary elements on the right side of the gate is not established any more")
            return
    rep.rule("X1-boundary-agreement", "age == duration is treated the same way on arrival and at completion; take_last / skip_last complementary", floor=2)
    rep.rule("X2-timeout-stale-guard", "fallback switch decided by id equality; source notifications bump the id unless switched", floor=5)
    for key in KEYS:
        TC.check_operator(repo, rep, "K1-signature", key,
                          lambda k, slot: "Time-window operators must pass / hold / flush elements exactly at their boundary and terminate with the source or the timer.")
    emitted_at_eq = {}
    for rel, path, name in ((f"{O}_takelastwithtime.py", "take_last_with_time_.subscribe", "take_last_with_time_"),
                            (f"{O}_skiplastwithtime.py", "skip_last_with_time_.skip_last_with_time.subscribe", "skip_last_with_time_")):
        root = repo.fn(rel, path)
        verdicts = {}
        for hn in ("on_next", "on_completed"):
            h = root.child(hn)
            rep.require(h is not None, f"{name}.{hn}")
            tests = age_tests(h)
            if not tests:
                rep.ob("X1-boundary-agreement", h, f"{name}.{hn}: compares element age with the duration", False,
                       f"{name}.{hn} no longer decides by the age of the queued elements")
                continue
            vs = set()
            for s, op, role in tests:
                inclusive = op in (">=", "<=", "==")
                if name.startswith("take_last"):
                    # on arrival old elements are dropped; at completion young ones are emitted
                    kept = (not inclusive) if role == "drop" else inclusive
                    if op in (">", ">=") and role == "emit":
                        kept = not inclusive      # unusual spelling: emits the old ones
                else:
                    kept = inclusive if op in (">=", ">") else not inclusive   # emitted once old enough
                vs.add(kept)
            verdicts[hn] = vs
        if len(verdicts) < 2:
            continue
        a, b = verdicts["on_next"], verdicts["on_completed"]
        ok = len(a) == 1 and len(b) == 1 and a == b
        c = f"on_next trims `{[op for _, op, _ in age_tests(root.child('on_next'))]}`, on_completed tests `{[op for _, op, _ in age_tests(root.child('on_completed'))]}`"
        rep.ob("X1-boundary-agreement", root, f"{name}: {c}", ok,
               f"{name}: an element whose age equals the duration is treated differently when another element arrives and at "
               f"completion ({a} vs {b}): whether it is emitted depends on unrelated arrivals")
        if ok:
            emitted_at_eq[name] = next(iter(a))
    if len(emitted_at_eq) == 2:
        rep.ob("X1-boundary-agreement", "reactivex/operators", "take_last / skip_last complementary at age == duration",
               emitted_at_eq["take_last_with_time_"] != emitted_at_eq["skip_last_with_time_"],
               "take_last_with_time and skip_last_with_time both keep (or both drop) the element whose age equals the duration")
    # take_with_time / skip_with_time split the source at one boundary: both arm their timer before subscribing the source, so
    # an element of a cold source placed exactly at the boundary meets the closed take gate and the open skip gate
    rep.rule("X5-timeout-fallback", "timeout without a fallback fails: the fallback is `other or throw(...)`", floor=1)
    tf_ = repo.fn("reactivex/operators/_timeout.py", "timeout_")
    oth = [p_ for p_ in tf_.params if p_ == "other"]
    defs_ = [n_.value for n_ in tf_.direct_nodes() if isinstance(n_, ast.Assign) and oth and u(n_.targets[0]) == oth[0]]
    okf = any(isinstance(v_, ast.BoolOp) and isinstance(v_.op, ast.Or) and u(v_.values[0]) == oth[0] and isinstance(v_.values[-1], ast.Call) and call_name(v_.values[-1]) == "throw"
              for v_ in defs_) or any(isinstance(v_, ast.IfExp) and call_name(v_.orelse if isinstance(v_.orelse, ast.Call) else v_.body) == "throw" for v_ in defs_)
    rep.ob("X5-timeout-fallback", tf_, "other = other or throw(Exception('Timeout'))", okf,
           "timeout() without a fallback sequence has nothing to switch to: when the due time is reached the timer action fails on None "
           "instead of delivering the timeout error to the subscriber")
    rep.rule("X4-boundary-split", "take_with_time / skip_with_time arm the boundary timer before subscribing the source (same tie-break)", floor=2)
    from ..model import is_schedule_call as _isch
    for rel_, q_ in ((f"{O}_takewithtime.py", "take_with_time_.subscribe"), (f"{O}_skipwithtime.py", "skip_with_time_.subscribe")):
        r_ = repo.fn(rel_, q_)
        sch_ = [x for x in sites(r_) if _isch(x.node)]
        sub_ = [x for x in sites(r_) if is_subscribe_call(x.node)]
        rep.ob("X4-boundary-split", r_, f"{q_.split('.')[0]}: timer scheduled before source.subscribe", bool(sch_) and bool(sub_) and max(x.index for x in sch_) < min(x.index for x in sub_),
               f"{q_.split('.')[0]} subscribes its source before arming the boundary timer: with a cold source an element exactly at the boundary is "
               f"handled before the gate moves, so take_with_time and skip_with_time no longer split the source at one boundary (the element is "
               f"passed by both or by neither)")
    # timeout
    from . import sync_common as SY
    rep.rule("X3-fallback-survives", "the fallback subscription stored by the timer is never replaced by the late store of another subscription", floor=2)
    for rel_, q_ in ((f"{O}_timeout.py", "timeout_.subscribe"), (f"{O}_timeoutwithmapper.py", "timeout_with_mapper_.timeout_with_mapper.subscribe")):
        SY.rule_no_serial_clobber(rep, "X3-fallback-survives", repo.fn(rel_, q_))
    # timeout_with_mapper: every source notification that still wins goes through one helper that advances the timer generation
    tm = repo.fn(f"{O}_timeoutwithmapper.py", "timeout_with_mapper_.timeout_with_mapper.subscribe")
    helpers = [g for g in tm.children if g.is_func and names_augmented(g, ast.Add)]
    okh = len(helpers) == 1
    if okh:
        hp = helpers[0]
        bump = [x for x in sites(hp) if isinstance(x.node, ast.AugAssign) and isinstance(x.node.op, ast.Add)]
        # the bump is decided by `not switched` being true (directly, or through the local the helper returns)
        def _neg_switched(e, p_):
            from ..rules import effective_test
            t_ = effective_test(hp, e) if isinstance(e, ast.Name) else e
            if isinstance(t_, ast.UnaryOp) and isinstance(t_.op, ast.Not):
                return p_
            return (not p_) and isinstance(t_, (ast.Name, ast.Subscript)) and not (isinstance(e, ast.Name) and t_ is not e)
        okh = bool(bump) and all(any(_neg_switched(e, p_) for e, p_ in b.ctx.guards) for b in bump)
        for hn in ("on_next", "on_error", "on_completed"):
            h_ = tm.child(hn)
            downs_ = [x for g_, x, k_ in TC.downstream_sites(tm) if g_ is h_]
            gated = h_ is not None and bool(downs_) and all(any(p_ and isinstance(e, ast.Call) and call_name(e) == hp.name for e, p_ in x.ctx.guards) for x in downs_)
            rep.ob("X2-timeout-stale-guard", h_ or tm, f"timeout_with_mapper.{hn}: forwards only under {hp.name}()", gated,
                   f"timeout_with_mapper: the source's {hn} is forwarded without going through the helper that invalidates the armed timeout")
    rep.ob("X2-timeout-stale-guard", tm, "timeout_with_mapper: one helper advances the timer generation, under `not switched`", okh,
           "timeout_with_mapper: a source notification that wins does not advance the timer generation (or advances it when it lost): the "
           "timeout armed for an earlier element still fires after a newer element arrived")
    t = repo.fn(f"{O}_timeout.py", "timeout_.subscribe")
    act = t.find("create_timer.action")
    rep.require(act is not None, "timeout_ timer action")
    # roles: the id is the cell the element handler increments; the captured id the local of create_timer copied from it;
    # the fallback subscription is the `.subscribe(observer, ...)` made by the timer action
    ids = names_augmented(t.child("on_next"), ast.Add)
    idc = ids[0] if len(ids) == 1 else "?id-cell"
    if len(ids) != 1:
        rep.ob("X2-timeout-stale-guard", t.child("on_next"), "timeout_.on_next bumps the timer generation id", False,
               "timeout: an arriving element does not invalidate the armed timer (no id bump): the stale timer can still switch to the "
               "fallback while the element is being delivered")
    ct = t.child("create_timer")
    cap = [s for s in sites(ct) if isinstance(s.node, ast.Assign) and cell_name(s.node.value) == idc and isinstance(s.node.targets[0], ast.Name)]
    idv = cap[0].node.targets[0].id if cap else None
    def id_eq(e):
        return isinstance(e, ast.Compare) and len(e.ops) == 1 and isinstance(e.ops[0], ast.Eq) \
            and {cell_name(e.left), cell_name(e.comparators[0])} == {idc, idv}
    sw = [s for s in sites(act) if is_subscribe_call(s.node) and s.node.args and u(s.node.args[0]) == t.params[0]]
    ok = False
    switched_cells = set()
    if sw and idv:
        # values (cells / locals) defined in the action as the id equality, transitively through plain copies
        eqs = set()
        for _ in range(3):
            for x in sites(act):
                if isinstance(x.node, ast.Assign):
                    v = x.node.value
                    if id_eq(v) or (cell_name(v) in eqs and isinstance(v, (ast.Name, ast.Subscript))):
                        for tg in x.node.targets:
                            if cell_name(tg):
                                eqs.add(cell_name(tg))
        switched_cells = {c for c in eqs if act.owner(c) is not act}
        for e, p in sw[0].ctx.guards:
            if p and (id_eq(e) or cell_name(e) in eqs):
                ok = True
    rep.ob("X2-timeout-stale-guard", act, "fallback subscribed only if id == captured id", ok,
           "the timer switches to the fallback although the source emitted or terminated since the timer was armed")
    rep.ob("X2-timeout-stale-guard", ct, "id captured when the timer is armed", bool(cap), "the timer does not remember which element it was armed for")
    for hn in ("on_next", "on_error", "on_completed"):
        h = t.child(hn)
        bumps = [s for s in sites(h) if isinstance(s.node, ast.AugAssign) and cell_name(s.node.target) == idc
                 and not (isinstance(s.node.value, ast.Constant) and s.node.value.value == 0)]
        downs = [s for g, s, k in TC.downstream_sites(t) if g is h]
        # the forwarding branch is decided by the switched cell being false (directly or through a local copy of `not switched`)
        def not_switched(e, p_, h=h):
            if cell_name(e) in switched_cells and isinstance(e, (ast.Name, ast.Subscript)):
                return not p_
            if isinstance(e, ast.Name):
                for d in sites(h):
                    if isinstance(d.node, ast.Assign) and u(d.node.targets[0]) == e.id:
                        v = d.node.value
                        if isinstance(v, ast.UnaryOp) and isinstance(v.op, ast.Not) and cell_name(v.operand) in switched_cells:
                            return p_
                        if cell_name(v) in switched_cells and isinstance(v, (ast.Name, ast.Subscript)):
                            return not p_
            return False
        ok = len(bumps) == 1 and len(downs) == 1 and bumps[0].ctx.branch == downs[0].ctx.branch and bumps[0].index < downs[0].index \
            and any(not_switched(e, p_) for e, p_ in downs[0].ctx.guards)
        rep.ob("X2-timeout-stale-guard", h, f"timeout_.{hn}: bump id and forward unless already switched", ok,
               f"timeout: {hn} does not invalidate the pending timer (id bump) before forwarding, or forwards after the switch")
