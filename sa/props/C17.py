"""C17 — time-window operators respect their window boundaries (S1)."""
from __future__ import annotations

import ast
from typing import List, Optional, Tuple

from ..astutil import call_name, compare_norm, dotted, short, u
from ..core import Report
from ..ctx import sites
from ..frontend import Repo
from . import typestate_common as TC

O = "reactivex/operators/"
KEYS = [
    f"{O}_takewithtime.py::take_with_time_.subscribe", f"{O}_skipwithtime.py::skip_with_time_.subscribe",
    f"{O}_takeuntilwithtime.py::take_until_with_time_.subscribe", f"{O}_skipuntilwithtime.py::skip_until_with_time_.skip_until_with_time.subscribe",
    f"{O}_takelastwithtime.py::take_last_with_time_.subscribe", f"{O}_skiplastwithtime.py::skip_last_with_time_.skip_last_with_time.subscribe",
    f"{O}_timeout.py::timeout_.subscribe", f"{O}_timeoutwithmapper.py::timeout_with_mapper_.timeout_with_mapper.subscribe",
]


def age_tests(h) -> List[Tuple[object, str, str]]:
    """(site, operator, role) for comparisons `age <op> duration` in handler h; role = 'emit' if the guarded code
    emits downstream, 'drop' if it only removes from the queue."""
    out = []
    par = h.module.parents
    for s in sites(h):
        n = s.node
        if not isinstance(n, ast.Compare):
            continue
        r = compare_norm(n, lambda x: "interval" in u(x) and "now" in u(x))
        if not r or u(r[1]) != "duration":
            continue
        # the statement this test controls
        st = n
        while st is not None and not isinstance(st, (ast.If, ast.While)):
            st = par.get(st)
        if st is None:
            continue
        emits = any(isinstance(x, ast.Call) and isinstance(x.func, ast.Attribute) and x.func.attr == "on_next" for b in st.body for x in ast.walk(b))
        out.append((s, r[0], "emit" if emits else "drop"))
    return out


def check(repo: Repo, rep: Report) -> None:
    rep.explanation = (
        "Structural clauses: (1) typestate signatures of the eight operators equal the confirmed reference (" + TC.LEGEND +
        "); (2) boundary agreement (E9): in take_last_with_time_ and skip_last_with_time_ the age-vs-duration comparisons "
        "of on_next and on_completed are normalised to 'is an element whose age is exactly the duration emitted?' and must "
        "give the same answer in both handlers — a boundary rule that depends on whether another element happened to "
        "arrive is exactly what the property excludes; and the two operators are complementary (skip_last emits at "
        "equality, take_last does not); (3) timeout_/timeout_with_mapper_: the switch to the fallback is decided by "
        "`id == captured id`, every source notification bumps the id under the not-switched guard, so the timer never wins "
        "after the source terminated or emitted. Timing values are not decided.")
    rep.rule("K1-signature", "typestate signature of each slot equals the confirmed reference", floor=25)
    rep.rule("X1-boundary-agreement", "age == duration is treated the same way on arrival and at completion; take_last / skip_last complementary", floor=2)
    rep.rule("X2-timeout-stale-guard", "fallback switch decided by id equality; source notifications bump the id unless switched", floor=5)
    for key in KEYS:
        TC.check_operator(repo, rep, "K1-signature", key,
                          lambda k, slot: "Time-window operators must pass / hold / flush elements exactly at their boundary and terminate with the source or the timer.")
    emitted_at_eq = {}
    for rel, path, name in ((f"{O}_takelastwithtime.py", "take_last_with_time_.subscribe", "take_last_with_time_"),
                            (f"{O}_skiplastwithtime.py", "skip_last_with_time_.skip_last_with_time.subscribe", "skip_last_with_time_")):
        root = repo.fn(rel, path)
        verdicts = {}
        for hn in ("on_next", "on_completed"):
            h = root.child(hn)
            rep.require(h is not None, f"{name}.{hn}")
            tests = age_tests(h)
            if not tests:
                rep.ob("X1-boundary-agreement", h, f"{name}.{hn}: compares element age with the duration", False,
                       f"{name}.{hn} no longer decides by the age of the queued elements")
                continue
            vs = set()
            for s, op, role in tests:
                inclusive = op in (">=", "<=", "==")
                if name.startswith("take_last"):
                    # on arrival old elements are dropped; at completion young ones are emitted
                    kept = (not inclusive) if role == "drop" else inclusive
                    if op in (">", ">=") and role == "emit":
                        kept = not inclusive      # unusual spelling: emits the old ones
                else:
                    kept = inclusive if op in (">=", ">") else not inclusive   # emitted once old enough
                vs.add(kept)
            verdicts[hn] = vs
        if len(verdicts) < 2:
            continue
        a, b = verdicts["on_next"], verdicts["on_completed"]
        ok = len(a) == 1 and len(b) == 1 and a == b
        c = f"on_next trims `{[op for _, op, _ in age_tests(root.child('on_next'))]}`, on_completed tests `{[op for _, op, _ in age_tests(root.child('on_completed'))]}`"
        rep.ob("X1-boundary-agreement", root, f"{name}: {c}", ok,
               f"{name}: an element whose age equals the duration is treated differently when another element arrives and at "
               f"completion ({a} vs {b}): whether it is emitted depends on unrelated arrivals")
        if ok:
            emitted_at_eq[name] = next(iter(a))
    if len(emitted_at_eq) == 2:
        rep.ob("X1-boundary-agreement", "reactivex/operators", "take_last / skip_last complementary at age == duration",
               emitted_at_eq["take_last_with_time_"] != emitted_at_eq["skip_last_with_time_"],
               "take_last_with_time and skip_last_with_time both keep (or both drop) the element whose age equals the duration")
    # timeout
    t = repo.fn(f"{O}_timeout.py", "timeout_.subscribe")
    act = t.find("create_timer.action")
    rep.require(act is not None, "timeout_ timer action")
    sw = [s for s in sites(act) if isinstance(s.node, ast.Call) and dotted(s.node.func) == "obs.subscribe"]
    ok = False
    if sw:
        for e, p in sw[0].ctx.guards:
            if p and isinstance(e, ast.Name):
                d = [x for x in sites(act) if isinstance(x.node, ast.Assign) and u(x.node.targets[0]) == e.id]
                for x in d:
                    src = u(x.node.value)
                    if "==" in src and "_id" in src:
                        ok = True
                    if src == "switched[0]":
                        d2 = [y for y in sites(act) if isinstance(y.node, ast.Assign) and u(y.node.targets[0]) == "switched[0]" and "==" in u(y.node.value) and "_id" in u(y.node.value)]
                        ok = ok or bool(d2)
            if p and isinstance(e, ast.Compare) and "_id" in u(e) and "==" in u(e):
                ok = True
    rep.ob("X2-timeout-stale-guard", act, "fallback subscribed only if id == captured id", ok,
           "the timer switches to the fallback although the source emitted or terminated since the timer was armed")
    cap = [s for s in sites(t.child("create_timer")) if isinstance(s.node, ast.Assign) and u(s.node.value) == "_id[0]"]
    rep.ob("X2-timeout-stale-guard", t.child("create_timer"), "id captured when the timer is armed", bool(cap), "the timer does not remember which element it was armed for")
    for hn in ("on_next", "on_error", "on_completed"):
        h = t.child(hn)
        bumps = [s for s in sites(h) if isinstance(s.node, ast.AugAssign) and "_id" in u(s.node.target)]
        downs = [s for g, s, k in TC.downstream_sites(t) if g is h]
        ok = len(bumps) == 1 and len(downs) == 1 and bumps[0].ctx.branch == downs[0].ctx.branch and bumps[0].index < downs[0].index \
            and any("switched" in x for x in TC.guards_text(downs[0]) + [u(d.node.value) for d in sites(h) if isinstance(d.node, ast.Assign)])
        rep.ob("X2-timeout-stale-guard", h, f"timeout_.{hn}: bump id and forward unless already switched", ok,
               f"timeout: {hn} does not invalidate the pending timer (id bump) before forwarding, or forwards after the switch")
