"""C18 — windows and buffers partition the source correctly (S1)."""
from __future__ import annotations

import ast
import re

from ..astutil import call_name, dotted, short, u
from ..core import Report
from ..ctx import sites
from ..engines.typestate import signature
from ..frontend import AnalysisError, Repo
from ..model import model_of
from ..rules import cell_name
from . import typestate_common as TC
from .common_own import rule_refcount_outputs

O = "reactivex/operators/"
WINDOWS = [
    f"{O}_window.py::window_.subscribe", f"{O}_window.py::window_when_.subscribe",
    f"{O}_windowwithcount.py::window_with_count_.subscribe", f"{O}_windowwithtime.py::window_with_time_.subscribe",
    f"{O}_windowwithtimeorcount.py::window_with_time_or_count_.subscribe", f"{O}_groupjoin.py::group_join_.group_join.subscribe",
]
# buffer operator -> (window operator, its arguments, collector)
BUFFERS = {
    (f"{O}_buffer.py", "buffer_"): ("window", ["boundaries"]),
    (f"{O}_buffer.py", "buffer_when_"): ("window_when", ["closing_mapper"]),
    (f"{O}_buffer.py", "buffer_toggle_"): ("window_toggle", ["openings", "closing_mapper"]),
    (f"{O}_buffer.py", "buffer_with_count_"): ("window_with_count", ["count", "skip_"]),
    (f"{O}_bufferwithtime.py", "buffer_with_time_"): ("window_with_time", ["timespan", "timeshift", "scheduler"]),
    (f"{O}_bufferwithtimeorcount.py", "buffer_with_time_or_count_"): ("window_with_time_or_count", ["timespan", "count", "scheduler"]),
}


def check(repo: Repo, rep: Report) -> None:
    rep.explanation = (
        "Structural clauses: (1) typestate signatures of the window operators (and group_join) equal the confirmed "
        "reference (" + TC.LEGEND + "): every source element is delivered to the open window(s) and to nothing else; "
        "(2) terminal fan-out: the source's on_error / on_completed handlers deliver the *same* terminal kind to every open "
        "window first and then to the subscriber, on every path (sequences e*E resp. c*C); (3) ref-counting: every window "
        "handed downstream is add_ref(subject, r) with the returned RefCountDisposable (shared rule with C02); (4) buffer = "
        "window + to_list: each buffer_* pipes the same-named window_* with identical arguments followed by a "
        "flat_map(to_list / to_iterable). Index / time arithmetic (which elements fall into which window) is not decided.")
    rep.rule("K1-signature", "typestate signature of each slot equals the confirmed reference", floor=25)
    rep.rule("F1-terminal-fan-out", "source terminal handlers: same terminal kind to every open window, then to the subscriber", floor=10)
    rep.rule("F3-buffer-is-window", "buffer_* = window_*(same arguments) + flat_map(to_list)", floor=6)
    m = model_of(repo)
    rep.rule("F0-scheduler-forwarded", "every subscription an operator makes on behalf of a subscriber passes that subscriber's scheduler on", floor=1)
    for rel_, q_ in ((f"{O}_join.py", "join_.join.subscribe"), ("reactivex/internal/utils.py", "add_ref.subscribe")):
        TC.rule_scheduler_forwarded(rep, "F0-scheduler-forwarded", repo.fn(rel_, q_))
    for key in WINDOWS:
        TC.check_operator(repo, rep, "K1-signature", key,
                          lambda k, slot: "Windows must receive every element while open and end with the source's terminal kind.")
        rel, d = key.split("::")
        f = repo.fn(rel, d)
        sig = signature(m, f)
        TC.rule_fanout_loops(rep, "F1-terminal-fan-out", f)
        TC.rule_no_mutation_while_iterating(rep, "F1-terminal-fan-out", f)
        for sub, sl in sig.items():
            if sub != "source#0" or "on_error" not in sl:
                continue   # the defining source only (group_join's right source has no completion slot by design)
            for slot, pat, kind in (("on_error", r"^e*E$", "error"), ("on_completed", r"^c*C$", "completion")):
                v = sl[slot]
                if v.startswith("pass:") or v == "-":
                    ok = v in ("pass:E", "pass:C") and "group_join" in key
                else:
                    ok = bool(TC.normal(v)) and all(re.match(pat, s) for s in TC.normal(v))
                rep.ob("F1-terminal-fan-out", f, f"{sub}.{slot} = {v}", ok,
                       f"{f.qual}: the source's {kind} is not delivered as a {kind} to every open window and then to the subscriber "
                       f"(windows left open, ended with the wrong kind, or the subscriber told first)")
    rule_refcount_outputs(repo, rep)
    gj = repo.fn(f"{O}_groupjoin.py", "group_join_.group_join.subscribe")
    fac_gj = repo.fn(f"{O}_groupjoin.py", "group_join_")
    for hname, sel in (("on_next_left", fac_gj.params[1] if len(fac_gj.params) > 1 else "left_duration_mapper"),):
        h = gj.child(hname)
        if h is None:
            continue
        regs = [s for s in sites(h) if isinstance(s.node, ast.Assign) and isinstance(s.node.targets[0], ast.Subscript) and isinstance(s.node.value, ast.Name)
                and any(isinstance(x.node, (ast.Assign, ast.AnnAssign)) and x.node.value is not None
                        and u(x.node.targets[0] if isinstance(x.node, ast.Assign) else x.node.target) == s.node.value.id
                        and isinstance(x.node.value, ast.Call) and call_name(x.node.value) == "Subject" for x in sites(h))]
        user = [s for s in sites(h) if isinstance(s.node, ast.Call) and isinstance(s.node.func, ast.Name) and s.node.func.id == sel]
        rep.ob("F1-terminal-fan-out", h, "group_join: the new window is registered before its duration selector is called", bool(regs) and bool(user)
               and all(r.index < c.index for r in regs[:1] for c in user),
               "group_join registers the window it has just handed downstream only after calling the user's duration selector: when the "
               "selector raises, the error fan-out does not reach that window (it never terminates and keeps its reference on the sources)")
    rep.rule("T1-rollover", "window_with_time: close iff next_span <= next_shift, open iff next_shift <= next_span (both when equal), evaluated for the three orderings", floor=4)
    rule_rollover(repo, rep)
    # drain-style fan-out (`while q: q.pop(0).on_error(e)`): the loop runs while the collection is non-empty
    rep.rule("F4-drain-fan-out", "a terminal handler that drains the open windows loops while the collection is non-empty", floor=2)
    for rel_, q_ in (("reactivex/operators/_windowwithcount.py", "window_with_count_.subscribe"),):
        rt = repo.fn(rel_, q_)
        for g_ in rt.walk():
            if not g_.is_func:
                continue
            for nd in g_.direct_nodes():
                if isinstance(nd, ast.While) and any(isinstance(c, ast.Call) and isinstance(c.func, ast.Attribute) and c.func.attr in ("on_error", "on_completed") for c in ast.walk(nd)):
                    pops = [c for c in ast.walk(nd) if isinstance(c, ast.Call) and isinstance(c.func, ast.Attribute) and c.func.attr in ("pop", "popleft")]
                    coll = u(pops[0].func.value) if pops else "?"
                    okw = bool(pops) and u(nd.test) in (coll, f"len({coll}) > 0", f"len({coll})", f"len({coll}) != 0")
                    rep.ob("F4-drain-fan-out", g_, f"{g_.qual}: `while {short(nd.test, 30)}: {coll}.pop().on_*`", okw,
                           f"{g_.qual}: the drain loop does not run exactly while `{coll}` is non-empty: open windows never receive the terminal "
                           f"notification (or the loop pops from an empty collection)")
    # group_join (window_toggle / buffer_toggle): errors are fanned out over the map that holds the window subjects
    rep.rule("F5-subject-map-fan-out", "group_join: every loop that delivers an error / completion to the open windows iterates the map the window subjects are stored in", floor=3)
    gj_ = repo.fn("reactivex/operators/_groupjoin.py", "group_join_.group_join.subscribe")
    subj_maps = set()
    for g_ in gj_.walk():
        if not g_.is_func:
            continue
        subj_locals = {u(n_.targets[0] if isinstance(n_, ast.Assign) else n_.target) for n_ in g_.direct_nodes() if isinstance(n_, (ast.Assign, ast.AnnAssign)) and n_.value is not None
                       and isinstance(n_.value, ast.Call) and call_name(n_.value) == "Subject"}
        for n_ in g_.direct_nodes():
            if isinstance(n_, ast.Assign) and isinstance(n_.targets[0], ast.Subscript) and isinstance(n_.value, ast.Name) and n_.value.id in subj_locals:
                subj_maps.add(u(n_.targets[0].value))
    for g_ in gj_.walk():
        if not g_.is_func:
            continue
        for nd in g_.direct_nodes():
            if isinstance(nd, ast.For) and isinstance(nd.target, ast.Name) and any(isinstance(c, ast.Call) and isinstance(c.func, ast.Attribute) and c.func.attr in ("on_error", "on_completed")
                                                                                   and u(c.func.value) == nd.target.id for b_ in nd.body for c in ast.walk(b_)):
                base = [x.id for x in ast.walk(nd.iter) if isinstance(x, ast.Name)]
                rep.ob("F5-subject-map-fan-out", g_, f"{g_.qual}: `for {nd.target.id} in {short(nd.iter, 30)}` terminates the windows in {sorted(subj_maps)}", bool(subj_maps) and any(b in subj_maps for b in base),
                       f"{g_.qual} fans the terminal notification out over `{u(nd.iter)}`, which is not the map the window subjects live in: the open "
                       f"windows are left without a terminal notification")
    # count-based windows / buffers: an omitted skip means skip = count
    rep.rule("F6-skip-default", "window_with_count / buffer_with_count: `skip_ = skip if skip is not None else count`", floor=2)
    for rel_, q_ in (("reactivex/operators/_windowwithcount.py", "window_with_count_"), ("reactivex/operators/_buffer.py", "buffer_with_count_")):
        ff = repo.fn(rel_, q_)
        pc, ps = ff.params[1], ff.params[2]
        from ..rules import conditional_defs
        from ..astutil import compare_parts as _cp

        def _none_test(facts, want_none):
            for e_, p_ in facts:
                c_ = _cp(e_)
                if c_ and c_[0] == ps and c_[2] == "None" and c_[1] in ("is", "is not", "==", "!="):
                    if ((c_[1] in ("is", "==")) == p_) == want_none:
                        return True
            return False
        cds = [d_ for d_ in conditional_defs(ff, lambda t_: isinstance(t_, ast.Name) and t_.id not in (pc, ps))]
        byt = {}
        for s_, v_, f_ in cds:
            byt.setdefault(u(s_.node.targets[0]), []).append((v_, f_))
        okd = any(any(u(v_) == pc and _none_test(f_, True) for v_, f_ in lst) and any(u(v_) == ps and _none_test(f_, False) for v_, f_ in lst) for lst in byt.values())
        dd = [s_.node.value for s_, v_, f_ in cds if u(v_) in (pc, ps)]
        rep.ob("F6-skip-default", ff, f"{q_}: `{short(dd[0], 50) if dd else '?'}`", okd,
               f"{q_} does not default an omitted skip to count: windows / buffers of an operator called with count only do not tile the source "
               f"(or the call fails on None)")
    # window_with_time_or_count: every rollover (by time, by count) starts a new window generation, and the first window has a timer
    rep.rule("T2-generation", "window_with_time_or_count: each rollover advances the window id before arming the next timer; the first window's timer is armed in subscribe", floor=3)
    wt_ = repo.fn("reactivex/operators/_windowwithtimeorcount.py", "window_with_time_or_count_.subscribe")
    ct_ = wt_.child("create_timer")
    ids_ = set()
    if ct_ is not None and ct_.child("action") is not None:
        from ..rules import names_augmented as _na
        ids_ = set(_na(ct_.child("action"), ast.Add)) & set(_na(wt_.child("on_next") or ct_, ast.Add))
    rep.ob("T2-generation", wt_, f"window id cell {sorted(ids_) or '?'} advanced by the timer action and by the count rollover", len(ids_) == 1,
           "window_with_time_or_count does not advance one window generation id in both rollovers: a timer armed for a window that was "
           "already closed by the count still fires and closes the next window early")
    if len(ids_) == 1:
        wid = next(iter(ids_))
        for g_ in (ct_.child("action"), wt_.child("on_next")):
            bump = [x for x in sites(g_) if isinstance(x.node, ast.AugAssign) and cell_name(x.node.target) == wid]
            opens = [x for x in sites(g_) if isinstance(x.node, ast.Call) and u(x.node.func) == f"{wt_.params[0]}.on_next"]
            rep.ob("T2-generation", g_, f"{g_.qual}: `{wid} += 1` on the path that opens the next window", bool(bump) and bool(opens) and bump[0].ctx.branch == opens[0].ctx.branch and bump[0].index < opens[0].index,
                   f"{g_.qual} opens the next window without advancing the window id first")
    if len(ids_) == 1 and ct_ is not None and ct_.child("action") is not None:
        act_ = ct_.child("action")
        wid = next(iter(ids_))
        cap_ = ct_.params[0] if ct_.params else "?"
        opens_ = [x for x in sites(act_) if isinstance(x.node, ast.Call) and u(x.node.func) == f"{wt_.params[0]}.on_next"]
        okg = False
        for x in opens_:
            for e, p_ in x.ctx.guards:
                if isinstance(e, ast.Compare) and len(e.ops) == 1 and {cell_name(e.left), cell_name(e.comparators[0])} == {cap_, wid}:
                    okg = (isinstance(e.ops[0], ast.NotEq) and not p_) or (isinstance(e.ops[0], ast.Eq) and p_)
        rep.ob("T2-generation", act_, f"timer action proceeds only if `{cap_} == {wid}` (equality of generations)", okg,
               "the timer action's stale guard does not compare the generation it was armed for with the current one for equality: a timer "
               "armed for a window already closed by the count still rotates the next window")
    first = [x for x in sites(wt_) if isinstance(x.node, ast.Call) and isinstance(x.node.func, ast.Name) and ct_ is not None and x.node.func.id == ct_.name and not x.ctx.branch]
    rep.ob("T2-generation", wt_, "subscribe arms the timer of the first window", bool(first),
           "window_with_time_or_count never arms a timer for its first window: that window is closed by the count only, however long it lives")
    # a window's closing / timer subscription held in a SerialDisposable is stored through a placeholder: the closing sequence may
    # fire inside its own subscribe, and its handler installs the NEXT window's closing subscription in the same serial
    from . import sync_common as SY
    rep.rule("W5-closing-survives", "window_when / timed windows: a closing subscription installed from a callback is not overwritten by the outer store", floor=1)
    n_sw = 0
    for rel_, q_ in (("reactivex/operators/_window.py", "window_when_"), ("reactivex/operators/_windowwithtime.py", "window_with_time_"),
                     ("reactivex/operators/_windowwithtimeorcount.py", "window_with_time_or_count_")):
        n_sw += SY.rule_no_serial_clobber(rep, "W5-closing-survives", repo.fn(rel_, q_))
    rep.ob("W5-closing-survives", repo.fn("reactivex/operators/_window.py", "window_when_"), f"{n_sw} store(s) of a subscription / scheduled step into a serial disposable examined", True)
    # window_toggle: a source element lives for a zero-length duration
    rep.rule("Z1-zero-length-element", "window_toggle gives each source element a duration that ends inside its own subscribe (empty() on the immediate scheduler)", floor=2)
    wt = repo.fn("reactivex/operators/_window.py", "window_toggle_")
    gj = [n for n in wt.all_nodes() if isinstance(n, ast.Call) and call_name(n) == "group_join"]
    dur = gj[0].args[2] if len(gj) == 1 and len(gj[0].args) >= 3 else None
    ok = isinstance(dur, ast.Lambda) and isinstance(dur.body, ast.Call) and call_name(dur.body) == "empty" and not dur.body.args and not dur.body.keywords
    rep.ob("Z1-zero-length-element", wt, "group_join(source, closing_mapper, lambda _: empty())", ok,
           "window_toggle does not give source elements an empty() duration: an element stays joinable after its own delivery and is "
           "replayed into windows that open later")
    em = repo.fn("reactivex/observable/empty.py", "empty_")
    scheds = sorted({n.id for n in em.all_nodes() if isinstance(n, ast.Name) and n.id.endswith("Scheduler")}
                    | {n.attr for n in em.all_nodes() if isinstance(n, ast.Attribute) and n.attr.endswith("Scheduler")})
    rep.ob("Z1-zero-length-element", em, f"empty_ falls back to {scheds or 'no scheduler'}", set(scheds) <= {"ImmediateScheduler"},
           f"empty() without a scheduler completes through {scheds}: on a trampoline / timer the completion is deferred until after the "
           f"running action, so window_toggle's zero-length element durations overlap windows opened later in the same run and "
           f"elements are replayed into windows that were not open when they arrived")
    for (rel, name), (wop, wargs) in BUFFERS.items():
        f = repo.fn(rel, name)
        calls = [n for n in f.all_nodes() if isinstance(n, ast.Call) and call_name(n) == wop]
        ok = len(calls) == 1
        if ok:
            got = [a for a in calls[0].args] + [k.value for k in calls[0].keywords]
            ok = len(got) == len(wargs)
            for a, want in zip(got, wargs):
                role = want.rstrip("_")
                if isinstance(a, ast.Name) and a.id == want:
                    continue
                # a local derived from the parameter of that role (e.g. skip_ = skip if skip is not None else count)
                defs = [s_.node.value for s_ in sites(f) if isinstance(s_.node, (ast.Assign, ast.AnnAssign)) and s_.node.value is not None
                        and isinstance(a, ast.Name) and u(s_.node.targets[0] if isinstance(s_.node, ast.Assign) else s_.node.target) == a.id]
                if not (defs and any(isinstance(x, ast.Name) and x.id == role for d_ in defs for x in ast.walk(d_))):
                    ok = False
        coll = [n for n in f.all_nodes() if isinstance(n, ast.Call) and call_name(n) in ("to_list", "to_iterable")]
        fm = [n for n in f.all_nodes() if isinstance(n, ast.Call) and call_name(n) == "flat_map"]
        rep.ob("F3-buffer-is-window", f, f"{name} = {wop}({', '.join(wargs)}) + flat_map(to_list)", ok and bool(coll) and bool(fm),
               f"{name} is not the contents of {wop} with the same arguments: buffers and windows would partition the source differently")


# ---------------------------------------------------------------------------------------------------------------
class _Unsupported(Exception):
    pass


def _ev(e: ast.AST, env: dict):
    """Evaluate a boolean / comparison expression over the two boundary cells (values are touched only through
    comparisons, so the three orderings <, ==, > of the pair are the whole input space)."""
    if isinstance(e, ast.Constant):
        return e.value
    if isinstance(e, ast.Name):
        if e.id in env:
            return env[e.id]
        raise _Unsupported(u(e))
    if isinstance(e, ast.Subscript) and isinstance(e.value, ast.Name) and e.value.id in env and u(e.slice) == "0":
        return env[e.value.id]
    if isinstance(e, ast.UnaryOp) and isinstance(e.op, ast.Not):
        return not _ev(e.operand, env)
    if isinstance(e, ast.BoolOp):
        vals = [_ev(v, env) for v in e.values]
        return all(vals) if isinstance(e.op, ast.And) else any(vals)
    if isinstance(e, ast.IfExp):
        return _ev(e.body, env) if _ev(e.test, env) else _ev(e.orelse, env)
    if isinstance(e, ast.Compare) and len(e.ops) == 1:
        a, b = _ev(e.left, env), _ev(e.comparators[0], env)
        op = e.ops[0]
        return {ast.Eq: a == b, ast.NotEq: a != b, ast.Lt: a < b, ast.LtE: a <= b, ast.Gt: a > b, ast.GtE: a >= b}[type(op)]
    raise _Unsupported(u(e))


def _run(stmts, env: dict, flags: set) -> None:
    for st in stmts:
        if isinstance(st, ast.Assign) and len(st.targets) == 1 and isinstance(st.targets[0], ast.Name) and st.targets[0].id in flags:
            env[st.targets[0].id] = _ev(st.value, env)
        elif isinstance(st, ast.AnnAssign) and isinstance(st.target, ast.Name) and st.target.id in flags and st.value is not None:
            env[st.target.id] = _ev(st.value, env)
        elif isinstance(st, ast.If) and any(isinstance(x, ast.Name) and x.id in flags and isinstance(x.ctx, ast.Store) for x in ast.walk(st)):
            _run(st.body if _ev(st.test, env) else st.orelse, env, flags)
        elif isinstance(st, ast.Assign) and len(st.targets) == 1 and isinstance(st.targets[0], ast.Name):
            # another local (a named condition, for instance): keep its value if it is a function of the two cells
            try:
                env[st.targets[0].id] = _ev(st.value, env)
            except (_Unsupported, TypeError, KeyError):
                env.pop(st.targets[0].id, None)
        # every other statement neither defines nor redefines a flag


def rule_rollover(repo: Repo, rep: Report) -> None:
    """window_with_time: at each timer tick the oldest window closes iff next_span <= next_shift and a new one opens iff
    next_shift <= next_span -- in particular BOTH in the same action when the two coincide (tumbling windows: an
    element arriving at the boundary always finds an open window)."""
    from ..rules import locals_by_init
    rel = f"{O}_windowwithtime.py"
    root = repo.fn(rel, "window_with_time_.subscribe")
    fac = repo.fn(rel, "window_with_time_")
    ct = root.child("create_timer")
    rep.require(ct is not None, "window_with_time: create_timer")
    act = ct.child("action")
    rep.require(act is not None, "window_with_time: timer action")
    span_p, shift_p = fac.params[1], fac.params[2]
    cell = lambda p: locals_by_init(root, lambda v: isinstance(v, ast.List) and len(v.elts) == 1 and u(v.elts[0]) == p)
    spans, shifts = cell(span_p), cell(shift_p)
    rep.require(len(spans) == 1 and len(shifts) == 1, "window_with_time: next-span / next-shift cells")
    span, shift = spans[0], shifts[0]
    # roles of the two flags from what the action does under them
    close = open_ = None
    for s in sites(act):
        n = s.node
        if isinstance(n, ast.Call) and isinstance(n.func, ast.Attribute) and n.func.attr in ("pop", "popleft"):
            for e, p in s.ctx.guards:
                if p and isinstance(e, ast.Name) and act.owner(e.id) is ct:
                    close = e.id
        if isinstance(n, ast.Call) and call_name(n) == "add_ref":
            for e, p in s.ctx.guards:
                if p and isinstance(e, ast.Name) and act.owner(e.id) is ct:
                    open_ = e.id
    if not (close and open_):
        rep.ob("T1-rollover", act, "the timer action closes the oldest window / opens a new one under two decisions taken when it was armed", False,
               "window_with_time's timer action no longer closes (queue.pop) and opens (add_ref) windows under the two decisions computed "
               "by create_timer: the roll-over at a boundary is not the confirmed close-iff-span<=shift / open-iff-shift<=span step")
        return
    body = [st for st in ct.node.body if not isinstance(st, (ast.FunctionDef, ast.AsyncFunctionDef))]
    for a, b, label in ((0, 1, "next_span < next_shift"), (1, 1, "next_span == next_shift"), (1, 0, "next_span > next_shift")):
        env = {span: a, shift: b}
        try:
            _run(body, env, {close, open_})
            got = (env.get(close), env.get(open_))
        except _Unsupported as ex:
            raise AnalysisError(f"window_with_time: cannot evaluate `{ex}` in create_timer") from None
        want = (a <= b, b <= a)
        rep.ob("T1-rollover", ct, f"{label}: close oldest = {want[0]}, open new = {want[1]}", got == want,
               f"window_with_time: when {label} the timer action decides (close, open) = {got} instead of {want}: at a boundary "
               f"where a window closes and the next opens, the two no longer happen in one step -- an element arriving "
               f"in between is in too few windows (in none, for tumbling windows)")
    # the decisions are taken before the timer is armed and used by its action unchanged
    rep.ob("T1-rollover", act, "the action opens before it closes, then re-arms", [x for x in ("open", "close", "rearm") if x] == _order(act, open_, close), 
           "the timer action does not open the new window before closing the oldest and re-arming")


def _order(act, open_, close):
    out = []
    for s in sites(act):
        n = s.node
        if isinstance(n, ast.Call) and call_name(n) == "add_ref" and "open" not in out:
            out.append("open")
        if isinstance(n, ast.Call) and isinstance(n.func, ast.Attribute) and n.func.attr in ("pop", "popleft") and "close" not in out:
            out.append("close")
        if isinstance(n, ast.Call) and isinstance(n.func, ast.Name) and n.func.id == "create_timer" and "rearm" not in out:
            out.append("rearm")
    return out


