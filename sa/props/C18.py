"""C18 — windows and buffers partition the source correctly (S1)."""
from __future__ import annotations

import ast
import re

from ..astutil import call_name, dotted, short, u
from ..core import Report
from ..ctx import sites
from ..engines.typestate import signature
from ..frontend import Repo
from ..model import model_of
from . import typestate_common as TC
from .common_own import rule_refcount_outputs

O = "reactivex/operators/"
WINDOWS = [
    f"{O}_window.py::window_.subscribe", f"{O}_window.py::window_when_.subscribe",
    f"{O}_windowwithcount.py::window_with_count_.subscribe", f"{O}_windowwithtime.py::window_with_time_.subscribe",
    f"{O}_windowwithtimeorcount.py::window_with_time_or_count_.subscribe", f"{O}_groupjoin.py::group_join_.group_join.subscribe",
]
# buffer operator -> (window operator, its arguments, collector)
BUFFERS = {
    (f"{O}_buffer.py", "buffer_"): ("window", ["boundaries"]),
    (f"{O}_buffer.py", "buffer_when_"): ("window_when", ["closing_mapper"]),
    (f"{O}_buffer.py", "buffer_toggle_"): ("window_toggle", ["openings", "closing_mapper"]),
    (f"{O}_buffer.py", "buffer_with_count_"): ("window_with_count", ["count", "skip_"]),
    (f"{O}_bufferwithtime.py", "buffer_with_time_"): ("window_with_time", ["timespan", "timeshift", "scheduler"]),
    (f"{O}_bufferwithtimeorcount.py", "buffer_with_time_or_count_"): ("window_with_time_or_count", ["timespan", "count", "scheduler"]),
}


def check(repo: Repo, rep: Report) -> None:
    rep.explanation = (
        "Structural clauses: (1) typestate signatures of the window operators (and group_join) equal the confirmed "
        "reference (" + TC.LEGEND + "): every source element is delivered to the open window(s) and to nothing else; "
        "(2) terminal fan-out: the source's on_error / on_completed handlers deliver the *same* terminal kind to every open "
        "window first and then to the subscriber, on every path (sequences e*E resp. c*C); (3) ref-counting: every window "
        "handed downstream is add_ref(subject, r) with the returned RefCountDisposable (shared rule with C02); (4) buffer = "
        "window + to_list: each buffer_* pipes the same-named window_* with identical arguments followed by a "
        "flat_map(to_list / to_iterable). Index / time arithmetic (which elements fall into which window) is not decided.")
    rep.rule("K1-signature", "typestate signature of each slot equals the confirmed reference", floor=25)
    rep.rule("F1-terminal-fan-out", "source terminal handlers: same terminal kind to every open window, then to the subscriber", floor=10)
    rep.rule("F3-buffer-is-window", "buffer_* = window_*(same arguments) + flat_map(to_list)", floor=6)
    m = model_of(repo)
    rep.rule("F0-scheduler-forwarded", "every subscription an operator makes on behalf of a subscriber passes that subscriber's scheduler on", floor=1)
    for rel_, q_ in ((f"{O}_join.py", "join_.join.subscribe"), ("reactivex/internal/utils.py", "add_ref.subscribe")):
        TC.rule_scheduler_forwarded(rep, "F0-scheduler-forwarded", repo.fn(rel_, q_))
    for key in WINDOWS:
        TC.check_operator(repo, rep, "K1-signature", key,
                          lambda k, slot: "Windows must receive every element while open and end with the source's terminal kind.")
        rel, d = key.split("::")
        f = repo.fn(rel, d)
        sig = signature(m, f)
        for sub, sl in sig.items():
            if sub != "source#0" or "on_error" not in sl:
                continue   # the defining source only (group_join's right source has no completion slot by design)
            for slot, pat, kind in (("on_error", r"^e*E$", "error"), ("on_completed", r"^c*C$", "completion")):
                v = sl[slot]
                if v.startswith("pass:") or v == "-":
                    ok = v in ("pass:E", "pass:C") and "group_join" in key
                else:
                    ok = bool(TC.normal(v)) and all(re.match(pat, s) for s in TC.normal(v))
                rep.ob("F1-terminal-fan-out", f, f"{sub}.{slot} = {v}", ok,
                       f"{f.qual}: the source's {kind} is not delivered as a {kind} to every open window and then to the subscriber "
                       f"(windows left open, ended with the wrong kind, or the subscriber told first)")
    rule_refcount_outputs(repo, rep)
    for (rel, name), (wop, wargs) in BUFFERS.items():
        f = repo.fn(rel, name)
        calls = [n for n in f.all_nodes() if isinstance(n, ast.Call) and call_name(n) == wop]
        ok = len(calls) == 1
        if ok:
            got = [a for a in calls[0].args] + [k.value for k in calls[0].keywords]
            ok = len(got) == len(wargs)
            for a, want in zip(got, wargs):
                role = want.rstrip("_")
                if isinstance(a, ast.Name) and a.id == want:
                    continue
                # a local derived from the parameter of that role (e.g. skip_ = skip if skip is not None else count)
                defs = [s_.node.value for s_ in sites(f) if isinstance(s_.node, (ast.Assign, ast.AnnAssign)) and s_.node.value is not None
                        and isinstance(a, ast.Name) and u(s_.node.targets[0] if isinstance(s_.node, ast.Assign) else s_.node.target) == a.id]
                if not (defs and any(isinstance(x, ast.Name) and x.id == role for d_ in defs for x in ast.walk(d_))):
                    ok = False
        coll = [n for n in f.all_nodes() if isinstance(n, ast.Call) and call_name(n) in ("to_list", "to_iterable")]
        fm = [n for n in f.all_nodes() if isinstance(n, ast.Call) and call_name(n) == "flat_map"]
        rep.ob("F3-buffer-is-window", f, f"{name} = {wop}({', '.join(wargs)}) + flat_map(to_list)", ok and bool(coll) and bool(fm),
               f"{name} is not the contents of {wop} with the same arguments: buffers and windows would partition the source differently")
