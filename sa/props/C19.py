"""C19 — grouping routes each element to exactly one live group (S1)."""
from __future__ import annotations

import ast
import re

from ..astutil import call_name, dotted, short, u
from ..core import Report
from ..ctx import paths, sites
from ..engines.typestate import signature
from ..frontend import Repo
from ..model import model_of
from . import typestate_common as TC

GBU = "reactivex/operators/_groupbyuntil.py"
GB = "reactivex/operators/_groupby.py"
PT = "reactivex/operators/_partition.py"
KEY = f"{GBU}::group_by_until_.group_by_until.subscribe"


def is_subscribe_call_(n) -> bool:
    from ..model import is_subscribe_call
    return is_subscribe_call(n)


def check(repo: Repo, rep: Report) -> None:
    rep.explanation = (
        "Structural clauses of group_by_until_ / group_by_ / partition_*: (1) typestate signature equals the confirmed "
        "reference (" + TC.LEGEND + "); (2) exactly one live group: the element is delivered with a single "
        "`writer.on_next(element)` where writer is the map entry of the computed key, created (and announced downstream, "
        "ref-counted: C02) when absent — on every non-failing path exactly one inner delivery, preceded by at most one new "
        "group; (3) expiry removes the key from the map *and* completes that writer, so the key's next element opens a new "
        "group; (4) terminal fan-out to all writers and then the subscriber with the same kind; (5) group_by = "
        "group_by_until with a never-ending duration; partition: two outputs filter one shared published source by the "
        "predicate and by a wrapper that is its logical negation. Key semantics / contents are not decided.")
    rep.rule("K1-signature", "typestate signature of each slot equals the confirmed reference", floor=5)
    rep.rule("G1-single-delivery", "each element goes to exactly the writer of its key", floor=3)
    rep.rule("G2-expiry", "expiry removes the key and completes its writer", floor=2)
    rep.rule("G3-terminal-fan-out", "terminal notifications reach every writer, then the subscriber, with the same kind", floor=2)
    rep.rule("G4-delegations", "group_by / partition definitions", floor=4)
    TC.check_operator(repo, rep, "K1-signature", KEY,
                      lambda k, slot: "Each element must reach exactly one group; groups end with the source's terminal kind.")
    root = repo.fn(GBU, "group_by_until_.group_by_until.subscribe")
    on_next = root.child("on_next")
    rep.require(on_next is not None, "group_by_until on_next")
    # roles: key = the local computed by key_mapper(element); writers = the map looked up with it; writer = that entry
    keydef = [s for s in sites(on_next) if isinstance(s.node, ast.Assign) and isinstance(s.node.targets[0], ast.Name)
              and isinstance(s.node.value, ast.Call) and u(s.node.value.func) == "key_mapper" and [u(a_) for a_ in s.node.value.args] == [on_next.params[0]]]
    rep.require(len(keydef) == 1, "group_by_until: key = key_mapper(x)")
    key = keydef[0].node.targets[0].id
    lookup = [s for s in sites(on_next) if isinstance(s.node, ast.Assign) and isinstance(s.node.targets[0], ast.Name) and isinstance(s.node.value, ast.Call)
              and isinstance(s.node.value.func, ast.Attribute) and s.node.value.func.attr == "get" and isinstance(s.node.value.func.value, ast.Name)
              and [u(a_) for a_ in s.node.value.args] == [key]]
    if len(lookup) != 1:
        rep.ob("G1-single-delivery", on_next, "the group of an element is looked up in the map of live groups on every element", False,
               "group_by_until does not decide the element's group by ONE lookup of its key in the map of live groups (a cached / second "
               "source of truth): after a group expired, elements of that key reach the completed subject and are lost, or a second live group appears")
        return
    writer = lookup[0].node.targets[0].id
    writers = lookup[0].node.value.func.value.id
    deliver = [s for s in sites(on_next) if isinstance(s.node, ast.Call) and isinstance(s.node.func, ast.Attribute) and s.node.func.attr == "on_next"
               and dotted(s.node.func.value) not in (root.params[0],)]
    ok = len(deliver) == 1 and dotted(deliver[0].node.func.value) == writer and not [b for b in deliver[0].ctx.branch if b[1] not in ("try",)]
    rep.ob("G1-single-delivery", on_next, "one unconditional writer.on_next(element) at the end of on_next", ok,
           "the element is not delivered to exactly one group writer (zero or several deliveries on some path)")
    store = [s for s in sites(on_next) if isinstance(s.node, ast.Assign) and u(s.node.targets[0]) == f"{writers}[{key}]" and u(s.node.value) == writer]
    ok = bool(store) and keydef[0].index < lookup[0].index < store[0].index and \
        any((not p_ and u(e_) == writer) or (p_ and u(e_) == f"{writer} is None") for e_, p_ in store[0].ctx.guards)
    rep.ob("G1-single-delivery", on_next, "writer = writers.get(key_mapper(x)); created and stored when absent", ok,
           "the writer used for an element is not the map entry of its own key (created only when absent)")
    sig = signature(model_of(repo), root)["source#0"]["on_next"]
    ok = all(s.replace("!", "").count("n") <= 1 and s.replace("!", "").count("N") <= 1 for s in TC.seqs(sig))
    rep.ob("G1-single-delivery", on_next, f"per path at most one new group and one delivery: {sig}", ok,
           "some path announces several groups or delivers the element several times")
    ex = on_next.child("expire")
    rep.require(ex is not None, "expire")
    dele = [s for s in sites(ex) if isinstance(s.node, ast.Delete) and u(s.node.targets[0]) == f"{writers}[{key}]"]
    comp = [s for s in sites(ex) if isinstance(s.node, ast.Call) and dotted(s.node.func) == f"{writer}.on_completed"]
    ok = len(dele) == 1 and len(comp) == 1 and dele[0].ctx.branch == comp[0].ctx.branch and dele[0].index < comp[0].index
    rep.ob("G2-expiry", ex, "del writers[key]; writer.on_completed()", ok,
           "an expired group is not both removed from the map and completed: its key keeps feeding a dead group, or the group never ends")
    from ..rules import locals_by_init
    groups = locals_by_init(root, lambda v: isinstance(v, ast.Call) and call_name(v) == "CompositeDisposable")
    rem = [s for s in sites(ex) if isinstance(s.node, ast.Call) and isinstance(s.node.func, ast.Attribute) and s.node.func.attr == "remove"
           and dotted(s.node.func.value) in groups]
    rep.ob("G2-expiry", ex, "duration subscription released", bool(rem), "the duration subscription of an expired group is kept")
    from . import sync_common as SY
    rep.rule("G5-registered-before-subscribe", "the duration subscription's holder is registered before the duration sequence is subscribed", floor=1)
    SY.rule_registered_before_subscribe(rep, "G5-registered-before-subscribe", root)
    for rel_, q_ in (("reactivex/observable/groupedobservable.py", "GroupedObservable.__init__.subscribe"),
                     ("reactivex/observable/groupedobservable.py", "GroupedObservable._subscribe_core")):
        TC.rule_scheduler_forwarded(rep, "F0-scheduler-forwarded", repo.fn(rel_, q_))
    # GroupedObservable(key, subject[, refcount]): key first — the group handed downstream and the one handed to the duration mapper
    for g_ in root.walk():
        if not g_.is_func:
            continue
        for n_ in g_.direct_nodes():
            if isinstance(n_, ast.Call) and call_name(n_) == "GroupedObservable" and len(n_.args) >= 2:
                a0, a1 = n_.args[0], n_.args[1]
                key_like = isinstance(a0, ast.Name) and any(isinstance(m_, ast.Assign) and u(m_.targets[0]) == a0.id and isinstance(m_.value, ast.Call) and "key" in u(m_.value.func) for m_ in g_.direct_nodes())
                subj_like = isinstance(a1, ast.Name) and any(isinstance(m_, ast.Assign) and u(m_.targets[0]) == a1.id and isinstance(m_.value, ast.Call) and ("subject" in u(m_.value.func).lower() or "get" in u(m_.value.func)) for m_ in g_.direct_nodes())
                rep.ob("G1-single-delivery", g_, f"{g_.qual}: `{short(n_, 60)}` = GroupedObservable(<key>, <group subject>, ...)", key_like and subj_like,
                       "a GroupedObservable is built with its key and its subject exchanged: `.key` is the subject and subscribing the group fails — "
                       "duration selectors that look at the group, and every consumer of `.key`, see the wrong thing")
    TC.rule_fanout_loops(rep, "G3-terminal-fan-out", root)
    TC.rule_no_mutation_while_iterating(rep, "G3-terminal-fan-out", root)
    # a failing user callback (key / element / subject / duration mapper) ends every open group with that error before the
    # subscriber gets it: each handler that reports `e` downstream first fans it out over the group map
    par_ = root.module.parents
    for g_ in root.walk():
        if not g_.is_func:
            continue
        for nd in g_.direct_nodes():
            if not isinstance(nd, ast.ExceptHandler) or not nd.name:
                continue
            down = [c for st in nd.body for c in ast.walk(st) if isinstance(c, ast.Call) and u(c.func) == f"{root.params[0]}.on_error" and c.args and u(c.args[0]) == nd.name]
            if not down:
                continue
            loops_ = [st for st in nd.body if isinstance(st, ast.For) and any(isinstance(x, ast.Name) and x.id == writers for x in ast.walk(st.iter))
                      and any(isinstance(c, ast.Call) and isinstance(c.func, ast.Attribute) and c.func.attr == "on_error" and u(c.func.value) == u(st.target)
                              and c.args and u(c.args[0]) == nd.name for b_ in st.body for c in ast.walk(b_))]
            okh = len(loops_) == 1 and loops_[0].lineno < down[0].lineno
            rep.ob("G3-terminal-fan-out", g_, f"{g_.qual}: `except ... as {nd.name}` around `{short(par_.get(nd).body[0], 30) if par_.get(nd) is not None else '?'}`: every open group gets the error, then the subscriber", okh,
                   f"{g_.qual}: a failing user callback is reported to the subscriber without first ending every open group with the same error: "
                   f"subscribers of the open groups never terminate")
    # the fan-out iterates a snapshot of the group map: ending a group can expire it synchronously (a duration derived from
    # the group itself) and `expire` deletes from the map
    for g_ in root.walk():
        if not g_.is_func:
            continue
        for nd in g_.direct_nodes():
            if isinstance(nd, ast.For) and any(isinstance(x, ast.Name) and x.id == writers for x in ast.walk(nd.iter)) and any(
                    isinstance(c, ast.Call) and isinstance(c.func, ast.Attribute) and c.func.attr in ("on_next", "on_error", "on_completed")
                    for st in nd.body for c in ast.walk(st)):
                it = nd.iter
                snap = isinstance(it, ast.Call) and ((isinstance(it.func, ast.Name) and it.func.id in ("list", "tuple", "sorted"))
                                                     or (isinstance(it.func, ast.Attribute) and it.func.attr == "copy"))
                rep.ob("G3-terminal-fan-out", g_, f"{g_.qual}: `for {u(nd.target)} in {short(it, 40)}` iterates a snapshot of the group map", snap,
                       f"{g_.qual} fans a notification out over the live group map `{u(it)}`: a group whose duration ends with the "
                       f"group itself is expired from inside that call (`del {writers}[key]`), the iteration raises RuntimeError, the "
                       f"remaining groups and the subscriber never receive the terminal notification")
    TC.pipelines_exact(repo, rep, "G2-expiry", {(GBU, "group_by_until_"): [["take"]]})
    tk = [n for n in root.all_nodes() if isinstance(n, ast.Call) and call_name(n) == "take"]
    rep.ob("G2-expiry", root, "the duration sequence is observed through take(1): its first element *or* its completion expires the group",
           len(tk) == 1 and [u(a) for a in tk[0].args] == ["1"],
           "the duration sequence is not cut with take(1): a duration that completes without an element does not expire the group (or fails it)")
    # every subscription to a group takes a reference on the shared source, unconditionally (as long as a ref-count was given)
    rep.rule("G6-group-subscription-counted", "GroupedObservable: each subscription holds merged_disposable.disposable together with the group subscription", floor=1)
    gsub = repo.fn("reactivex/observable/groupedobservable.py", "GroupedObservable.__init__.subscribe")
    gin = repo.fn("reactivex/observable/groupedobservable.py", "GroupedObservable.__init__")
    md = gin.params[3] if len(gin.params) > 3 else "merged_disposable"
    for r_ in [x for x in sites(gsub) if isinstance(x.node, ast.Return)]:
        v_ = r_.node.value
        def expand(a_):
            """a local handed to the composite stands for its (single) definition in this function"""
            if isinstance(a_, ast.Name):
                ds = [x.node.value for x in sites(gsub) if isinstance(x.node, ast.Assign) and isinstance(x.node.targets[0], ast.Name) and x.node.targets[0].id == a_.id]
                if len(ds) == 1:
                    return ds[0]
            return a_
        holds = isinstance(v_, ast.Call) and call_name(v_) == "CompositeDisposable" and any(
            any(isinstance(y, ast.Attribute) and y.attr == "disposable" and u(y.value) == md for y in ast.walk(expand(a_))) for a_ in v_.args) and any(
            any(is_subscribe_call_(y) for y in ast.walk(a_)) or isinstance(a_, ast.Name) for a_ in v_.args)
        only_md = all(all((isinstance(y, ast.Name) and y.id == md) or not isinstance(y, (ast.Name, ast.Attribute)) or u(y) == md for y in ast.walk(e_)) for e_, _p in r_.ctx.guards)
        rep.ob("G6-group-subscription-counted", gsub, f"`{short(r_.node, 70)}` holds a reference of the shared source", (holds and only_md) or
               (not holds and any((not p_ and u(e_) == md) or (p_ and u(e_) == f"{md} is None") for e_, p_ in r_.ctx.guards)),
               "a subscription to a group is returned without taking a reference on the operator's RefCountDisposable (or only under some "
               "state of it): when the other subscribers leave, the source is disposed although this group subscriber is still live")
    sl = signature(model_of(repo), root)["source#0"]
    for slot, pat, kind in (("on_error", r"^e*E$", "error"), ("on_completed", r"^c*C$", "completion")):
        v = sl[slot]
        ok = bool(TC.normal(v)) and all(re.match(pat, s) for s in TC.normal(v))
        rep.ob("G3-terminal-fan-out", root, f"source.{slot} = {v}", ok,
               f"the source's {kind} does not end every open group with a {kind} before the subscriber is told")
    gb = repo.fn(GB, "group_by_")
    calls = [n for n in gb.all_nodes() if isinstance(n, ast.Call) and call_name(n) == "group_by_until"]
    ok = len(calls) == 1 and [u(a) for a in calls[0].args][:2] == gb.params[1:3] and any(isinstance(n, ast.Call) and call_name(n) == "never" for n in gb.all_nodes())
    rep.ob("G4-delegations", gb, "group_by = group_by_until(key_mapper, element_mapper, lambda _: never(), ...)", ok, "group_by is not group_by_until with a never-ending duration")
    for name, filt in (("partition_", "filter"), ("partition_indexed_", "filter_indexed")):
        f = repo.fn(PT, name)
        pred = f.params[1]
        neg = [g for g in f.children if g.is_func and any(isinstance(s.node, ast.Return) and isinstance(s.node.value, ast.UnaryOp)
                                                          and isinstance(s.node.value.op, ast.Not) and isinstance(s.node.value.operand, ast.Call)
                                                          and u(s.node.value.operand.func) == pred
                                                          and [u(a) for a in s.node.value.operand.args] == g.positional_params for s in sites(g))]
        rep.ob("G4-delegations", f, f"{name}: negation wrapper returns `not {pred}(same arguments)`", len(neg) == 1,
               f"the second output of {name} is not filtered by the logical negation of the predicate: an element can reach both or neither output")
        fl = [n for n in f.all_nodes() if isinstance(n, ast.Call) and call_name(n) == filt]
        args = sorted(u(n.args[0]) for n in fl if n.args)
        ok = len(fl) == 2 and neg and args == sorted([pred, neg[0].name])
        pubs = [n for n in f.all_nodes() if isinstance(n, ast.Call) and call_name(n) in ("publish", "share")]
        shared = all(isinstance(n, ast.Call) for n in fl) and len({u(x.func.value) for x in f.all_nodes() if isinstance(x, ast.Call) and isinstance(x.func, ast.Attribute)
                                                                    and x.func.attr == "pipe" and any(a in fl for a in x.args)}) == 1
        rep.ob("G4-delegations", f, f"{name}: both outputs filter one shared published source", bool(ok) and bool(pubs) and shared,
               f"{name}: the two outputs are not the predicate / negated-predicate filters of one shared source")
