"""C20 — a Subject broadcasts to exactly the observers subscribed at the time (S2)."""
from __future__ import annotations

import ast

from ..astutil import call_name, dotted, short, u
from ..core import Report
from ..ctx import paths, sites
from ..frontend import Repo
from ..rules import has_guard
from . import subjects_common as SC

S = SC.SUBJ


def check(repo: Repo, rep: Report) -> None:
    rep.explanation = (
        "The quantifier is call histories on one thread, including calls made from inside a callback, so the hazard is "
        "re-entrancy. Decided: delivery iterates a snapshot of the observer list taken under the lock; terminal cores clear "
        "the list and record the exception before any observer is called; _subscribe_core checks disposal first, registers "
        "and returns a removing InnerSubscription on the live branch, replays exactly the terminal notification (error if "
        "recorded, else completion) and returns an inert disposable on the stopped branch; public on_* call "
        "check_disposed first and deliver through the guarded base entry points (C01-R5); dispose marks disposed / drops "
        "observers / stops; InnerSubscription.dispose removes exactly its own observer, once; registration is append-only "
        "so delivery order is subscription order.")
    rep.assumptions += ["is_stopped is set by Observer.on_error/on_completed before the core runs (decided under C01)"]
    SC.rules(rep, {"B1-snapshot": 3, "B2-state-before-callout": 3, "B3-subscribe-branches": 2, "B4-check-disposed": 3, "B5-dispose": 1})
    # state fields are read under the lock only; fan-outs deliver parameters / locked snapshots
    _cls = repo.fn("reactivex/subject/subject.py", "Subject")
    SC.rule_locked_reads(rep, _cls)
    for _mn in ("_on_next_core", "_on_error_core", "_on_completed_core"):
        _m = _cls.child(_mn) or repo.fn("reactivex/subject/subject.py", "Subject").child(_mn)
        if _m is not None:
            SC.rule_delivery_argument(rep, _m)
    rep.rule("B6-inner-subscription", "InnerSubscription.dispose removes exactly its observer, idempotently; registration is append-only", floor=3)
    rep.rule("B7-element-keeps-subscription", "the observer wrappers' on_next never stops or detaches the observer (exception paths included)", floor=2)
    from .common_own import rule_element_not_terminal
    rule_element_not_terminal(repo, rep, "B7-element-keeps-subscription")
    cls = repo.fn(S, "Subject")
    for core in ("_on_next_core", "_on_error_core", "_on_completed_core"):
        SC.rule_snapshot(rep, repo.fn(S, f"Subject.{core}"))
    SC.rule_state_before_callout(rep, repo.fn(S, "Subject._on_error_core"), True, True)
    SC.rule_state_before_callout(rep, repo.fn(S, "Subject._on_completed_core"), True, False)
    # B3
    sub = repo.fn(S, "Subject._subscribe_core")
    obs = sub.params[1]
    n = 0
    for p in SC.subscribe_paths(sub, obs):
        if p.exc or p.end == "raise":
            continue
        n += 1
        k = [e.split(":")[0] for e in p.kinds]
        stopped = p.decided("self.is_stopped")
        desc = f"path[{' ; '.join(f'{t}={v}' for t, v in p.decisions)}] events={p.kinds} returns {SC.ret_kind(p)}"
        ok = bool(k) and k[0] == "CHECK"
        if stopped is False:
            ok = ok and k == ["CHECK", "APPEND"] and SC.ret_kind(p) == "InnerSubscription" \
                and [u(a) for a in p.ret.args] == ["self", obs]
        elif stopped is True:
            exc = SC.decided_field(sub, p, "exception")
            want = ["ERR:self.exception"] if exc else ["COMPL:"]
            ok = ok and p.kinds[1:] == want and "APPEND" not in k and SC.ret_kind(p) == "Disposable" and not p.ret.args
        else:
            ok = False
        rep.ob("B3-subscribe-branches", sub, desc, ok,
               "a path through Subject._subscribe_core does not (check disposal first and then) either register the observer "
               "and return its InnerSubscription, or replay exactly the recorded terminal notification and return an inert "
               "disposable")
    rep.require(n >= 2, "paths of Subject._subscribe_core")
    term = {e.split(":")[0] for p in SC.subscribe_paths(sub, obs) if not p.exc and p.decided("self.is_stopped") for e in p.kinds}
    rep.ob("B3-subscribe-branches", sub, "stopped branch can replay an error and a completion", {"ERR", "COMPL"} <= term,
           "a subscriber arriving after termination is never told about the recorded error (or never about completion)")
    SC.rule_public_entry(rep, cls)
    SC.rule_dispose(rep, cls)
    SC.rule_subscribe_atomic(rep, cls)
    SC.rule_exception_identity(rep, repo.fn(S, "Subject._subscribe_core"))
    # B6
    inner = repo.fn(SC.INNER, "InnerSubscription.dispose")
    rem = [s for s in sites(inner) if isinstance(s.node, ast.Call) and dotted(s.node.func) == "self.subject.observers.remove"]
    from ..rules import expanded_guards
    rg = expanded_guards(inner, rem[0].ctx) if rem else []
    ok = len(rem) == 1 and u(rem[0].node.args[0]) == "self.observer" and any(u(e) == "self.observer" and p for e, p in rg) \
        and any(u(e) == "self.observer in self.subject.observers" and p for e, p in rg)
    # the only other condition allowed on the removal is "the subject has not been disposed" (its list is gone then)
    extra = [(u(e), p) for e, p in rg if u(e) not in ("self.observer", "self.observer in self.subject.observers")]
    ok = ok and all(t == "self.subject.is_disposed" and not p for t, p in extra)
    rep.ob("B6-inner-subscription", inner, "remove(self.observer) if present and still set", ok,
           "InnerSubscription.dispose does not remove exactly its own observer (guarded by presence): unsubscribing removes "
           "someone else, raises, or does nothing")
    clr = [s for s in sites(inner) if isinstance(s.node, ast.Assign) and any(u(t) == "self.observer" for t in s.node.targets)
           and isinstance(s.node.value, ast.Constant) and s.node.value.value is None]
    rep.ob("B6-inner-subscription", inner, "self.observer = None (idempotent)", bool(clr),
           "a second dispose() of the subscription would remove a re-subscribed observer again")
    for m in cls.children:
        if m.is_func:
            for s in sites(m):
                if isinstance(s.node, ast.Call) and isinstance(s.node.func, ast.Attribute) and dotted(s.node.func.value) == "self.observers" \
                        and s.node.func.attr in ("insert", "appendleft", "extend", "sort", "reverse"):
                    rep.ob("B6-inner-subscription", m, short(s.node), False, "observers are not registered append-only: delivery order is not subscription order")
    rep.ob("B6-inner-subscription", cls, "registration is append-only", True)
