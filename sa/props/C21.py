"""C21 — a BehaviorSubject hands its current value to every new subscriber (S2)."""
from __future__ import annotations

import ast

from ..astutil import dotted, short, u
from ..core import Report
from ..ctx import sites
from ..frontend import Repo
from . import subjects_common as SC

B = "reactivex/subject/behaviorsubject.py"


def check(repo: Repo, rep: Report) -> None:
    rep.explanation = (
        "BehaviorSubject structure: on the live branch of _subscribe_core the observer is registered and sent "
        "`self.value` before the method returns (so before any later notification can reach it), on every path of that "
        "branch; the stopped branch replays only the terminal notification (no value); _on_next_core stores the new "
        "value under the lock before the delivery loop and iterates a snapshot; the initial value is stored by __init__; "
        "dispose chains to Subject.dispose. `value` is never truth-tested (C08).")
    rep.assumptions += ["Subject's own rules (C20) hold for the inherited methods"]
    SC.rules(rep, {"B1-snapshot": 1, "B2-state-before-callout": 1, "B3-subscribe-branches": 3, "B5-dispose": 1})
    # state fields are read under the lock only; fan-outs deliver parameters / locked snapshots
    _cls = repo.fn("reactivex/subject/behaviorsubject.py", "BehaviorSubject")
    SC.rule_locked_reads(rep, _cls)
    for _mn in ("_on_next_core", "_on_error_core", "_on_completed_core"):
        _m = _cls.child(_mn) or repo.fn("reactivex/subject/subject.py", "Subject").child(_mn)
        if _m is not None:
            SC.rule_delivery_argument(rep, _m)
    rep.rule("V1-current-value", "new subscribers get self.value first; the value field is written by __init__ and _on_next_core only", floor=3)
    cls = repo.fn(B, "BehaviorSubject")
    sub = repo.fn(B, "BehaviorSubject._subscribe_core")
    obs = sub.params[1]
    n = 0
    for p in SC.subscribe_paths(sub, obs):
        if p.exc or p.end == "raise":
            continue
        n += 1
        k = [e.split(":")[0] for e in p.kinds]
        stopped = p.decided("self.is_stopped")
        desc = f"path[{' ; '.join(f'{t}={v}' for t, v in p.decisions)}] events={p.kinds} returns {SC.ret_kind(p)}"
        ok = bool(k) and k[0] == "CHECK"
        if stopped is False:
            ok = ok and p.kinds == ["CHECK", "APPEND", "NEXT:self.value"] and SC.ret_kind(p) == "InnerSubscription"
        elif stopped is True:
            ex = SC.decided_field(sub, p, "exception")
            want = ["ERR:self.exception"] if ex else ["COMPL:"]
            ok = ok and p.kinds[1:] == want and SC.ret_kind(p) == "Disposable"
        else:
            ok = False
        rep.ob("B3-subscribe-branches", sub, desc, ok,
               "a path through BehaviorSubject._subscribe_core does not register the observer and hand it the current value "
               "(live subject), or replay only the terminal notification (stopped subject)")
    rep.require(n >= 2, "paths of BehaviorSubject._subscribe_core")
    term = {e.split(":")[0] for p in SC.subscribe_paths(sub, obs) if not p.exc and p.decided("self.is_stopped") for e in p.kinds}
    rep.ob("B3-subscribe-branches", sub, "stopped branch can replay an error and a completion", {"ERR", "COMPL"} <= term,
           "a subscriber arriving after termination is never told about the recorded error (or never about completion)")
    core = repo.fn(B, "BehaviorSubject._on_next_core")
    SC.rule_snapshot(rep, core)
    SC.rule_state_before_callout(rep, core, False, False, need_value="value")
    init = repo.fn(B, "BehaviorSubject.__init__")
    ok = any(isinstance(s.node, (ast.Assign, ast.AnnAssign)) and u(s.node.targets[0] if isinstance(s.node, ast.Assign) else s.node.target) == "self.value"
             and u(s.node.value) == init.params[1] for s in sites(init))
    rep.ob("V1-current-value", init, "self.value = <initial value>", ok, "the initial value is not stored")
    for m in cls.children:
        if not m.is_func:
            continue
        for s in sites(m):
            n_ = s.node
            if isinstance(n_, (ast.Assign, ast.AnnAssign)) and u(n_.targets[0] if isinstance(n_, ast.Assign) else n_.target) == "self.value":
                rep.ob("V1-current-value", m, f"{m.name}: {short(n_)}", m.name in ("__init__", "_on_next_core", "dispose"),
                       f"`self.value` is written in {m.name}: the current value no longer is 'the last on_next value or the initial value'")
    SC.rule_dispose(rep, cls)
    SC.rule_subscribe_atomic(rep, cls)
    SC.rule_exception_identity(rep, repo.fn(B, "BehaviorSubject._subscribe_core"))
    # error / completion cores are inherited (no override that could deliver a value)
    for name in ("_on_error_core", "_on_completed_core", "on_next", "on_error", "on_completed"):
        rep.ob("V1-current-value", cls, f"{name} inherited from Subject", cls.child(name) is None,
               f"BehaviorSubject overrides {name}: it no longer 'otherwise behaves like a Subject' (not analysed here)")
