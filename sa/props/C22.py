"""C22 — a ReplaySubject replays exactly its retained values, in order (S2/S1)."""
from __future__ import annotations

import ast
from typing import Optional

from ..astutil import call_name, compare_norm, dotted, short, u
from ..core import Report
from ..ctx import paths, sites, dominates
from ..frontend import Repo
from . import subjects_common as SC

R = "reactivex/subject/replaysubject.py"


def check(repo: Repo, rep: Report) -> None:
    from .attr_roles import roles as _roles
    WIN = _roles(repo, R, "ReplaySubject").by_param("window")      # the attribute holding the replay time window
    rep.explanation = (
        "ReplaySubject structure: in _subscribe_core, under one lock region and in this order — check_disposed, _trim(now), "
        "register the ScheduledObserver, replay `for item in self.queue` (front to back) through it, then the terminal "
        "replay (error if recorded, else completion if stopped); ensure_active() follows the region and the returned "
        "RemovableDisposable removes exactly this observer. The three cores append / trim the buffer under the lock "
        "before delivering to a snapshot and activate every observer afterwards. Trimming drops from the front while "
        "len > buffer_size and while age > window (retention is inclusive at equality); `buffer_size is None` / "
        "`window is None` are identity tests (not truthiness, so 0 is a real bound). The ScheduledObserver handshake "
        "is C32's subject. Exact retained contents are not decided.")
    SC.rules(rep, {"B1-snapshot": 3, "B2-state-before-callout": 3, "B3-subscribe-branches": 2, "B5-dispose": 1})
    # state fields are read under the lock only; fan-outs deliver parameters / locked snapshots
    _cls = repo.fn("reactivex/subject/replaysubject.py", "ReplaySubject")
    SC.rule_locked_reads(rep, _cls)
    for _mn in ("_on_next_core", "_on_error_core", "_on_completed_core"):
        _m = _cls.child(_mn) or repo.fn("reactivex/subject/subject.py", "Subject").child(_mn)
        if _m is not None:
            SC.rule_delivery_argument(rep, _m)
    rep.rule("RP1-subscribe-order", "trim -> register -> replay queue in order -> terminal replay, in one locked region; activate after", floor=3)
    rep.rule("RP2-buffer-before-delivery", "cores append / trim the buffer under the lock before delivering, then activate", floor=4)
    rep.rule("RP3-trim-bounds", "trim drops from the front iff len > buffer_size / age > window; None tests are identity tests", floor=4)
    cls = repo.fn(R, "ReplaySubject")
    sub = repo.fn(R, "ReplaySubject._subscribe_core")
    so_defs = [s for s in sites(sub) if isinstance(s.node, ast.Assign) and isinstance(s.node.value, ast.Call)
               and call_name(s.node.value) == "ScheduledObserver" and isinstance(s.node.targets[0], ast.Name)]
    rep.require(len(so_defs) == 1, "ScheduledObserver wrapper in ReplaySubject._subscribe_core")
    SO = u(so_defs[0].node.targets[0])
    loop_vars = {u(s.node.target) for s in sites(sub) if isinstance(s.node, ast.For) and u(s.node.iter) == "self.queue"}
    ITEM = next(iter(loop_vars), "item")
    sub_defs = [u(s.node.targets[0]) for s in sites(sub) if isinstance(s.node, ast.Assign) and isinstance(s.node.value, ast.Call)
                and call_name(s.node.value) == "RemovableDisposable"]

    def ev(n: ast.AST) -> Optional[str]:
        if isinstance(n, ast.Call):
            d = dotted(n.func)
            if d == "self.check_disposed":
                return "CHECK"
            if d == "self._trim":
                return "TRIM"
            if d == "self.observers.append":
                return "APPEND:" + ("SO" if u(n.args[0]) == SO else u(n.args[0]))
            if d == f"{SO}.on_next":
                return "NEXT:" + u(n.args[0]).replace(ITEM + ".", "item.")
            if d == f"{SO}.on_error":
                return "ERR:" + u(n.args[0])
            if d == f"{SO}.on_completed":
                return "COMPL"
            if d == f"{SO}.ensure_active":
                return "ACTIVATE"
        if isinstance(n, ast.For):
            return "LOOP:" + u(n.iter)
        return None
    n = 0
    for p in paths(sub, ev):
        if p.exc or p.end == "raise":
            continue
        n += 1
        k = [e for e in p.kinds]
        base = [x.split(":")[0] for x in k]
        desc = f"path[{' ; '.join(f'{t}={v}' for t, v in p.decisions)}] events={k}"
        want_prefix = ["CHECK", "TRIM", "APPEND"]
        ok = base[:3] == want_prefix and k[2] == "APPEND:SO"
        rest = [x for x in k[3:]]
        # optional replay loop (0 or 1 iteration in the path model), then terminal, then ACTIVATE
        loop_ok = True
        i = 0
        while i < len(rest) and rest[i].startswith("NEXT"):
            loop_ok = loop_ok and rest[i] == "NEXT:item.value"
            i += 1
        term = rest[i:]
        exc = p.decided("self.exception is not None")
        stopped = p.decided("self.is_stopped")
        if exc:
            want = ["ERR:self.exception", "ACTIVATE"]
        elif stopped:
            want = ["COMPL", "ACTIVATE"]
        else:
            want = ["ACTIVATE"]
        ok = ok and loop_ok and term == want and SC.ret_kind(p) in ["RemovableDisposable"] + [f"var:{x}" for x in sub_defs]
        rep.ob("RP1-subscribe-order", sub, desc, ok,
               "a path through ReplaySubject._subscribe_core is not: check_disposed, trim, register, replay retained values in "
               "queue order, replay the terminal notification if any, then activate — a new subscriber would see expired "
               "values, miss values emitted during replay, or get the terminal before the values")
    rep.require(n >= 3, "paths of ReplaySubject._subscribe_core")
    loops = [s for s in sites(sub) if isinstance(s.node, ast.For)]
    ok = len(loops) == 1 and u(loops[0].node.iter) == "self.queue" and "self.lock" in loops[0].ctx.locks
    rep.ob("RP1-subscribe-order", sub, "replay iterates self.queue front to back under the lock", ok,
           "the replay does not iterate the retained queue in order under the lock (reversed / copied outside the lock)")
    inlock = [s for s in sites(sub) if isinstance(s.node, ast.Call) and dotted(s.node.func) in
              ("self.check_disposed", "self._trim", "self.observers.append", f"{SO}.on_next", f"{SO}.on_error", f"{SO}.on_completed")]
    act = [s for s in sites(sub) if isinstance(s.node, ast.Call) and dotted(s.node.func) == f"{SO}.ensure_active"]
    ok = all("self.lock" in s.ctx.locks for s in inlock) and bool(act) and all("self.lock" not in s.ctx.locks for s in act)
    rep.ob("RP1-subscribe-order", sub, "registration and replay in one locked region; activation after it", ok,
           "registration and replay are not atomic with respect to concurrent on_next (values duplicated or lost for the new subscriber)")
    so_def = [s for s in so_defs if [u(a) for a in s.node.value.args] == ["self.scheduler", sub.params[1]]]
    rep.ob("RP1-subscribe-order", sub, "so = ScheduledObserver(self.scheduler, observer)", bool(so_def),
           "the subscriber is not wrapped in a ScheduledObserver on the subject's scheduler")
    # cores
    for core, extra in (("_on_next_core", "APPENDQ"), ("_on_error_core", None), ("_on_completed_core", None)):
        m = repo.fn(R, f"ReplaySubject.{core}")
        SC.rule_snapshot(rep, m)
        if core != "_on_next_core":
            SC.rule_state_before_callout(rep, m, True, core == "_on_error_core")
        loops_ = SC.delivery_loops(m)
        if not loops_:
            rep.ob("RP2-buffer-before-delivery", m, f"{core}: delivers to a snapshot of the observers", False,
                   f"ReplaySubject.{core} has no delivery loop of its own: enqueueing on every observer before any of them is activated (and the "
                   f"buffer update before both) can no longer be established for it")
            continue
        first = min((s for s, *_ in loops_), key=lambda s: s.index)
        trims = [s for s in sites(m) if isinstance(s.node, ast.Call) and dotted(s.node.func) == "self._trim"]
        ok = bool(trims) and all("self.lock" in s.ctx.locks and dominates(s, first) for s in trims)
        if core == "_on_next_core":
            apps = [s for s in sites(m) if isinstance(s.node, ast.Call) and dotted(s.node.func) == "self.queue.append"]
            ok = ok and len(apps) == 1 and "self.lock" in apps[0].ctx.locks and dominates(apps[0], first) \
                and apps[0].index < trims[0].index and m.params[1] in u(apps[0].node)
        rep.ob("RP2-buffer-before-delivery", m, f"{core}: buffer updated (append, trim) under the lock before delivery", ok,
               f"{core} does not update the replay buffer under the lock before calling the observers: a subscriber arriving "
               f"during delivery would miss or duplicate the value")
        acts = [x for x in ast.walk(m.node) if isinstance(x, ast.Call) and isinstance(x.func, ast.Attribute) and x.func.attr == "ensure_active"]
        rep.ob("RP2-buffer-before-delivery", m, f"{core}: observers activated after enqueueing", bool(acts),
               f"{core} never activates the scheduled observers: queued notifications stay undelivered")
    # trim
    tr = repo.fn(R, "ReplaySubject._trim")
    whiles = [s for s in sites(tr) if isinstance(s.node, ast.While)]
    allpops = [x for x in sites(tr) if isinstance(x.node, ast.Call) and dotted(x.node.func) in ("self.queue.popleft", "self.queue.pop")]
    okp = bool(allpops) and all(any(isinstance(l_, ast.While) for l_ in x.ctx.loops) for x in allpops)
    rep.ob("RP3-trim-bounds", tr, f"_trim: every drop ({len(allpops)}) re-tests the head of the buffer (it is inside a `while`)", okp,
           "_trim drops a pre-computed number of values instead of re-testing the head before each drop: a value that is both too old and over "
           "the count is counted twice, and values that must be retained are removed")
    tests_ = " ; ".join(u(w.node.test) for w in whiles)
    rep.ob("RP3-trim-bounds", tr, "_trim enforces both bounds (count and age)", "buffer_size" in tests_ and "interval" in tests_,
           "_trim no longer enforces the count bound and the age bound")
    for w in whiles:
        t = w.node.test
        pops = [x for x in ast.walk(w.node) if isinstance(x, ast.Call) and dotted(x.func) == "self.queue.popleft"]
        txt = u(t)
        if "buffer_size" in txt:
            r = compare_norm(t, lambda e: u(e) == "len(self.queue)")
            ok = r is not None and r[0] == ">" and u(r[1]) == "self.buffer_size" and len(pops) == 1
            rep.ob("RP3-trim-bounds", tr, f"while {txt}", ok,
                   "count trimming does not drop from the front exactly while more than buffer_size values are retained")
        else:
            atoms_ = t.values if isinstance(t, ast.BoolOp) and isinstance(t.op, ast.And) else [t]
            ok = False
            for a in atoms_:
                r = compare_norm(a, lambda e: "interval" in u(e) and "now" in u(e))
                if r and r[0] == ">" and u(r[1]) == f"self.{WIN}":
                    ok = True
            nonempty = any(u(a) == "self.queue" for a in atoms_)
            rep.ob("RP3-trim-bounds", tr, f"while {txt}", ok and nonempty and len(pops) == 1,
                   "time trimming does not drop from the front exactly while the oldest value is older than the window "
                   "(a value whose age equals the window must be retained)")
    init = repo.fn(R, "ReplaySubject.__init__")
    for fld, param in (("buffer_size", "buffer_size"), (WIN, "window")):
        from ..rules import conditional_defs
        from ..astutil import compare_parts as _cp
        ok = False
        for s_, v_, facts in conditional_defs(init, lambda t_: u(t_) == f"self.{fld}"):
            for e_, p_ in facts:
                c_ = _cp(e_)
                if c_ and c_[0] == param and c_[2] == "None" and c_[1] in ("is", "is not"):
                    ok = True
        rep.ob("RP3-trim-bounds", init, f"self.{fld} defaulted by `{param} is None`", ok,
               f"`{param}` is defaulted by truthiness: buffer_size=0 / window=0 would mean 'unbounded'")
    SC.rule_dispose(rep, cls)
    SC.rule_subscribe_atomic(rep, cls)
    rd = repo.fn(R, "RemovableDisposable.dispose")
    rem = [s for s in sites(rd) if isinstance(s.node, ast.Call) and dotted(s.node.func) == "self.subject.observers.remove"]
    ok = len(rem) == 1 and u(rem[0].node.args[0]) == "self.observer" and any(
        "self.observer in self.subject.observers" in u(e) and p for e, p in rem[0].ctx.guards)
    stop = any(isinstance(s.node, ast.Call) and dotted(s.node.func) == "self.observer.dispose" for s in sites(rd))
    rep.ob("B3-subscribe-branches", rd, "RemovableDisposable: stop the scheduled observer and remove exactly it", ok and stop,
           "unsubscribing does not stop and remove exactly this subscriber's scheduled observer")
    rep.ob("B3-subscribe-branches", sub, "returns RemovableDisposable(self, so)", any(
        isinstance(s.node, ast.Assign) and isinstance(s.node.value, ast.Call) and call_name(s.node.value) == "RemovableDisposable"
        and [u(a) for a in s.node.value.args] == ["self", SO] for s in sites(sub)),
        "the returned subscription is not tied to this subscriber's scheduled observer")
