"""C23 — an AsyncSubject delivers only the final value (S2)."""
from __future__ import annotations

import ast

from ..astutil import dotted, short, u
from ..core import Report
from ..ctx import paths, sites
from ..frontend import Repo
from . import subjects_common as SC

A = "reactivex/subject/asyncsubject.py"


def check(repo: Repo, rep: Report) -> None:
    rep.explanation = (
        "AsyncSubject structure: _on_next_core only stores (value, has_value) under the lock and makes no delivery call; "
        "_on_completed_core reads value/has_value into locals and clears the list under the lock before the loops, then "
        "every observer gets the value iff has_value (a flag — never the value's truthiness, C08) followed by completion; "
        "the late-subscriber branch of _subscribe_core does the same from the stored fields, the error branch delivers "
        "only the error; the error core is Subject's (no value).")
    SC.rules(rep, {"B1-snapshot": 2, "B2-state-before-callout": 1, "B3-subscribe-branches": 4, "B5-dispose": 1})
    # state fields are read under the lock only; fan-outs deliver parameters / locked snapshots
    _cls = repo.fn("reactivex/subject/asyncsubject.py", "AsyncSubject")
    SC.rule_locked_reads(rep, _cls)
    for _mn in ("_on_next_core", "_on_error_core", "_on_completed_core"):
        _m = _cls.child(_mn) or repo.fn("reactivex/subject/subject.py", "Subject").child(_mn)
        if _m is not None:
            SC.rule_delivery_argument(rep, _m)
    rep.rule("A1-nothing-before-termination", "_on_next_core delivers nothing and stores value + has_value", floor=2)
    rep.rule("A2-final-value", "completion delivers value iff has_value, then on_completed, to every observer", floor=3)
    cls = repo.fn(A, "AsyncSubject")
    nx = repo.fn(A, "AsyncSubject._on_next_core")
    deliveries = [s for s in sites(nx) if isinstance(s.node, ast.Call) and isinstance(s.node.func, ast.Attribute)
                  and s.node.func.attr in SC.KINDS]
    rep.ob("A1-nothing-before-termination", nx, "no delivery in _on_next_core", not deliveries,
           f"AsyncSubject delivers before termination: {[short(d.node) for d in deliveries]}")
    p = nx.params[1]
    st_v = [s for s in sites(nx) if isinstance(s.node, ast.Assign) and any(u(t) == "self.value" for t in s.node.targets) and u(s.node.value) == p]
    st_f = [s for s in sites(nx) if isinstance(s.node, ast.Assign) and any(u(t) == "self.has_value" for t in s.node.targets)
            and isinstance(s.node.value, ast.Constant) and s.node.value.value is True]
    ok = bool(st_v) and bool(st_f) and all("self.lock" in s.ctx.locks and not s.ctx.branch for s in st_v + st_f)
    rep.ob("A1-nothing-before-termination", nx, "value and has_value stored under the lock", ok,
           "the last value / its presence flag is not stored unconditionally under the lock")
    # completion core
    cc = repo.fn(A, "AsyncSubject._on_completed_core")
    SC.rule_snapshot(rep, cc)
    SC.rule_state_before_callout(rep, cc, True, False)
    loops = SC.delivery_loops(cc)
    rep.require(loops, "delivery loops in AsyncSubject._on_completed_core")
    flag_locals = {u(s.node.targets[0]) for s in sites(cc) if isinstance(s.node, ast.Assign) and u(s.node.value) == "self.has_value"
                   and "self.lock" in s.ctx.locks}
    val_locals = {u(s.node.targets[0]) for s in sites(cc) if isinstance(s.node, ast.Assign) and u(s.node.value) == "self.value"
                  and "self.lock" in s.ctx.locks}
    for s, it, var, calls in loops:
        kinds = [c.func.attr for c in calls]
        with_flag = any(u(e) in flag_locals and pol for e, pol in s.ctx.guards)
        without = any(u(e) in flag_locals and not pol for e, pol in s.ctx.guards)
        if with_flag:
            ok = kinds == ["on_next", "on_completed"] and u(calls[0].args[0]) in val_locals
        elif without:
            ok = kinds == ["on_completed"]
        else:
            ok = False
        rep.ob("A2-final-value", cc, f"loop under {'has_value' if with_flag else 'not has_value' if without else '?'}: {kinds}", ok,
               "on completion an observer does not get (the last value iff one was received, decided by the has_value flag "
               "read under the lock) followed by on_completed")
    # late subscriber
    sub = repo.fn(A, "AsyncSubject._subscribe_core")
    obs = sub.params[1]
    n = 0
    for pth in SC.subscribe_paths(sub, obs):
        if pth.exc or pth.end == "raise":
            continue
        n += 1
        k = pth.kinds
        stopped = pth.decided("self.is_stopped")
        desc = f"path[{' ; '.join(f'{t}={v}' for t, v in pth.decisions)}] events={k} returns {SC.ret_kind(pth)}"
        ok = bool(k) and k[0] == "CHECK"
        if stopped is False:
            ok = ok and k == ["CHECK", "APPEND"] and SC.ret_kind(pth) == "InnerSubscription"
        elif stopped is True:
            ex = SC.decided_field(sub, pth, "exception")
            hv = SC.decided_field(sub, pth, "has_value")
            if ex:
                want = ["ERR:self.exception"]
            elif hv:
                want = ["NEXT:self.value", "COMPL:"]
            else:
                want = ["COMPL:"]
            ok = ok and k[1:] == want and SC.ret_kind(pth) == "Disposable"
        else:
            ok = False
        rep.ob("B3-subscribe-branches", sub, desc, ok,
               "a late / live subscriber path of AsyncSubject._subscribe_core does not follow: live -> register; error -> only "
               "the error; completed -> value iff has_value, then completion")
    rep.require(n >= 4, "paths of AsyncSubject._subscribe_core")
    caps = [s for s in sites(sub) if isinstance(s.node, ast.Assign) and u(s.node.value) in ("self.has_value", "self.value", "self.exception")]
    rep.ob("A2-final-value", sub, "stored fields read under the lock", len(caps) == 3 and all("self.lock" in s.ctx.locks for s in caps),
           "the late-subscriber branch does not snapshot exception / has_value / value under the lock")
    rep.ob("A2-final-value", cls, "_on_error_core inherited from Subject (error delivers no value)", cls.child("_on_error_core") is None,
           "AsyncSubject overrides _on_error_core (not analysed): the error path may deliver a value")
    SC.rule_dispose(rep, cls)
    SC.rule_subscribe_atomic(rep, cls)
    SC.rule_exception_identity(rep, repo.fn(A, "AsyncSubject._subscribe_core"))
