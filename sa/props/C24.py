"""C24 — multicasting shares one source subscription per connection (S1)."""
from __future__ import annotations

import ast

from ..astutil import call_name, dotted, short, u
from ..core import Report
from ..ctx import sites, dominates
from ..frontend import Repo
from ..model import resolve_callable
from ..rules import has_guard

CO = "reactivex/observable/connectableobservable.py"
RC = "reactivex/operators/connectable/_refcount.py"
PB = "reactivex/operators/_publish.py"
RP = "reactivex/operators/_replay.py"
PV = "reactivex/operators/_publishvalue.py"
MC = "reactivex/operators/_multicast.py"


def check(repo: Repo, rep: Report) -> None:
    rep.explanation = (
        "Structural clauses of multicasting. ConnectableObservable.connect: the source subscription is dominated by `not "
        "has_subscription`, the flag is set before subscribing (a re-entrant connect from a synchronous source does not "
        "subscribe twice), the subject is what is subscribed to the source, the returned composite holds the source "
        "subscription and a disposable that resets the flag; subscribers are subscribed to the subject. ref_count_: "
        "disconnect edge only — disposing the connection is dominated by the subscriber counter being zero after a "
        "decrement on the same dispose path, on which the subscriber's own subscription is disposed too; the subscribe "
        "path increments the counter and contains a connect call (count == 1 vs >= 1 is deliberately not constrained: "
        "connect is idempotent). auto_connect(n): connect dominated by a comparison of the incremented counter with n, "
        "n == 0 connects at build time. publish / share / replay / publish_value are multicast with the subject kind of "
        "their name (mapper forms through a subject factory). Delivery contents are not decided; per-application state is C44.")
    rep.rule("N1-connect", "connect(): guarded, flag-before-subscribe, subject subscribed, both parts held", floor=5)
    rep.rule("N2-ref-count", "ref_count: counter / disconnect discipline", floor=5)
    rep.rule("N3-auto-connect", "auto_connect: connect at the n-th subscriber; n == 0 connects immediately", floor=3)
    rep.rule("N4-delegation", "publish / share / replay / publish_value / multicast delegations", floor=7)
    con = repo.fn(CO, "ConnectableObservable.connect")
    subs = [s for s in sites(con) if isinstance(s.node, ast.Call) and dotted(s.node.func) == "self.source.subscribe"]
    rep.require(len(subs) == 1, "source subscription in connect")
    s0 = subs[0]
    rep.ob("N1-connect", con, "source.subscribe dominated by `not has_subscription`", has_guard(s0.ctx, "self.has_subscription", False),
           "connect() subscribes the source even when already connected: a second connect() subscribes the source twice")
    sets = [s for s in sites(con) if isinstance(s.node, ast.Assign) and u(s.node.targets[0]) == "self.has_subscription" and u(s.node.value) == "True"]
    rep.ob("N1-connect", con, "has_subscription = True before subscribing", bool(sets) and all(dominates(x, s0) for x in sets),
           "the connected flag is set after subscribing: a connect() issued re-entrantly by a synchronous source subscribes it again")
    rep.ob("N1-connect", con, "the subject is subscribed to the source", bool(s0.node.args) and u(s0.node.args[0]) == "self.subject",
           "something other than the shared subject is subscribed to the source")
    sub_var = u(s0.stmt.targets[0]) if isinstance(s0.stmt, ast.Assign) else None
    comp = [s for s in sites(con) if isinstance(s.node, ast.Assign) and u(s.node.targets[0]) == "self.subscription"
            and isinstance(s.node.value, ast.Call) and call_name(s.node.value) == "CompositeDisposable"]
    ok = False
    if comp and sub_var:
        args = comp[0].node.value.args
        has_sub = any(u(a) == sub_var for a in args)
        resets = False
        for a in args:
            if isinstance(a, ast.Call) and call_name(a) == "Disposable" and a.args:
                t = resolve_callable(con, a.args[0])
                if t.kind == "fn":
                    resets = any(isinstance(x.node, ast.Assign) and u(x.node.targets[0]) == "self.has_subscription" and u(x.node.value) == "False"
                                 for x in sites(t.fn))
        ok = has_sub and resets
    rep.ob("N1-connect", con, "connection = Composite(source subscription, Disposable(reset flag))", ok,
           "disposing the connection does not release the source subscription and reset the connected flag (reconnect impossible / leak)")
    rets = [s for s in sites(con) if isinstance(s.node, ast.Return)]
    rep.ob("N1-connect", con, "connect returns the connection", bool(rets) and all(u(r.node.value) == "self.subscription" for r in rets),
           "connect() does not return the connection disposable")
    sc = repo.fn(CO, "ConnectableObservable._subscribe_core")
    ok = any(isinstance(s.node, ast.Return) and isinstance(s.node.value, ast.Call) and dotted(s.node.value.func) == "self.subject.subscribe"
             and u(s.node.value.args[0]) == sc.params[1] for s in sites(sc))
    rep.ob("N1-connect", sc, "subscribers are subscribed to the subject", ok, "subscribers are not attached to the shared subject")
    # ref_count
    rsub = repo.fn(RC, "ref_count_.ref_count.subscribe")
    rdis = repo.fn(RC, "ref_count_.ref_count.subscribe.dispose")
    # roles: counter = the cell incremented on subscribe; own subscription = the local assigned from
    # <connectable>.subscribe(observer); connection = the variable assigned from <connectable>.connect(...)
    from ..rules import cell_name, names_augmented
    def method_call(e, recv_names, attr):
        return isinstance(e, ast.Call) and isinstance(e.func, ast.Attribute) and e.func.attr == attr and dotted(e.func.value) in recv_names
    srcs = {rsub.parent.params[0]}
    cnts = names_augmented(rsub, ast.Add)
    rep.require(len(cnts) == 1, "ref_count: subscriber counter")
    cnt = cnts[0]
    inc = [s for s in sites(rsub) if isinstance(s.node, ast.AugAssign) and cell_name(s.node.target) == cnt and isinstance(s.node.op, ast.Add) and not s.ctx.branch]
    rep.ob("N2-ref-count", rsub, "count += 1 per subscription", len(inc) == 1, "the subscriber counter is not incremented exactly once per subscription")
    conn = [s for s in sites(rsub) if method_call(s.node, srcs, "connect")]
    rep.ob("N2-ref-count", rsub, "a connect call exists on the subscribe path", bool(conn), "ref_count never connects")
    conn_vars = {cell_name(s.stmt.targets[0]) for s in conn if isinstance(s.stmt, ast.Assign)}
    own = [s for s in sites(rsub) if isinstance(s.node, ast.Assign) and method_call(s.node.value, srcs, "subscribe")
           and u(s.node.value.args[0]) == rsub.params[0] and isinstance(s.node.targets[0], ast.Name)]
    rep.ob("N2-ref-count", rsub, "the subscriber is subscribed to the connectable", bool(own), "the subscriber is not subscribed to the shared source")
    def decided_before(fn, conn_sites, own_sites, counters):
        """the decision to connect (a test of the subscriber counter) is evaluated before the subscriber is subscribed:
        a subject that emits on subscribe lets another subscriber arrive (and bump the counter) inside that call"""
        if not conn_sites or not own_sites:
            return False
        first_sub = min(x.index for x in own_sites)
        for c in conn_sites:
            ok_ = False
            for e, p in c.ctx.guards:
                if not any(isinstance(x, ast.Name) and x.id in counters for x in ast.walk(e)):
                    continue
                # where was this atom evaluated?  in a local's definition, or in the if-statement itself
                ev_at = None
                for d in sites(fn):
                    if isinstance(d.node, (ast.Assign, ast.AnnAssign)) and d.node.value is not None and any(y is e for y in ast.walk(d.node.value)):
                        ev_at = d.index
                    if isinstance(d.node, (ast.If, ast.IfExp)) and any(y is e for y in ast.walk(d.node.test)):
                        ev_at = d.index
                if ev_at is not None and ev_at < first_sub:
                    ok_ = True
            if not ok_:
                return False
        return True
    rep.ob("N2-ref-count", rsub, "the connect decision (counter test) is taken before the subscriber is subscribed",
           decided_before(rsub, conn, own, {cnt}),
           "ref_count tests its subscriber counter only after subscribing the observer: a subject that emits during subscribe "
           "(publish_value, replay) lets a second subscriber arrive inside that call -- the counter is then already 2 for both and "
           "nobody connects")
    own_vars = {s.node.targets[0].id for s in own}
    dec = [s for s in sites(rdis) if isinstance(s.node, ast.AugAssign) and cell_name(s.node.target) == cnt and isinstance(s.node.op, ast.Sub) and not s.ctx.branch]
    dcon = [s for s in sites(rdis) if isinstance(s.node, ast.Call) and isinstance(s.node.func, ast.Attribute) and s.node.func.attr == "dispose"
            and cell_name(s.node.func.value) in conn_vars]
    def zero(e, p_):
        if cell_name(e) == cnt and isinstance(e, (ast.Name, ast.Subscript)):
            return not p_
        if isinstance(e, ast.Compare) and len(e.ops) == 1:
            l, r = e.left, e.comparators[0]
            if isinstance(l, ast.Constant):
                l, r = r, l
            if cell_name(l) == cnt and isinstance(r, ast.Constant) and r.value == 0:
                return (p_ and isinstance(e.ops[0], (ast.Eq, ast.LtE))) or ((not p_) and isinstance(e.ops[0], (ast.NotEq, ast.Gt)))
        return False
    ok = len(dec) == 1 and len(dcon) == 1 and dominates(dec[0], dcon[0]) and any(zero(e, p_) for e, p_ in dcon[0].ctx.guards)
    rep.ob("N2-ref-count", rdis, "disconnect only when the decremented counter is zero", ok,
           "the connection is disposed while other subscribers remain (or never): ref_count disconnects at the wrong time")
    dsub = [s for s in sites(rdis) if isinstance(s.node, ast.Call) and isinstance(s.node.func, ast.Attribute) and s.node.func.attr == "dispose"
            and dotted(s.node.func.value) in own_vars and not s.ctx.branch]
    rep.ob("N2-ref-count", rdis, "the subscriber's own subscription is disposed", bool(dsub), "unsubscribing does not detach the subscriber from the subject")
    rep.ob("N2-ref-count", rsub, "returns Disposable(dispose)", any(isinstance(s.node, ast.Return) and u(s.node.value) == "Disposable(dispose)" for s in sites(rsub)),
           "the per-subscriber disposable is not returned")
    # auto_connect
    ac = repo.fn(CO, "ConnectableObservable.auto_connect")
    asub = repo.fn(CO, "ConnectableObservable.auto_connect.subscribe")
    selfs = {"self"} | {t.id for s in sites(ac) if isinstance(s.node, ast.Assign) and u(s.node.value) == "self" for t in s.node.targets if isinstance(t, ast.Name)}
    imm = [s for s in sites(ac) if method_call(s.node, selfs, "connect")]
    ok = bool(imm) and any(u(e) in (f"{ac.params[1]} == 0", f"0 == {ac.params[1]}") and p for e, p in imm[0].ctx.guards)
    rep.ob("N3-auto-connect", ac, "subscriber_count == 0 connects at build time", ok, "auto_connect(0) does not connect immediately")
    c2 = [s for s in sites(asub) if method_call(s.node, selfs, "connect")]
    cnts2 = names_augmented(asub, ast.Add)
    inc2 = [s for s in sites(asub) if isinstance(s.node, ast.AugAssign) and isinstance(s.node.op, ast.Add)]
    def eq_n(e):
        for x in ast.walk(e):
            if isinstance(x, ast.Compare) and len(x.ops) == 1 and isinstance(x.ops[0], ast.Eq):
                a_, b_ = x.left, x.comparators[0]
                if (cell_name(a_) in cnts2 and u(b_) == ac.params[1]) or (cell_name(b_) in cnts2 and u(a_) == ac.params[1]):
                    return True
        return False
    ok = False
    if c2 and inc2:
        for e, p in c2[0].ctx.guards:
            if p and isinstance(e, ast.Name):
                defs = [d for d in sites(asub) if isinstance(d.node, ast.Assign) and u(d.node.targets[0]) == e.id]
                if defs and eq_n(defs[0].node.value) and inc2[0].index < defs[0].index:
                    ok = True
            if p and isinstance(e, ast.Compare) and eq_n(e) and inc2[0].index < c2[0].index:
                ok = True
    rep.ob("N3-auto-connect", asub, "connect when the incremented counter equals subscriber_count", ok,
           "auto_connect does not connect exactly when the n-th subscriber arrives")
    # the counter starts at 0 and moves by exactly one per arrival; the decision is `counter == n and not connected`
    def _init_of(name):
        vs = [n_.value for n_ in ac.direct_nodes() if isinstance(n_, (ast.Assign, ast.AnnAssign)) and n_.value is not None
              and u(n_.targets[0] if isinstance(n_, ast.Assign) else n_.target) == name]
        return [v.elts[0] if isinstance(v, ast.List) and len(v.elts) == 1 else v for v in vs]
    for cn in cnts2:
        iv = _init_of(cn)
        rep.ob("N3-auto-connect", ac, f"subscriber counter `{cn}` starts at 0", len(iv) == 1 and isinstance(iv[0], ast.Constant) and iv[0].value == 0 and type(iv[0].value) is int,
               f"auto_connect's subscriber counter does not start at 0: it connects one subscriber early / late (or never) relative to subscriber_count")
    for s_ in inc2:
        rep.ob("N3-auto-connect", asub, f"`{short(s_.node)}`: one per arriving subscriber", isinstance(s_.node.value, ast.Constant) and s_.node.value.value == 1 and not s_.ctx.branch,
               "the subscriber counter is not advanced by exactly one for every arriving subscriber")
    flags_neg = []
    if c2:
        atoms_ = list(c2[0].ctx.guards)
        eq_atoms = [e for e, p in atoms_ if p and isinstance(e, ast.Compare) and eq_n(e)]
        flags_neg = [cell_name(e) for e, p in atoms_ if not p and cell_name(e) and not isinstance(e, ast.Compare)]
        rep.ob("N3-auto-connect", asub, f"connect under {[short(e, 40) + ('' if p else ' (negated)') for e, p in atoms_]}: `counter == subscriber_count` and `not connected` both required",
               bool(eq_atoms) and bool(flags_neg),
               "auto_connect's connect decision is not `counter == subscriber_count and not connected`: with `or` it connects at the first "
               "subscriber (or again at every later one)")
    if True:
        for fl in flags_neg:
            iv = _init_of(fl)
            rep.ob("N3-auto-connect", ac, f"connected flag `{fl}` starts False", len(iv) == 1 and isinstance(iv[0], ast.Constant) and iv[0].value is False,
                   "auto_connect's connected flag does not start False: the n-th subscriber never triggers connect()")
    own2 = [s for s in sites(asub) if isinstance(s.node, ast.Assign) and method_call(s.node.value, selfs, "subscribe")]
    rep.ob("N3-auto-connect", asub, "the connect decision is taken before the subscriber is subscribed", decided_before(asub, c2, own2, set(cnts2)),
           "auto_connect tests its subscriber counter only after subscribing the observer (a re-entrant subscriber is then counted first)")
    adis = asub.child("dispose")
    own2_vars = {s.node.targets[0].id for s in own2 if isinstance(s.node.targets[0], ast.Name)}
    if adis is not None:
        others = [s for s in sites(adis) if isinstance(s.node, ast.Call) and isinstance(s.node.func, ast.Attribute) and s.node.func.attr == "dispose"
                  and dotted(s.node.func.value) not in own2_vars]
        rep.ob("N3-auto-connect", adis, "unsubscribing from auto_connect releases only the subscriber's own subscription", not others,
               f"auto_connect's per-subscriber dispose also disposes {[short(o.node) for o in others]}: the connection is torn down when the "
               f"subscribers leave, although auto_connect stays connected once the given number of subscribers arrived")
    rep.ob("N3-auto-connect", asub, "the subscriber is subscribed to the connectable", any(
        isinstance(s.node, ast.Assign) and method_call(s.node.value, selfs, "subscribe") and u(s.node.value.args[0]) == asub.params[0] for s in sites(asub)),
        "auto_connect does not subscribe its subscribers")
    from .typestate_common import rule_scheduler_forwarded
    rep.rule("F0-scheduler-forwarded", "subscriptions made for a subscriber (to the subject / the connectable / the mapped sequence) pass its scheduler on", floor=3)
    for rel_, q_ in ((CO, "ConnectableObservable._subscribe_core"), (CO, "ConnectableObservable.auto_connect.subscribe"), (RC, "ref_count_.ref_count.subscribe"),
                     (MC, "multicast_.multicast.subscribe")):
        rule_scheduler_forwarded(rep, "F0-scheduler-forwarded", repo.fn(rel_, q_))
    # delegations
    def ctor_of(fn, e, depth=3):
        """constructor name a (possibly aliased) expression denotes"""
        if isinstance(e, ast.Call):
            return call_name(e), [u(a) for a in e.args]
        if isinstance(e, ast.Name) and depth:
            for g in fn.walk():
                if g.is_func:
                    for s_ in sites(g):
                        n_ = s_.node
                        if isinstance(n_, (ast.Assign, ast.AnnAssign)) and n_.value is not None and \
                                u(n_.targets[0] if isinstance(n_, ast.Assign) else n_.target) == e.id:
                            return ctor_of(fn, n_.value, depth - 1)
        return None, []

    def multicast_calls(fn):
        out = []
        for g in fn.walk():
            if g.is_func:
                for s_ in sites(g):
                    if isinstance(s_.node, ast.Call) and call_name(s_.node) == "multicast":
                        out.append((g, s_.node))
        return out

    def check_multicast(fn, subject_ctor, ctor_args, label):
        calls = multicast_calls(fn)
        direct = factory = False
        for g, c in calls:
            kw = {k.arg: k.value for k in c.keywords}
            subj = kw.get("subject", c.args[0] if c.args else None)
            if subj is not None:
                nm, args = ctor_of(fn, subj)
                if nm == subject_ctor and args == ctor_args:
                    direct = True
            if "subject_factory" in kw and "mapper" in kw:
                t = resolve_callable(g, kw["subject_factory"])
                if t.kind == "fn":
                    for s_ in sites(t.fn):
                        if isinstance(s_.node, ast.Return) and isinstance(s_.node.value, ast.Call) and call_name(s_.node.value) == subject_ctor \
                                and [u(a) for a in s_.node.value.args] == ctor_args:
                            factory = True
        rep.ob("N4-delegation", fn, f"{label} = multicast({subject_ctor}({', '.join(ctor_args)}))", direct,
               f"{label} is not multicast over a {subject_ctor}({', '.join(ctor_args)})")
        rep.ob("N4-delegation", fn, f"{label}(mapper) = multicast(subject_factory -> {subject_ctor}, mapper)", factory,
               f"{label}(mapper) does not multicast through a fresh {subject_ctor} per subscription")

    check_multicast(repo.fn(PB, "publish_"), "Subject", [], "publish")
    check_multicast(repo.fn(RP, "replay_"), "ReplaySubject", ["buffer_size", "window", "scheduler"], "replay")
    check_multicast(repo.fn(PV, "publish_value_"), "BehaviorSubject", ["initial_value"], "publish_value")
    sh = repo.fn(PB, "share_")
    names = [call_name(n) for n in sh.all_nodes() if isinstance(n, ast.Call)]
    rep.ob("N4-delegation", sh, "share = publish + ref_count", "publish" in names and "ref_count" in names and names.index("publish") < names.index("ref_count"),
           "share is not publish() followed by ref_count()")
    mc = repo.fn(MC, "multicast_.multicast")
    ok = any(isinstance(s.node, (ast.Assign, ast.AnnAssign)) and u(s.node.value) == "ConnectableObservable(source, subject)" for s in sites(mc))
    rep.ob("N4-delegation", mc, "multicast(subject) -> ConnectableObservable(source, subject)", ok, "multicast does not build a ConnectableObservable over the given subject")
    msub = repo.fn(MC, "multicast_.multicast.subscribe")
    conn = [u(s.node.targets[0]) for s in sites(msub) if isinstance(s.node, ast.Assign) and "subject_factory(scheduler)" in u(s.node.value)
            and "multicast" in u(s.node.value)]
    cv = conn[0] if conn else "connectable"
    subs_ = [u(s.node.targets[0]) for s in sites(msub) if isinstance(s.node, ast.Assign) and u(s.node.value).startswith(f"mapper({cv}).subscribe(")]
    ok = bool(conn) and bool(subs_) and any(
        isinstance(s.node, ast.Return) and isinstance(s.node.value, ast.Call) and call_name(s.node.value) == "CompositeDisposable"
        and sorted(u(a) for a in s.node.value.args) == sorted([subs_[0], f"{cv}.connect(scheduler)"]) for s in sites(msub))
    rep.ob("N4-delegation", msub, "mapper form: fresh subject per subscription, connect held with the subscription", ok,
           "multicast(subject_factory, mapper) does not create its subject per subscription and hold both the mapped subscription and the connection")
