"""C25 — a disposable's action runs at most once (S2)."""
from __future__ import annotations

import ast

from ..astutil import call_name, dotted, short, u
from ..core import Report
from ..ctx import sites
from ..engines.locks import ClassLocks, field_of
from ..frontend import Repo
from ..model import resolve_callable, is_schedule_call, schedule_action_arg
from ..rules import has_guard

D = "reactivex/disposable/disposable.py"
B = "reactivex/disposable/booleandisposable.py"
S = "reactivex/disposable/scheduleddisposable.py"


def test_and_set_rules(rep: Report, cl: ClassLocks, m, flag: str, effect_pred, effect_name: str,
                       prefix: str = "T") -> None:
    """Generic exactly-once rule: the decisive read of `flag` and its write happen under the lock in one
    region; the effect runs only on the path that performed the write (directly or through a local set there)."""
    acc = cl.accesses(m)
    writes = [a for a in acc if a.field == flag and a.mode == "w"]
    if not writes:
        rep.ob(f"{prefix}1-atomic-test-and-set", m, f"{m.qual}: the winning dispose() raises self.{flag}", False,
               f"{m.qual} never sets self.{flag}: every dispose() finds the flag unset and runs the action again")
        return
    win_sites = []
    for w in writes:
        wn = w.site.stmt
        raises = isinstance(wn, (ast.Assign, ast.AnnAssign)) and isinstance(wn.value, ast.Constant) and wn.value.value is True
        rep.ob(f"{prefix}1-atomic-test-and-set", m, f"{short(w.site.stmt)}: the winner raises the flag", raises,
               f"the winning path writes `{short(w.site.stmt)}` instead of setting self.{flag} = True: the next dispose() finds the flag "
               f"unset again and runs the action a second time")
        ok = raises and w.locked and has_guard(w.site.ctx, f"self.{flag}", False)
        test_locked = True
        # the `if not self.flag` test itself must be evaluated under the lock
        for a in acc:
            if a.field == flag and a.mode == "r" and not a.locked and not cl.is_early_exit_read(a):
                test_locked = False
        rep.ob(f"{prefix}1-atomic-test-and-set", m, short(w.site.stmt), ok and test_locked,
               f"`self.{flag}` is tested and set without holding the lock across both (two concurrent dispose() calls "
               f"can both win and run the action twice)")
        if ok:
            win_sites.append(w.site)
    effects = [s for s in sites(m) if effect_pred(s)]
    rep.require(effects, f"{effect_name} in {m.ref}")
    for e in effects:
        ok = False
        why = "not tied to the path that set the flag"
        if cl.held(e) and has_guard(e.ctx, f"self.{flag}", False) and any(w.ctx.branch == e.ctx.branch[:len(w.ctx.branch)]
                                                                            for w in win_sites):
            ok = True
        for g, pol in e.ctx.guards:
            if isinstance(g, ast.Name) and pol:
                L = g.id
                good = True
                n_true = 0
                for s in sites(m):
                    n = s.node
                    if isinstance(n, (ast.Assign, ast.AnnAssign)) and n.value is not None:
                        tg = n.targets if isinstance(n, ast.Assign) else [n.target]
                        if any(isinstance(t, ast.Name) and t.id == L for t in tg):
                            v = n.value
                            if isinstance(v, ast.Constant) and v.value in (False, None):
                                continue
                            # non-false assignment must be on the winning path
                            if any(s.ctx.branch == w.ctx.branch and cl.held(s) for w in win_sites):
                                n_true += 1
                            else:
                                good = False
                if good and n_true >= 1:
                    ok = True
            if isinstance(g, ast.Compare) and pol and len(g.ops) == 1 and isinstance(g.ops[0], ast.IsNot) \
                    and isinstance(g.left, ast.Name) and isinstance(g.comparators[0], ast.Constant) \
                    and g.comparators[0].value is None:
                L = g.left.id
                good = True
                n_set = 0
                for s in sites(m):
                    n = s.node
                    if isinstance(n, (ast.Assign, ast.AnnAssign)) and n.value is not None:
                        tg = n.targets if isinstance(n, ast.Assign) else [n.target]
                        if any(isinstance(t, ast.Name) and t.id == L for t in tg):
                            v = n.value
                            if isinstance(v, ast.Constant) and v.value is None:
                                continue
                            if any(s.ctx.branch == w.ctx.branch and cl.held(s) for w in win_sites):
                                n_set += 1
                            else:
                                good = False
                if good and n_set >= 1:
                    ok = True
        rep.ob(f"{prefix}2-effect-on-winning-path", m, short(e.node), ok,
               f"{effect_name} `{short(e.node)}` is {why}: it can run on a path that did not win the test-and-set "
               f"(more than once) ")
        first_set = all(w.index < e.index for w in win_sites) and bool(win_sites)
        rep.ob(f"{prefix}2-effect-on-winning-path", m, f"flag set before {short(e.node)}", first_set,
               f"`self.{flag}` is set only after {effect_name} ran: a dispose() issued from inside the action (same thread, "
               f"re-entrant lock) runs it again, and if the action raises the flag is never set and the next dispose() runs it "
               f"again")


def check(repo: Repo, rep: Report) -> None:
    rep.explanation = (
        "Lock-discipline rules on Disposable / BooleanDisposable / ScheduledDisposable: the read of is_disposed that "
        "decides and the write are in one `with self.lock` region (atomic test-and-set); the action runs only under a "
        "local that is set on exactly the path that performed the write; nobody else calls the action; "
        "BooleanDisposable.dispose only writes the flag; ScheduledDisposable.dispose performs no direct dispose but "
        "schedules a function whose only effect is disposing its inner SingleAssignmentDisposable (exactly-once by "
        "C26). Data-race freedom + atomic test-and-set is the standard argument for at-most-once under any interleaving.")
    rep.assumptions += ["RLock semantics of threading are trusted", "C26 covers SingleAssignmentDisposable"]
    for r, t, fl in (("T1-atomic-test-and-set", "decisive read and write of is_disposed in one locked region", 1),
                     ("T2-effect-on-winning-path", "the action is invoked only on the path that set the flag", 1),
                     ("T3-who-may-call", "self.action is invoked only from dispose", 1),
                     ("B1-flag-only", "BooleanDisposable.dispose sets the flag unconditionally and calls nothing", 2),
                     ("SD1-scheduled-only", "ScheduledDisposable.dispose makes no direct dispose; it schedules a function "
                                            "whose only effect is disposing the inner SingleAssignmentDisposable; "
                                            "is_disposed reflects that inner disposable", 4)):
        rep.rule(r, t, floor=fl)
    cls = repo.fn(D, "Disposable")
    cl = ClassLocks(repo, cls, ["self.lock"], ["is_disposed"])
    disp = repo.fn(D, "Disposable.dispose")
    test_and_set_rules(rep, cl, disp, "is_disposed",
                       lambda s: isinstance(s.node, ast.Call) and dotted(s.node.func) == "self.action", "the action")
    for m in cls.children:
        if not m.is_func:
            continue
        for g in m.walk():
            if not g.is_func:
                continue
            for s in sites(g):
                if isinstance(s.node, ast.Call) and dotted(s.node.func) == "self.action":
                    rep.ob("T3-who-may-call", g, short(s.node), g is disp,
                           "the action is invoked outside Disposable.dispose (a second invocation path)")
                if isinstance(s.node, ast.Attribute) and field_of(s.node) == "action" and isinstance(s.node.ctx, ast.Load) \
                        and not isinstance(g.module.parents.get(s.node), ast.Call):
                    rep.ob("T3-who-may-call", g, short(s.node), False, "the action escapes as a value")
    # BooleanDisposable
    bd = repo.fn(B, "BooleanDisposable.dispose")
    ok = any(isinstance(s.node, ast.Assign) and any(field_of(t) == "is_disposed" for t in s.node.targets)
             and isinstance(s.node.value, ast.Constant) and s.node.value.value is True and not s.ctx.branch
             for s in sites(bd))
    rep.ob("B1-flag-only", bd, "self.is_disposed = True", ok, "BooleanDisposable.dispose does not unconditionally set the flag")
    calls = [s for s in sites(bd) if isinstance(s.node, ast.Call)]
    rep.ob("B1-flag-only", bd, "no calls", not calls, f"BooleanDisposable.dispose does more than flip its flag: {[short(c.node) for c in calls]}")
    # ScheduledDisposable
    sd = repo.fn(S, "ScheduledDisposable.dispose")
    direct = [s for s in sites(sd) if isinstance(s.node, ast.Call) and isinstance(s.node.func, ast.Attribute)
              and s.node.func.attr == "dispose"]
    rep.ob("SD1-scheduled-only", sd, "no direct dispose", not direct,
           "ScheduledDisposable.dispose disposes the resource on the calling thread instead of on its scheduler")
    sch = [s for s in sites(sd) if is_schedule_call(s.node) and dotted(s.node.func.value) == "self.scheduler"]
    rep.ob("SD1-scheduled-only", sd, "self.scheduler.schedule(action)", len(sch) == 1 and not sch[0].ctx.branch,
           "dispose does not unconditionally schedule exactly one disposal on its scheduler")
    for s in sch:
        t = resolve_callable(sd, schedule_action_arg(s.node))
        ok = False
        if t.kind == "fn":
            cs = [x for x in sites(t.fn) if isinstance(x.node, ast.Call)]
            ok = len(cs) == 1 and dotted(cs[0].node.func) == "self.disposable.dispose" and not cs[0].ctx.branch
        rep.ob("SD1-scheduled-only", sd, "scheduled action disposes self.disposable", ok,
               "the scheduled function does not (only) dispose the inner SingleAssignmentDisposable")
    init = repo.fn(S, "ScheduledDisposable.__init__")
    ok1 = any(isinstance(s.node, ast.Assign) and any(u(t) == "self.disposable" for t in s.node.targets)
              and isinstance(s.node.value, ast.Call) and call_name(s.node.value) == "SingleAssignmentDisposable"
              for s in sites(init))
    ok2 = any(isinstance(s.node, ast.Assign) and any(u(t) == "self.disposable.disposable" for t in s.node.targets)
              and u(s.node.value) == init.params[2] for s in sites(init))
    rep.ob("SD1-scheduled-only", init, "inner SingleAssignmentDisposable holds the resource", ok1 and ok2,
           "the wrapped resource is not held by a SingleAssignmentDisposable (exactly-once would be lost)")
    isd = repo.opt_fn(S, "ScheduledDisposable.is_disposed")
    ok = isd is not None and any(isinstance(s.node, ast.Return) and u(s.node.value) == "self.disposable.is_disposed" for s in sites(isd))
    isd = isd or repo.fn(S, "ScheduledDisposable")
    rep.ob("SD1-scheduled-only", isd, "return self.disposable.is_disposed", ok,
           "is_disposed does not report the state of the wrapped disposable")
