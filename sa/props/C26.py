"""C26 — container disposables dispose each held item exactly once (S2)."""
from __future__ import annotations

import ast
from typing import Callable, Dict, List, Optional

from ..astutil import call_name, dotted, short, u
from ..core import Report
from ..ctx import paths, sites, Path
from ..engines.locks import ClassLocks, field_of
from ..frontend import Fn, Repo

FILES = {
    "CompositeDisposable": ("reactivex/disposable/compositedisposable.py", ["disposable", "is_disposed"]),
    "SerialDisposable": ("reactivex/disposable/serialdisposable.py", ["current", "is_disposed"]),
    "SingleAssignmentDisposable": ("reactivex/disposable/singleassignmentdisposable.py", ["current", "is_disposed"]),
    "MultipleAssignmentDisposable": ("reactivex/disposable/multipleassignmentdisposable.py", ["current", "is_disposed"]),
}


def discipline(rep: Report, cl: ClassLocks) -> None:
    """L1 writes under lock; L2/L3 no unlocked decision reads (monotone early exits and pure getters excepted)."""
    for m in cl.methods:
        if m.name == "__init__":
            continue
        getter = cl.is_pure_getter(m)
        for a in cl.accesses(m):
            c = f"{m.name}: {a.mode} self.{a.field} in `{short(a.site.stmt, 60)}`"
            if a.mode == "w":
                rep.ob("L1-write-locked", m, c, a.locked,
                       f"write to guarded field self.{a.field} outside `with self.lock`: concurrent add/assign/dispose "
                       f"can lose or double-dispose an item")
            else:
                ok = a.locked or getter or cl.is_early_exit_read(a)
                rep.ob("L2-read-locked", m, c, ok,
                       f"self.{a.field} is read outside the lock and the result decides a side effect (not a monotone "
                       f"early exit, not a pure getter): a concurrent dispose()/assign between this read and the locked "
                       f"region (or after it) double-disposes or loses an item")


def item_identity(rep: Report, c: Fn, item_field: str) -> None:
    """L6: expressions denoting a held / assigned disposable are never truth-tested."""
    from ..astutil import atoms
    for m in c.children:
        if not m.is_func or m.name == "__init__":
            continue
        items = set(m.params[1:])
        for s in sites(m):
            n = s.node
            if isinstance(n, (ast.Assign, ast.AnnAssign)) and n.value is not None and field_of(n.value) == item_field \
                    and item_field == "current":
                t = n.targets[0] if isinstance(n, ast.Assign) else n.target
                if isinstance(t, ast.Name):
                    items.add(t.id)
            if isinstance(n, ast.For) and isinstance(n.target, ast.Name):
                items.add(n.target.id)
        def is_item(e: ast.AST) -> bool:
            return (isinstance(e, ast.Name) and e.id in items) or (item_field == "current" and field_of(e) == "current")
        for s in sites(m):
            n = s.node
            tests = []
            if isinstance(n, (ast.If, ast.While, ast.IfExp, ast.Assert)):
                from ..rules import effective_test
                tests.append(effective_test(m, n.test))
            elif isinstance(n, ast.BoolOp) and not isinstance(m.module.parents.get(n), (ast.If, ast.While, ast.IfExp, ast.Assert, ast.BoolOp, ast.UnaryOp)):
                tests.append(n)
            for t in tests:
                for e, pol in atoms(t, True):
                    # disjunctions are not split by atoms(): look inside
                    for x in ([e] if not isinstance(e, ast.BoolOp) else e.values):
                        while isinstance(x, ast.UnaryOp) and isinstance(x.op, ast.Not):
                            x = x.operand
                        if isinstance(x, (ast.Name, ast.Attribute)):
                            if is_item(x):
                                rep.ob("L6-item-identity", m, f"{m.name}: `{short(t, 50)}` tests {u(x)}", False,
                                       f"`{u(x)}` denotes a disposable and is tested by truthiness: a falsy disposable (an empty "
                                       f"CompositeDisposable) is treated as absent — dropped without dispose, or a second "
                                       f"assignment over it is accepted")
                        elif isinstance(x, ast.Compare) and len(x.ops) == 1 and isinstance(x.ops[0], (ast.Is, ast.IsNot)) \
                                and is_item(x.left):
                            rep.ob("L6-item-identity", m, f"{m.name}: `{short(x, 50)}`", True)


def old_is_none(p: Path, name: str) -> bool:
    for t, v in p.decisions:
        if (t == f"{name} is not None" and not v) or (t == name and not v) or (t == f"{name} is None" and v):
            return True
    return False


def decided_true(p: Path, name: str) -> bool:
    return any(t == name and v for t, v in p.decisions)


def handoff_setter(rep: Report, m: Fn, field: str, swaps_old: bool) -> None:
    val = m.params[1]
    olds = set()
    for s in sites(m):
        n = s.node
        if isinstance(n, (ast.Assign, ast.AnnAssign)) and n.value is not None and field_of(n.value) == field:
            t = n.targets[0] if isinstance(n, ast.Assign) else n.target
            if isinstance(t, ast.Name):
                olds.add(t.id)

    def ev(n: ast.AST) -> Optional[str]:
        if isinstance(n, (ast.Assign, ast.AnnAssign)):
            tg = n.targets if isinstance(n, ast.Assign) else [n.target]
            if any(field_of(t) == field for t in tg) and isinstance(n.value, ast.Name) and n.value.id == val:
                return "STORE"
        if isinstance(n, ast.Call) and isinstance(n.func, ast.Attribute) and n.func.attr == "dispose":
            r = dotted(n.func.value)
            if r == val:
                return "DVAL"
            if r in olds:
                return "DOLD:" + r
        return None

    ps = paths(m, ev)
    n_ok = 0
    for p in ps:
        if p.end == "raise" or p.exc:
            continue
        k = p.kinds
        st, dv = k.count("STORE"), k.count("DVAL")
        desc = f"path[{' ; '.join(f'{t}={v}' for t, v in p.decisions) or 'straight'}] events={k}"
        ok = (st == 1 and dv == 0) or (st == 0 and dv == 1)
        if st == 0 and dv == 0 and (old_is_none(p, val) or any(t == val and not v for t, v in p.decisions)):
            ok = True   # `if should_dispose and value:` with a falsy value: nothing to dispose
        rep.ob("L4-handoff", m, f"{m.name}: stored xor disposed :: {desc}", ok,
               f"on this path the assigned item is {'both stored and disposed' if st and dv else 'neither stored nor disposed' if not st and not dv else 'handled twice'}: "
               f"an item assigned after dispose must be disposed exactly once, a stored item must not be disposed by the assignment")
        if swaps_old and st == 1:
            dold = [x for x in k if x.startswith("DOLD:")]
            ok2 = len(dold) == 1 or (not dold and any(old_is_none(p, o) for o in olds))
            rep.ob("L4-handoff", m, f"{m.name}: replaced item disposed :: {desc}", ok2,
                   "the previously held item is swapped out but not disposed exactly once on this path")
            if dold and "STORE" in k:
                rep.ob("L4-handoff", m, f"{m.name}: new item installed before the replaced one is disposed :: {desc}", k.index("STORE") < k.index(dold[0]),
                       "the replaced item is disposed before the new one is installed: an assignment made while the old item is being "
                       "disposed (its dispose re-enters the setter) is overwritten afterwards without being disposed")
        n_ok += 1
    rep.require(n_ok >= 2, f"paths through {m.ref}")
    if swaps_old:
        # the swap (read the held item, read the flag, store the new item) is one critical section
        par = m.module.parents

        def region(n):
            while n is not None and n is not m.node:
                if isinstance(n, ast.With) and any(u(it.context_expr).endswith("lock") for it in n.items):
                    return n
                n = par.get(n)
            return None
        reads = [s.node for s in sites(m) if isinstance(s.node, (ast.Assign, ast.AnnAssign)) and s.node.value is not None and field_of(s.node.value) in (field, "is_disposed")]
        stores = [s.node for s in sites(m) if ev(s.node) == "STORE"]
        regs = {id(region(n)) for n in reads + stores}
        ok = bool(reads) and bool(stores) and all(region(n) is not None for n in reads + stores) and len(regs) == 1
        rep.ob("L4-handoff", m, f"{m.name}: held item read, flag read and new item stored in one critical section", ok,
               "the swap is not one critical section: between reading the held item / the disposed flag and storing the new item another "
               "assignment or dispose() can run, and an item is lost undisposed")


def handoff_dispose(rep: Report, m: Fn, field: str) -> None:
    olds = set()
    for s in sites(m):
        n = s.node
        if isinstance(n, (ast.Assign, ast.AnnAssign)) and n.value is not None and field_of(n.value) == field:
            t = n.targets[0] if isinstance(n, ast.Assign) else n.target
            if isinstance(t, ast.Name):
                olds.add(t.id)

    def ev(n: ast.AST) -> Optional[str]:
        if isinstance(n, (ast.Assign, ast.AnnAssign)):
            tg = n.targets if isinstance(n, ast.Assign) else [n.target]
            if any(field_of(t) == "is_disposed" for t in tg) and isinstance(n.value, ast.Constant) and n.value.value is True:
                return "SETFLAG"
            if any(field_of(t) == field for t in tg) and isinstance(n.value, ast.Constant) and n.value.value is None:
                return "CLEAR"
            if n.value is not None and field_of(n.value) == field and any(isinstance(t, ast.Name) for t in tg):
                return "TAKE"
        if isinstance(n, ast.Call) and isinstance(n.func, ast.Attribute) and n.func.attr == "dispose" \
                and dotted(n.func.value) in olds:
            return "DOLD"
        if isinstance(n, ast.Call) and isinstance(n.func, ast.Attribute) and n.func.attr == "dispose" \
                and dotted(n.func.value) == f"self.{field}":
            return "DFIELD"
        return None

    for p in paths(m, ev):
        if p.end == "raise" or p.exc:
            continue
        k = p.kinds
        desc = f"path[{' ; '.join(f'{t}={v}' for t, v in p.decisions) or 'straight'}] events={k}"
        if "SETFLAG" in k:
            ok = "TAKE" in k and "CLEAR" in k and (k.count("DOLD") == 1 or (k.count("DOLD") == 0 and any(old_is_none(p, o) for o in olds))) \
                and "DFIELD" not in k
            rep.ob("L4-handoff", m, f"dispose: held item taken, cleared and disposed once :: {desc}", ok,
                   "on the path that wins the dispose, the held item is not (swapped out under the lock and) disposed exactly once")
        else:
            ok = "DOLD" not in k and "DFIELD" not in k or any(old_is_none(p, o) for o in olds)
            rep.ob("L4-handoff", m, f"dispose: losing path disposes nothing :: {desc}", ok,
                   "a dispose() call that did not win the flag disposes the held item again")


def check(repo: Repo, rep: Report) -> None:
    rep.explanation = (
        "Lock discipline + ownership hand-off typestate on the four container disposables. L1: every write to a guarded "
        "field (items / current, is_disposed) is inside `with self.lock`; L2/L3: no decision is taken on a guarded field "
        "read outside the lock, except monotone early exits and pure getters (so decisions after the region use locals "
        "computed inside it); L4: path enumeration of every mutator — an assigned/added item is stored xor disposed, a "
        "swapped-out item is disposed exactly once, the winner of dispose() takes+clears+disposes, losers dispose "
        "nothing; composite dispose/clear iterate over a snapshot swapped out under the lock; L5: "
        "SingleAssignmentDisposable decides 'already assigned' under the lock.")
    rep.assumptions += ["threading.RLock mutual exclusion is trusted",
                        "paths: loops 0/1 iterations; disposing `None`/falsy values is a no-op path"]
    rep.rule("L1-write-locked", "writes to guarded fields are inside the lock", floor=9)
    rep.rule("L2-read-locked", "reads of guarded fields that decide anything are inside the lock (monotone early exit / "
                               "pure getter idioms excepted)", floor=12)
    rep.rule("L4-handoff", "ownership hand-off on every path of every mutator", floor=12)
    rep.rule("L4-snapshot", "CompositeDisposable.dispose/clear dispose a snapshot swapped out under the lock", floor=3)
    rep.rule("L5-single-assignment", "SingleAssignmentDisposable rejects a second assignment, deciding under the lock", floor=2)
    rep.rule("L7-no-callout-under-plain-lock", "items are disposed outside the container's lock unless that lock is re-entrant", floor=4)
    rep.rule("L6-item-identity", "held items are tested with `is (not) None`, never by truthiness (a disposable may be falsy: "
                                 "an empty CompositeDisposable has __len__ == 0)", floor=3)
    cls = {}
    for name, (rel, fields) in FILES.items():
        c = repo.fn(rel, name)
        cls[name] = c
        cl = ClassLocks(repo, c, ["self.lock"], fields)
        discipline(rep, cl)
        item_identity(rep, c, "disposable" if name == "CompositeDisposable" else "current")
        # L7: items are disposed outside the lock, or the lock is re-entrant: an item's dispose() may come back to this container
        from ..engines.locks import lock_kind
        kind = lock_kind(repo, c, "lock")
        under = [(m_, s_) for m_ in cl.methods for s_ in sites(m_) if isinstance(s_.node, ast.Call) and isinstance(s_.node.func, ast.Attribute)
                 and s_.node.func.attr == "dispose" and (dotted(s_.node.func.value) or "").split(".")[0] != "self" and cl.held(s_)]
        rep.ob("L7-no-callout-under-plain-lock", c, f"{name}: lock kind {kind}; {len(under)} item.dispose() calls while holding it", kind == "RLock" or not under,
               f"{name} disposes an item while holding its non-reentrant lock ({[short(s_.node) for _, s_ in under]}): an item whose dispose() "
               f"reaches back into this container (a handle that is its own cancel token, a disposable that removes itself) deadlocks the thread")
    for name in ("SerialDisposable", "SingleAssignmentDisposable", "MultipleAssignmentDisposable"):
        c = cls[name]
        setter = c.child("set_disposable")
        rep.require(setter, f"{name}.set_disposable")
        handoff_setter(rep, setter, "current", swaps_old=(name == "SerialDisposable"))
        handoff_dispose(rep, c.child("dispose"), "current")
        # property wiring
        ok = False
        for n in c.direct_nodes():
            if isinstance(n, ast.Assign) and any(u(t) == "disposable" for t in n.targets) and isinstance(n.value, ast.Call) \
                    and call_name(n.value) == "property":
                a = [u(x) for x in n.value.args] + [u(k.value) for k in n.value.keywords]
                ok = "set_disposable" in a
        rep.ob("L4-handoff", c, "disposable = property(..., set_disposable)", ok,
               "assignments to .disposable do not go through set_disposable")
    # L5
    sad = cls["SingleAssignmentDisposable"].child("set_disposable")
    cl = ClassLocks(repo, cls["SingleAssignmentDisposable"], ["self.lock"], ["current", "is_disposed"])
    raises = [s for s in sites(sad) if isinstance(s.node, ast.Raise)]
    rep.ob("L5-single-assignment", sad, "rejects second assignment", bool(raises),
           "a second assignment to a live SingleAssignmentDisposable is not rejected")
    for r in raises:
        guarded = any(field_of(x) == "current" for e, p in r.ctx.guards for x in ast.walk(e)) \
            and not any(isinstance(x, ast.Name) and x.id in sad.params[1:] for e, p in r.ctx.guards for x in ast.walk(e))
        rep.ob("L5-single-assignment", sad, short(r.node), guarded and cl.held(r),
               "the 'already assigned' test is made outside the lock (two concurrent first assignments both pass it and one item is lost), or "
               "it also depends on the value being assigned (a second assignment of None is accepted: the held item is dropped undisposed)")
    # composite add / remove / dispose / clear
    comp = cls["CompositeDisposable"]
    add = comp.child("add")
    item = add.params[1]

    def ev_add(n):
        if isinstance(n, ast.Call) and dotted(n.func) == "self.disposable.append" and n.args and u(n.args[0]) == item:
            return "STORE"
        if isinstance(n, ast.Call) and dotted(n.func) == f"{item}.dispose":
            return "DVAL"
        return None
    for p in paths(add, ev_add):
        if p.exc or p.end == "raise":
            continue
        k = p.kinds
        desc = f"path[{' ; '.join(f'{t}={v}' for t, v in p.decisions) or 'straight'}] events={k}"
        rep.ob("L4-handoff", add, f"add: stored xor disposed :: {desc}", (k.count("STORE"), k.count("DVAL")) in ((1, 0), (0, 1)),
               "an added item is neither kept nor disposed, or both")
    rem = comp.child("remove")
    item = rem.params[1]

    def ev_rem(n):
        if isinstance(n, ast.Call) and dotted(n.func) == "self.disposable.remove" and n.args and u(n.args[0]) == item:
            return "REMOVE"
        if isinstance(n, ast.Call) and dotted(n.func) == f"{item}.dispose":
            return "DVAL"
        return None
    for p in paths(rem, ev_rem):
        if p.exc or p.end == "raise":
            continue
        k = p.kinds
        desc = f"path[{' ; '.join(f'{t}={v}' for t, v in p.decisions) or 'straight'}] events={k}"
        rep.ob("L4-handoff", rem, f"remove: removed iff disposed :: {desc}", (k.count("REMOVE"), k.count("DVAL")) in ((1, 1), (0, 0)),
               "remove() disposes an item it did not remove, or removes one without disposing it")
    for mname in ("dispose", "clear"):
        m = comp.child(mname)
        cl = ClassLocks(repo, comp, ["self.lock"], ["disposable", "is_disposed"])
        loops = [s for s in sites(m) if isinstance(s.node, ast.For)]
        rep.require(loops, f"loop in CompositeDisposable.{mname}")
        for lp in loops:
            it = lp.node.iter
            tgt = lp.node.target
            ok = False
            why = "the loop iterates the live field"
            if isinstance(it, ast.Name):
                takes = [s for s in sites(m) if isinstance(s.node, (ast.Assign, ast.AnnAssign)) and s.node.value is not None
                         and field_of(s.node.value) == "disposable"
                         and any(isinstance(t, ast.Name) and t.id == it.id for t in
                                 (s.node.targets if isinstance(s.node, ast.Assign) else [s.node.target]))]
                resets = [s for s in sites(m) if isinstance(s.node, ast.Assign)
                          and any(field_of(t) == "disposable" for t in s.node.targets)
                          and (isinstance(s.node.value, ast.List) and not s.node.value.elts
                               or isinstance(s.node.value, ast.Call) and call_name(s.node.value) == "list" and not s.node.value.args)]
                if takes and resets and all(cl.held(s) for s in takes + resets) and not cl.held(lp) \
                        and any(t.index < r.index for t in takes for r in resets):
                    ok = True
                else:
                    why = "the items are not swapped out (taken and replaced by a fresh list) under the lock before the loop"
            body_disposes = any(isinstance(x, ast.Call) and isinstance(x.func, ast.Attribute) and x.func.attr == "dispose"
                                and isinstance(tgt, ast.Name) and dotted(x.func.value) == tgt.id for x in ast.walk(lp.node))
            rep.ob("L4-snapshot", m, f"{mname}: {short(lp.node, 50)}", ok and body_disposes,
                   f"CompositeDisposable.{mname}: {why}; concurrent dispose/clear/add would dispose items twice or skip them")
        if mname == "dispose":
            flag = [s for s in sites(m) if isinstance(s.node, ast.Assign) and any(field_of(t) == "is_disposed" for t in s.node.targets)
                    and isinstance(s.node.value, ast.Constant) and s.node.value.value is True]
            ok = bool(flag) and all(cl.held(s) for s in flag)
            rep.ob("L4-snapshot", m, "dispose: is_disposed = True in the swap region", ok,
                   "is_disposed is not set in the same locked region that swaps the items out (an item added concurrently "
                   "would be neither disposed nor rejected)")
        else:
            rep.ob("L4-snapshot", m, "clear keeps the container alive", not any(
                isinstance(s.node, ast.Assign) and any(field_of(t) == "is_disposed" for t in s.node.targets) for s in sites(m)),
                   "clear() marks the container disposed")
