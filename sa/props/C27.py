"""C27 — RefCountDisposable releases its resource only after all dependents (S2)."""
from __future__ import annotations

import ast
from typing import Optional

from ..astutil import call_name, dotted, short, u
from ..core import Report
from ..ctx import paths, sites
from ..engines.locks import ClassLocks, field_of
from ..frontend import Repo
from ..rules import has_guard

F = "reactivex/disposable/refcountdisposable.py"
FIELDS = ["count", "is_primary_disposed", "is_disposed"]


def check(repo: Repo, rep: Report) -> None:
    rep.explanation = (
        "Lock discipline on RefCountDisposable and its InnerDisposable: count / is_primary_disposed / is_disposed are "
        "written only under the lock; decisions on them are taken under the lock (monotone early exits excepted); the "
        "underlying dispose is called outside the lock, only on paths on which — in one locked region — is_disposed was "
        "set under a guard implying count == 0 and is_primary_disposed; the primary dispose sets is_primary_disposed "
        "once; release decrements exactly once; InnerDisposable.dispose swaps `parent` under its lock and releases "
        "only with the non-None parent it obtained; the `disposable` getter decides inert-vs-increment under the lock. "
        "The abstract-model part of the property (unbounded histories) is not in this family.")
    rep.assumptions += ["threading.RLock trusted", "counts never go negative is a consequence of release-once per inner (I1)"]
    rep.rule("L1-write-locked", "writes to count / is_primary_disposed / is_disposed are inside the lock", floor=5)
    rep.rule("L2-read-locked", "decisions on those fields are taken inside the lock (monotone early exits excepted)", floor=6)
    rep.rule("R1-release-guard", "is_disposed is set, and the underlying disposed, only under count == 0 and primary "
                                 "disposed, decided in one locked region; the underlying dispose runs outside the lock "
                                 "on exactly those paths", floor=4)
    rep.rule("R2-counting", "primary dispose sets is_primary_disposed under `not is_primary_disposed`; release decrements "
                            "count exactly once per call; the getter increments exactly once per live dependent", floor=4)
    rep.rule("I1-inner-once", "InnerDisposable.dispose swaps parent under its lock and releases only the non-None parent "
                              "it obtained", floor=3)
    rep.rule("D1-dependent-per-subscription", "add_ref / GroupedObservable take `r.disposable` for every subscription and before subscribing the wrapped sequence", floor=2)
    from .common_own import rule_dependent_reference
    rule_dependent_reference(repo, rep, "D1-dependent-per-subscription")
    cls = repo.fn(F, "RefCountDisposable")
    cl = ClassLocks(repo, cls, ["self.lock"], FIELDS)
    for m in cl.methods:
        if m.name == "__init__":
            continue
        for a in cl.accesses(m):
            c = f"{m.name}: {a.mode} self.{a.field} in `{short(a.site.stmt, 60)}`"
            if a.mode == "w":
                rep.ob("L1-write-locked", m, c, a.locked, f"self.{a.field} written outside the lock")
            else:
                rep.ob("L2-read-locked", m, c, a.locked or cl.is_early_exit_read(a),
                       f"self.{a.field} read outside the lock decides a side effect (release / increment could be lost or doubled)")
    # R1 ----------------------------------------------------------------
    for mname in ("dispose", "release"):
        m = repo.fn(F, f"RefCountDisposable.{mname}")

        # locals holding a copy of the underlying resource (`x = self.underlying_disposable`)
        under = {"self.underlying_disposable"} | {t.id for s0 in sites(m) if isinstance(s0.node, ast.Assign)
                                                  and u(s0.node.value) == "self.underlying_disposable"
                                                  for t in s0.node.targets if isinstance(t, ast.Name)}

        def ev(n: ast.AST, under=under) -> Optional[str]:
            if isinstance(n, ast.Assign) and any(field_of(t) == "is_disposed" for t in n.targets) \
                    and isinstance(n.value, ast.Constant) and n.value.value is True:
                return "SET"
            if isinstance(n, ast.Call) and isinstance(n.func, ast.Attribute) and n.func.attr == "dispose" \
                    and (dotted(n.func.value) or "") in under:
                return "UNDER"
            return None
        sets = [s for s in sites(m) if ev(s.node) == "SET"]
        if not sets:
            rep.ob("R1-release-guard", m, f"{mname}: the final release marks the container disposed", False,
                   f"{mname} never sets is_disposed: after the underlying disposable was released a later dependent (or a second "
                   f"release) finds count == 0 and primary disposed again and disposes the underlying a second time")
            continue
        for s in sets:
            g = s.ctx.guards
            zero = any((u(e) == "self.count" and not p) or (u(e) in ("self.count == 0", "0 == self.count") and p)
                       or (u(e) in ("self.count <= 0",) and p) for e, p in g)
            if mname == "dispose":
                prim = any(isinstance(x.node, ast.Assign) and any(field_of(t) == "is_primary_disposed" for t in x.node.targets)
                           and x.ctx.branch == s.ctx.branch[:len(x.ctx.branch)] and x.index < s.index for x in sites(m))
            else:
                prim = has_guard(s.ctx, "self.is_primary_disposed", True)
            rep.ob("R1-release-guard", m, f"{mname}: {short(s.stmt)}", zero and prim and cl.held(s),
                   f"is_disposed is set without (count == 0 and primary disposed) established under the lock: the "
                   f"underlying resource would be released while dependents are alive, or before the primary dispose")
        for p in paths(m, ev):
            if p.exc or p.end == "raise":
                continue
            k = p.kinds
            desc = f"path[{' ; '.join(f'{t}={v}' for t, v in p.decisions) or 'straight'}] events={k}"
            ok = (k.count("SET"), k.count("UNDER")) in ((1, 1), (0, 0)) and (not k or k.index("SET") < k.index("UNDER"))
            if not ok and k == ["SET"]:
                # `u = self.underlying_disposable ... if u is not None: u.dispose()`: skipped only when there is no resource
                for s2 in sites(m):
                    n2 = s2.node
                    if isinstance(n2, ast.Assign) and isinstance(n2.value, ast.Attribute) and "underlying" in n2.value.attr \
                            and isinstance(n2.targets[0], ast.Name):
                        L = n2.targets[0].id
                        if any((t == f"{L} is not None" and not v) or (t == f"{L} is None" and v) for t, v in p.decisions):
                            ok = True
            rep.ob("R1-release-guard", m, f"{mname}: underlying disposed iff flag set :: {desc}", ok,
                   "the underlying resource is disposed on a path that did not set is_disposed (could run twice) or is "
                   "not disposed on the path that did (leak)")
        for s in sites(m):
            if ev(s.node) == "UNDER":
                rep.ob("R1-release-guard", m, f"{mname}: {short(s.node)} outside lock", not cl.held(s),
                       "the underlying dispose runs while holding the lock", nontrivial=False)
    # R2 ----------------------------------------------------------------
    d = repo.fn(F, "RefCountDisposable.dispose")
    prim_sets = [s for s in sites(d) if isinstance(s.node, ast.Assign)
                 and any(field_of(t) == "is_primary_disposed" for t in s.node.targets)]
    ok = bool(prim_sets) and all(has_guard(s.ctx, "self.is_primary_disposed", False) and cl.held(s)
                                 and isinstance(s.node.value, ast.Constant) and s.node.value.value is True for s in prim_sets)
    rep.ob("R2-counting", d, "is_primary_disposed test-and-set", ok,
           "the primary dispose is not an atomic test-and-set: two dispose() calls could both act as primary")
    r = repo.fn(F, "RefCountDisposable.release")
    decs = [s for s in sites(r) if isinstance(s.node, ast.AugAssign) and field_of(s.node.target) == "count"]
    ok = len(decs) == 1 and isinstance(decs[0].node.op, ast.Sub) and u(decs[0].node.value) == "1" and cl.held(decs[0]) \
        and not [b for b in decs[0].ctx.branch]
    rep.ob("R2-counting", r, "count -= 1 once, under the lock", ok,
           "release does not decrement the count exactly once under the lock")
    g = repo.fn(F, "RefCountDisposable.disposable")
    incs = [s for s in sites(g) if isinstance(s.node, ast.AugAssign) and field_of(s.node.target) == "count"]
    ok = len(incs) == 1 and isinstance(incs[0].node.op, ast.Add) and u(incs[0].node.value) == "1" and cl.held(incs[0]) \
        and has_guard(incs[0].ctx, "self.is_disposed", False)
    rep.ob("R2-counting", g, "count += 1 under `not is_disposed`, under the lock", ok,
           "the getter does not decide inert-vs-increment atomically")
    rets = [s for s in sites(g) if isinstance(s.node, ast.Return)]
    ok = True
    for s in rets:
        v = s.node.value
        if isinstance(v, ast.Call) and call_name(v) == "InnerDisposable":
            ok = ok and has_guard(s.ctx, "self.is_disposed", False) and any(i.index < s.index for i in incs) \
                and v.args and u(v.args[0]) == "self"
        elif isinstance(v, ast.Call) and call_name(v) == "Disposable":
            ok = ok and has_guard(s.ctx, "self.is_disposed", True) and not v.args
        else:
            ok = False
    rep.ob("R2-counting", g, "returns InnerDisposable(self) iff counted, inert Disposable() iff released", ok and len(rets) == 2,
           "a dependent is handed out without being counted, or a counted one is not tied to this parent")
    # I1 ----------------------------------------------------------------
    inner = repo.fn(F, "RefCountDisposable.InnerDisposable")
    idisp = repo.fn(F, "RefCountDisposable.InnerDisposable.dispose")
    icl = ClassLocks(repo, inner, ["self.lock"], ["parent"])
    for a in icl.accesses(idisp):
        rep.ob("I1-inner-once", idisp, f"{a.mode} self.parent in `{short(a.site.stmt, 50)}`", a.locked,
               "InnerDisposable.parent accessed outside its lock: two dispose() calls could both release")

    def ev2(n: ast.AST) -> Optional[str]:
        if isinstance(n, ast.Assign) and isinstance(n.value, ast.Attribute) and field_of(n.value) == "parent":
            return "TAKE"
        if isinstance(n, ast.Assign) and any(field_of(t) == "parent" for t in n.targets) \
                and isinstance(n.value, ast.Constant) and n.value.value is None:
            return "CLEAR"
        if isinstance(n, ast.Call) and isinstance(n.func, ast.Attribute) and n.func.attr == "release":
            return "REL:" + (dotted(n.func.value) or "?")
        return None
    takes = [s for s in sites(idisp) if ev2(s.node) == "TAKE"]
    if len(takes) != 1:
        rep.ob("R1-release-guard", idisp, "InnerDisposable.dispose takes its (strong) parent reference exactly once, under its lock", False,
               "InnerDisposable.dispose does not read `self.parent` into a local exactly once (a weak reference, a re-read, or none): the "
               "dependent can find its RefCountDisposable gone — release() is never called and the underlying resource is never released — or release twice")
        return
    local = u(takes[0].node.targets[0])
    for p in paths(idisp, ev2):
        if p.exc:
            continue
        k = p.kinds
        desc = f"path[{' ; '.join(f'{t}={v}' for t, v in p.decisions) or 'straight'}] events={k}"
        rel = [x for x in k if x.startswith("REL:")]
        none = any((t == f"{local} is not None" and not v) or (t == local and not v) or (t == f"{local} is None" and v)
                   for t, v in p.decisions)
        ok = "TAKE" in k and "CLEAR" in k and k.index("TAKE") < k.index("CLEAR") and \
            ((rel == [f"REL:{local}"] and not none) or (not rel and none))
        rep.ob("I1-inner-once", idisp, f"swap then release the obtained parent :: {desc}", ok,
               "the inner disposable does not (swap parent to None under the lock and) release exactly the parent it "
               "obtained: a second dispose() would release again, or the first would not release")
