"""C28 — virtual time runs actions in due order on a monotone clock (S1: structural clauses)."""
from __future__ import annotations

import ast
from typing import Optional

from ..astutil import call_name, compare_norm, dotted, short, u
from ..core import Report
from ..ctx import sites
from ..frontend import Repo
from ..rules import has_guard
from .common_own import rule_invoke_guard

V = "reactivex/scheduler/virtualtimescheduler.py"
PQ = "reactivex/internal/priorityqueue.py"
SI = "reactivex/scheduler/scheduleditem.py"


def guard_between(ctx, left_text: str, right_text: str):
    """Operators of dominating comparisons `left <op> right` (normalised so that left_text is on the left)."""
    out = []
    for e, p in ctx.guards:
        if not p:
            continue
        r = compare_norm(e, lambda n: u(n) == left_text)
        if r and u(r[1]) == right_text:
            out.append(r[0])
    return out


def check(repo: Repo, rep: Report) -> None:
    rep.explanation = (
        "Structural clauses of virtual-time ordering: ScheduledItem orders by due time only and the priority queue "
        "breaks ties with a counter incremented on every enqueue (stable FIFO among equal due times) over a heapq heap; "
        "every invoke() is dominated by `not is_cancelled()`; every clock write inside the run loops is dominated by "
        "`item.duetime > now` and writes that due time (clock = due time of the action if later, never backwards), spin "
        "increments are positive; advance_to dequeues only under `item.duetime <= target` (inclusive) and finally sets "
        "the clock to the target, which the entry guard proved not earlier than now; sleep only moves the clock. The "
        "order of concrete schedules is not decided.")
    rep.assumptions += ["heapq implements a binary heap over tuple comparison", "datetime/float comparison semantics"]
    rep.rule("O1-item-order", "ScheduledItem comparisons use duetime only", floor=3)
    rep.rule("O2-stable-queue", "PriorityQueue pushes (item, counter), increments the counter per enqueue, pops the heap minimum", floor=4)
    rep.rule("M1-clock-monotone", "every write to the clock is guarded so that it cannot move backwards, and inside run "
                                  "loops writes the due time of the item about to run", floor=6)
    rep.rule("A1-advance-bounds", "advance_to dequeues only items with duetime <= target and ends with clock = target; "
                                  "sleep runs nothing", floor=4)
    # O1
    for mname, op in (("__lt__", ast.Lt), ("__gt__", ast.Gt), ("__eq__", ast.Eq)):
        m = repo.fn(SI, f"ScheduledItem.{mname}")
        oth = m.params[1]
        rets = [s.node.value for s in sites(m) if isinstance(s.node, ast.Return) and s.node.value is not None
                and not (isinstance(s.node.value, ast.Name) and s.node.value.id == "NotImplemented")]
        ok = bool(rets)
        for v in rets:
            ok = ok and isinstance(v, ast.Compare) and len(v.ops) == 1 and isinstance(v.ops[0], op) \
                and u(v.left) == "self.duetime" and u(v.comparators[0]) == f"{oth}.duetime"
        rep.ob("O1-item-order", m, mname, ok, f"ScheduledItem.{mname} does not compare `self.duetime` with `other.duetime` "
                                            f"using the operator of its name: the queue order is not the due-time order")
    # O2
    enq = repo.fn(PQ, "PriorityQueue.enqueue")
    item = enq.params[1]
    push = [s for s in sites(enq) if isinstance(s.node, ast.Call) and dotted(s.node.func) == "heapq.heappush"]
    ok = len(push) == 1 and u(push[0].node.args[0]) == "self.items" and isinstance(push[0].node.args[1], ast.Tuple) \
        and [u(x) for x in push[0].node.args[1].elts] == [item, "self.count"]
    rep.ob("O2-stable-queue", enq, "heappush(self.items, (item, self.count))", ok,
           "enqueue does not push (item, counter): equal due times are not served first-scheduled-first")
    inc = [s for s in sites(enq) if isinstance(s.node, ast.AugAssign) and u(s.node.target) == "self.count"
           and isinstance(s.node.op, ast.Add) and isinstance(s.node.value, ast.Constant) and s.node.value.value > 0
           and not s.ctx.branch]
    rep.ob("O2-stable-queue", enq, "self.count += 1 on every enqueue", len(inc) == 1,
           "the tie-break counter is not incremented on every enqueue")
    deq = repo.fn(PQ, "PriorityQueue.dequeue")
    pops = [s for s in sites(deq) if isinstance(s.node, ast.Call) and dotted(s.node.func) == "heapq.heappop"
            and u(s.node.args[0]) == "self.items"]
    rep.ob("O2-stable-queue", deq, "heapq.heappop(self.items)[0]", len(pops) == 1,
           "dequeue does not pop the heap minimum")
    peek = repo.fn(PQ, "PriorityQueue.peek")
    ok = any(isinstance(s.node, ast.Return) and u(s.node.value) == "self.items[0][0]" for s in sites(peek))
    rep.ob("O2-stable-queue", peek, "return self.items[0][0]", ok, "peek does not return the heap minimum")
    sa = repo.fn(V, "VirtualTimeScheduler.schedule_absolute")
    ok = any(isinstance(s.node, ast.Call) and dotted(s.node.func) == "self._queue.enqueue" for s in sites(sa))
    rep.ob("O2-stable-queue", sa, "self._queue.enqueue(si)", ok, "schedule_absolute does not enqueue into the priority queue")
    # invoke guard (all schedulers; the virtual-time ones are among them)
    rule_invoke_guard(repo, rep, "S1-invoke-guard")
    # M1
    n_writes = 0
    for mname in ("start", "advance_to", "sleep"):
        m = repo.fn(V, f"VirtualTimeScheduler.{mname}")
        target = None
        for s in sites(m):
            n = s.node
            is_w = False
            val = None
            if isinstance(n, (ast.Assign, ast.AnnAssign)) and n.value is not None:
                tg = n.targets if isinstance(n, ast.Assign) else [n.target]
                if any(u(t) == "self._clock" for t in tg):
                    is_w, val = True, n.value
            if isinstance(n, ast.AugAssign) and u(n.target) == "self._clock":
                n_writes += 1
                pos = isinstance(n.op, ast.Add) and (
                    isinstance(n.value, ast.Constant) and isinstance(n.value.value, (int, float)) and n.value.value > 0
                    or isinstance(n.value, ast.Call) and call_name(n.value) == "timedelta" and all(
                        isinstance(k.value, ast.Constant) and k.value.value > 0 for k in n.value.keywords)
                    and all(isinstance(a, ast.Constant) and a.value > 0 for a in n.value.args)
                    and (n.value.args or n.value.keywords))
                rep.ob("M1-clock-monotone", m, f"{mname}: {short(n)}", bool(pos),
                       "the clock is changed by something other than a positive increment")
                continue
            if not is_w:
                continue
            n_writes += 1
            vt = u(val)
            src = None
            for cand in ast.walk(val):
                if isinstance(cand, (ast.Attribute, ast.Name)) and u(cand) in ("item.duetime", "dt"):
                    src = u(cand)
            if s.ctx.loops:
                ops = guard_between(s.ctx, "item.duetime", "self.now")
                ok = src == "item.duetime" and any(o in (">", ">=") for o in ops)
                rep.ob("M1-clock-monotone", m, f"{mname}: {short(n)}", ok,
                       "inside the run loop the clock is set without `item.duetime > now` dominating the write, or to "
                       "something other than the due time of the item about to run: the clock can move backwards / "
                       "an action runs at a clock different from its due time")
            else:
                ops = guard_between(s.ctx, "self.now", src or "?")
                ok = src is not None and any(o in ("<=", "<", "==") for o in ops)
                rep.ob("M1-clock-monotone", m, f"{mname}: {short(n)}", ok,
                       f"the clock is set to `{vt}` without a dominating guard that `self.now <= {src}` "
                       f"(`if self.now > {src}: raise`): time could move backwards")
    rep.require(n_writes >= 6, f"clock writes found ({n_writes})")
    # A1
    adv = repo.fn(V, "VirtualTimeScheduler.advance_to")
    deqs = [s for s in sites(adv) if isinstance(s.node, ast.Call) and dotted(s.node.func) == "self._queue.dequeue"]
    rep.require(deqs, "dequeue in advance_to")
    for s in deqs:
        ops = guard_between(s.ctx, "item.duetime", "dt")
        rep.ob("A1-advance-bounds", adv, short(s.node), "<=" in ops,
               f"advance_to removes an item without `item.duetime <= target` dominating (found {ops}): it runs actions "
               f"beyond the target or skips the ones due exactly at the target")
        peeks = [x for x in sites(adv) if isinstance(x.node, ast.Assign) and u(x.node.value) == "self._queue.peek()"
                 and u(x.node.targets[0]) == "item" and x.index < s.index and x.ctx.loops == s.ctx.loops]
        rep.ob("A1-advance-bounds", adv, "item = self._queue.peek() precedes the dequeue in the same iteration", bool(peeks),
               "the item that is tested is not the one that is removed")
    finals = [s for s in sites(adv) if not s.ctx.loops and isinstance(s.node, ast.Assign)
              and any(u(t) == "self._clock" for t in s.node.targets)]
    ok = bool(finals) and all(any(u(x) == "dt" for x in ast.walk(s.node.value)) for s in finals)
    rep.ob("A1-advance-bounds", adv, "clock = target after the loop", ok, "advance_to does not leave the clock at the target")
    sl = repo.fn(V, "VirtualTimeScheduler.sleep")
    bad = [s for s in sites(sl) if isinstance(s.node, ast.Call) and isinstance(s.node.func, ast.Attribute)
           and s.node.func.attr in ("invoke", "dequeue", "start", "advance_to")]
    rep.ob("A1-advance-bounds", sl, "sleep runs nothing", not bad, "sleep runs or removes scheduled actions")
    ab = repo.fn(V, "VirtualTimeScheduler.advance_by")
    ok = any(isinstance(s.node, ast.Call) and dotted(s.node.func) == "self.advance_to" and s.node.args
             and "self.now" in u(s.node.args[0]) and ab.params[1] in u(s.node.args[0]) for s in sites(ab))
    rep.ob("A1-advance-bounds", ab, "advance_by = advance_to(now + time)", ok, "advance_by does not delegate to advance_to(now + time)")
