"""C28 — virtual time runs actions in due order on a monotone clock (S1: structural clauses)."""
from __future__ import annotations

import ast
from typing import Optional

from ..astutil import call_name, compare_norm, dotted, short, u
from ..core import Report
from ..ctx import sites
from ..frontend import Repo
from ..rules import has_guard
from .common_own import rule_invoke_guard

V = "reactivex/scheduler/virtualtimescheduler.py"
PQ = "reactivex/internal/priorityqueue.py"
SI = "reactivex/scheduler/scheduleditem.py"


def guard_between(ctx, left_text: str, right_text: str):
    """Operators of dominating comparisons `left <op> right` (normalised so that left_text is on the left)."""
    out = []
    for e, p in ctx.guards:
        if not p:
            continue
        r = compare_norm(e, lambda n: u(n) == left_text)
        if r and u(r[1]) == right_text:
            out.append(r[0])
    return out


def local_from(fn, pred):
    """Names of locals whose (some) defining expression satisfies pred(expr)."""
    out = []
    for s in sites(fn):
        n = s.node
        if isinstance(n, (ast.Assign, ast.AnnAssign)) and n.value is not None:
            t = n.targets[0] if isinstance(n, ast.Assign) else n.target
            if isinstance(t, ast.Name) and pred(n.value) and t.id not in out:
                out.append(t.id)
    return out


def vts_roles(repo: Repo):
    """(queue, clock, lock, enabled-flag) attribute names of VirtualTimeScheduler, by how __init__ fills them."""
    from .attr_roles import roles
    r = roles(repo, V, "VirtualTimeScheduler")
    return r.by_call("PriorityQueue"), r.by_param_index(0), r.by_call("Lock", "RLock", "threading.Lock", "threading.RLock"), r.by_const(False, only=True)


def check(repo: Repo, rep: Report) -> None:
    Q, CLK, LK, _EN = vts_roles(repo)
    rep.explanation = (
        "Structural clauses of virtual-time ordering: ScheduledItem orders by due time only and the priority queue "
        "breaks ties with a counter incremented on every enqueue (stable FIFO among equal due times) over a heapq heap; "
        "every invoke() is dominated by `not is_cancelled()`; every clock write inside the run loops is dominated by "
        "`item.duetime > now` and writes that due time (clock = due time of the action if later, never backwards), spin "
        "increments are positive; advance_to dequeues only under `item.duetime <= target` (inclusive) and finally sets "
        "the clock to the target, which the entry guard proved not earlier than now; sleep only moves the clock. The "
        "order of concrete schedules is not decided.")
    rep.assumptions += ["heapq implements a binary heap over tuple comparison", "datetime/float comparison semantics"]
    rep.rule("O1-item-order", "ScheduledItem comparisons use duetime only", floor=3)
    rep.rule("O2-stable-queue", "PriorityQueue pushes (item, counter), increments the counter per enqueue, pops the heap minimum", floor=4)
    rep.rule("O3-duetime-unchanged", "subclasses hand the requested due time to the queue unchanged (unit conversion only)", floor=2)
    rep.rule("O4-queue-guarded", "the priority queue is touched only under the scheduler lock; peek and dequeue of one step share a region", floor=6)
    rep.rule("M1-clock-monotone", "every write to the clock is guarded so that it cannot move backwards, and inside run "
                                  "loops writes the due time of the item about to run", floor=6)
    rep.rule("A1-advance-bounds", "advance_to dequeues only items with duetime <= target and ends with clock = target; "
                                  "sleep runs nothing", floor=4)
    # O1
    for mname, op in (("__lt__", ast.Lt), ("__gt__", ast.Gt), ("__eq__", ast.Eq)):
        m = repo.fn(SI, f"ScheduledItem.{mname}")
        oth = m.params[1]
        rets = [s.node.value for s in sites(m) if isinstance(s.node, ast.Return) and s.node.value is not None
                and not (isinstance(s.node.value, ast.Name) and s.node.value.id == "NotImplemented")]
        ok = bool(rets)
        want = {ast.Lt: "<", ast.Gt: ">", ast.Eq: "=="}[op]
        for v in rets:
            r = compare_norm(v, lambda x: u(x) == "self.duetime")
            ok = ok and r is not None and r[0] == want and u(r[1]) == f"{oth}.duetime"
        rep.ob("O1-item-order", m, mname, ok, f"ScheduledItem.{mname} does not compare `self.duetime` with `other.duetime` "
                                            f"using the operator of its name: the queue order is not the due-time order")
        # ... and by the due time ONLY: two items are ordered the same way whatever else differs between them (an item of another
        # scheduler instance sharing a trampoline queue must still tie, so that the queue's counter decides first-come-first-served)
        others = sorted({f"{u(a.value)}.{a.attr}" for a in m.all_nodes() if isinstance(a, ast.Attribute) and isinstance(a.value, ast.Name)
                         and a.value.id in ("self", oth) and a.attr != "duetime"})
        rep.ob("O1-item-order", m, f"{mname} reads nothing but the due times", not others,
               f"ScheduledItem.{mname} also depends on {others}: items with equal due times no longer compare equal in every queue they share, the "
               f"priority queue's insertion counter is never consulted for them and they run out of scheduling order")
    # O2
    enq = repo.fn(PQ, "PriorityQueue.enqueue")
    item = enq.params[1]
    push = [s for s in sites(enq) if isinstance(s.node, ast.Call) and dotted(s.node.func) == "heapq.heappush"]
    ok = len(push) == 1 and u(push[0].node.args[0]) == "self.items" and isinstance(push[0].node.args[1], ast.Tuple) \
        and [u(x) for x in push[0].node.args[1].elts] == [item, "self.count"]
    rep.ob("O2-stable-queue", enq, "heappush(self.items, (item, self.count))", ok,
           "enqueue does not push (item, counter): equal due times are not served first-scheduled-first")
    inc = [s for s in sites(enq) if isinstance(s.node, ast.AugAssign) and u(s.node.target) == "self.count"
           and isinstance(s.node.op, ast.Add) and isinstance(s.node.value, ast.Constant) and s.node.value.value > 0
           and not s.ctx.branch]
    rep.ob("O2-stable-queue", enq, "self.count += 1 on every enqueue", len(inc) == 1,
           "the tie-break counter is not incremented on every enqueue")
    deq = repo.fn(PQ, "PriorityQueue.dequeue")
    pops = [s for s in sites(deq) if isinstance(s.node, ast.Call) and dotted(s.node.func) == "heapq.heappop"
            and u(s.node.args[0]) == "self.items"]
    rep.ob("O2-stable-queue", deq, "heapq.heappop(self.items)[0]", len(pops) == 1,
           "dequeue does not pop the heap minimum")
    peek = repo.fn(PQ, "PriorityQueue.peek")
    ok = any(isinstance(s.node, ast.Return) and u(s.node.value) == "self.items[0][0]" for s in sites(peek))
    rep.ob("O2-stable-queue", peek, "return self.items[0][0]", ok, "peek does not return the heap minimum")
    sa = repo.fn(V, "VirtualTimeScheduler.schedule_absolute")
    ok = any(isinstance(s.node, ast.Call) and dotted(s.node.func) == f"self.{Q}.enqueue" for s in sites(sa))
    rep.ob("O2-stable-queue", sa, f"self.{Q}.enqueue(si)", ok, "schedule_absolute does not enqueue into the priority queue")
    # O3: TestScheduler / HistoricalScheduler do not re-time requests
    ts = repo.opt_fn("reactivex/testing/testscheduler.py", "TestScheduler.schedule_absolute")
    if ts is not None:
        fw = [s for s in sites(ts) if isinstance(s.node, ast.Call) and dotted(s.node.func) == "super().schedule_absolute"]
        ok = len(fw) == 1
        if ok:
            a0 = fw[0].node.args[0]
            defs = [d for d in sites(ts) if isinstance(d.node, ast.Assign) and u(d.node.targets[0]) == u(a0)]
            exprs = [a0] + [d.node.value for d in defs]
            calls = {call_name(x) for e in exprs for x in ast.walk(e) if isinstance(x, ast.Call)}
            ok = calls <= {"isinstance", "to_seconds", "to_datetime", "float"} and [u(a) for a in fw[0].node.args[1:]] == ts.params[2:4]
        rep.ob("O3-duetime-unchanged", ts, "TestScheduler.schedule_absolute forwards the due time (converted only)", ok,
               "TestScheduler re-times the request (clamp / shift of the due time): past-due actions no longer run in due-time order")
    hs = repo.fn("reactivex/scheduler/historicalscheduler.py", "HistoricalScheduler")
    over = [c.name for c in hs.children if c.is_func and c.name.startswith(("schedule", "start", "advance", "sleep", "add"))]
    rep.ob("O3-duetime-unchanged", hs, "HistoricalScheduler inherits scheduling unchanged", not over,
           f"HistoricalScheduler overrides {over} (not analysed here)")
    # add(absolute, relative): the absolute operand (the clock) comes first; a relative request is due at clock + duetime
    vc_ = repo.fn(V, "VirtualTimeScheduler")
    addf = vc_.child("add")
    n_add = 0
    for m_ in vc_.children:
        if not m_.is_func:
            continue
        for s_ in sites(m_):
            if isinstance(s_.node, ast.Call) and dotted(s_.node.func) in ("self.add", "cls.add", "VirtualTimeScheduler.add") and len(s_.node.args) == 2:
                n_add += 1
                a_, b_ = (u(x) for x in s_.node.args)
                clockish = (f"self.{CLK}", "self.now", "self.clock")
                okab = a_ in clockish and not any(c_ in b_ for c_ in clockish)
                if m_.name == "schedule_relative":
                    okab = okab and m_.params[1] in b_
                rep.ob("O3-duetime-unchanged", m_, f"{m_.name}: `{short(s_.node)}` = add(<clock>, <relative time>)", okab,
                       f"`{short(s_.node)}` does not add the relative time to the clock in the roles add(absolute, relative) declares: add() "
                       f"converts its second operand with to_timedelta, which fails (TypeError) or mis-converts when it is handed the clock")
    rep.ob("O3-duetime-unchanged", vc_, f"{n_add} add(absolute, relative) calls", addf is not None and n_add >= 1,
           "relative requests are no longer placed at clock + duetime through add()")
    sa_ = repo.fn(V, "VirtualTimeScheduler.schedule_absolute")
    item = [s for s in sites(sa_) if isinstance(s.node, (ast.Assign, ast.AnnAssign)) and isinstance(s.node.value, ast.Call) and call_name(s.node.value) == "ScheduledItem"]
    ok = False
    if item:
        a = item[0].node.value.args
        dtv = u(a[3]) if len(a) > 3 else None
        d = [x for x in sites(sa_) if isinstance(x.node, ast.Assign) and u(x.node.targets[0]) == dtv]
        ok = bool(d) and u(d[0].node.value) == f"self.to_datetime({sa_.params[1]})" and [u(x) for x in a[1:3]] == [sa_.params[3], sa_.params[2]]
    rep.ob("O3-duetime-unchanged", sa_, "ScheduledItem(self, state, action, to_datetime(duetime))", ok,
           "the scheduled item does not carry the requested due time / action / state")
    # O4: queue guarded by the lock
    from ..engines.locks import ClassLocks
    vcls = repo.fn(V, "VirtualTimeScheduler")
    cl = ClassLocks(repo, vcls, [f"self.{LK}"], [f"{Q}"])
    for m in cl.methods:
        if m.name == "__init__":
            continue
        for a in cl.accesses(m):
            rep.ob("O4-queue-guarded", m, f"{m.name}: {a.mode} self.{Q} in `{short(a.site.stmt, 50)}`", a.locked,
                   "the priority queue is used outside the scheduler lock: a concurrent schedule can be lost or an item run twice")
    adv_ = repo.fn(V, "VirtualTimeScheduler.advance_to")
    pk = [s for s in sites(adv_) if isinstance(s.node, ast.Call) and dotted(s.node.func) == f"self.{Q}.peek"]
    dq = [s for s in sites(adv_) if isinstance(s.node, ast.Call) and dotted(s.node.func) == f"self.{Q}.dequeue"]
    def with_of(s):
        n = s.node
        par = adv_.module.parents
        while n is not None and not isinstance(n, ast.With):
            n = par.get(n)
        return n
    ok = len(pk) == 1 and len(dq) == 1 and with_of(pk[0]) is not None and with_of(pk[0]) is with_of(dq[0])
    rep.ob("O4-queue-guarded", adv_, "peek and dequeue in one locked region", ok,
           "the item that was examined is not removed in the same locked region: another thread can schedule an earlier item "
           "in between, which is then popped (lost) while the examined item runs twice")
    # invoke guard (all schedulers; the virtual-time ones are among them)
    rule_invoke_guard(repo, rep, "S1-invoke-guard")
    # M1
    n_writes = 0
    for mname in ("start", "advance_to", "sleep"):
        m = repo.fn(V, f"VirtualTimeScheduler.{mname}")
        items = local_from(m, lambda e: u(e) in (f"self.{Q}.peek()", f"self.{Q}.dequeue()"))
        targets = local_from(m, lambda e: isinstance(e, ast.Call) and dotted(e.func) == "self.to_datetime")
        for s in sites(m):
            n = s.node
            is_w = False
            val = None
            if isinstance(n, (ast.Assign, ast.AnnAssign)) and n.value is not None:
                tg = n.targets if isinstance(n, ast.Assign) else [n.target]
                if any(u(t) == f"self.{CLK}" for t in tg):
                    is_w, val = True, n.value
            if isinstance(n, ast.AugAssign) and u(n.target) == f"self.{CLK}":
                n_writes += 1
                pos = isinstance(n.op, ast.Add) and (
                    isinstance(n.value, ast.Constant) and isinstance(n.value.value, (int, float)) and n.value.value > 0
                    or isinstance(n.value, ast.Call) and call_name(n.value) == "timedelta" and all(
                        isinstance(k.value, ast.Constant) and k.value.value > 0 for k in n.value.keywords)
                    and all(isinstance(a, ast.Constant) and a.value > 0 for a in n.value.args)
                    and (n.value.args or n.value.keywords))
                rep.ob("M1-clock-monotone", m, f"{mname}: clock += {short(n.value)}", bool(pos),
                       "the clock is changed by something other than a positive increment")
                continue
            if not is_w:
                continue
            n_writes += 1
            vt = u(val)
            src = None
            for cand in ast.walk(val):
                if isinstance(cand, ast.Attribute) and cand.attr == "duetime" and isinstance(cand.value, ast.Name) and cand.value.id in items:
                    src = ("item", u(cand))
                elif isinstance(cand, ast.Name) and cand.id in targets:
                    src = ("target", cand.id)
            form = "item.duetime" if src and src[0] == "item" else ("target" if src else vt)
            conv = "to_seconds(...)" if isinstance(val, ast.Call) else "direct"
            c = f"{mname}: clock = {form} [{conv}]"
            if s.ctx.loops:
                ops = guard_between(s.ctx, src[1], "self.now") if src and src[0] == "item" else []
                ok = bool(src) and src[0] == "item" and any(o in (">", ">=") for o in ops)
                rep.ob("M1-clock-monotone", m, c, ok,
                       "inside the run loop the clock is set without `item.duetime > now` dominating the write, or to "
                       "something other than the due time of the item about to run: the clock can move backwards / "
                       "an action runs at a clock different from its due time")
            else:
                ops = guard_between(s.ctx, "self.now", src[1]) if src and src[0] == "target" else []
                ok = bool(src) and src[0] == "target" and any(o in ("<=", "<", "==") for o in ops)
                rep.ob("M1-clock-monotone", m, c, ok,
                       f"the clock is set to `{vt}` without a dominating guard that `self.now <= target` "
                       f"(`if self.now > target: raise`): time could move backwards")
    rep.require(n_writes >= 6, f"clock writes found ({n_writes})")
    # A1
    adv = repo.fn(V, "VirtualTimeScheduler.advance_to")
    items = local_from(adv, lambda e: u(e) in (f"self.{Q}.peek()", f"self.{Q}.dequeue()"))
    targets = local_from(adv, lambda e: isinstance(e, ast.Call) and dotted(e.func) == "self.to_datetime")
    rep.require(items and targets, "item / target locals in advance_to")
    deqs = [s for s in sites(adv) if isinstance(s.node, ast.Call) and dotted(s.node.func) == f"self.{Q}.dequeue"]
    rep.require(deqs, "dequeue in advance_to")
    for s in deqs:
        ops = [o for it in items for tg in targets for o in guard_between(s.ctx, f"{it}.duetime", tg)]
        rep.ob("A1-advance-bounds", adv, "dequeue only under item.duetime <= target", "<=" in ops,
               f"advance_to removes an item without `item.duetime <= target` dominating (found {ops}): it runs actions "
               f"beyond the target or skips the ones due exactly at the target")
        peeks = [x for x in sites(adv) if isinstance(x.node, ast.Assign) and u(x.node.value) == f"self.{Q}.peek()"
                 and u(x.node.targets[0]) in items and x.index < s.index and x.ctx.loops == s.ctx.loops]
        rep.ob("A1-advance-bounds", adv, f"item = self.{Q}.peek() precedes the dequeue in the same iteration", bool(peeks),
               "the item that is tested is not the one that is removed")
    finals = [s for s in sites(adv) if not s.ctx.loops and isinstance(s.node, ast.Assign)
              and any(u(t) == f"self.{CLK}" for t in s.node.targets)]
    ok = bool(finals) and all(any(isinstance(x, ast.Name) and x.id in targets for x in ast.walk(s.node.value)) for s in finals)
    rep.ob("A1-advance-bounds", adv, "clock = target after the loop", ok, "advance_to does not leave the clock at the target")
    # the only ways out of advance_to without moving the clock: the target is the present (or the past: an error), or a run is in
    # progress; "nothing is queued" is not one of them -- time passes whether or not anything is due
    for r_ in sites(adv):
        if isinstance(r_.node, ast.Return) and r_.ctx.guards:
            mention = sorted({u(x) for e_, _p in r_.ctx.guards for x in ast.walk(e_) if isinstance(x, ast.Attribute) and isinstance(x.value, ast.Name) and x.value.id == "self"
                              and x.attr not in ("now", "clock", CLK, _EN)})
            rep.ob("A1-advance-bounds", adv, f"early `return` of advance_to decided by the clock / the running flag only ({[u(e_) for e_, _p in r_.ctx.guards]})", not mention,
                   f"advance_to returns without moving the clock depending on {mention}: with nothing queued the clock stays where it was, and "
                   f"everything that reads `now` afterwards (time stamps, windows by time, the next relative schedule) is off by the skipped span")
    kinds_ = {p_ for s in finals for e, p_ in s.ctx.guards if isinstance(e, ast.Call) and call_name(e) == "isinstance" and u(e.args[0]) == f"self.{CLK}"}
    unguarded_ = any(not [1 for e, p_ in s.ctx.guards if isinstance(e, ast.Call) and call_name(e) == "isinstance" and u(e.args[0]) == f"self.{CLK}"] for s in finals)
    rep.ob("A1-advance-bounds", adv, f"clock = target for both clock kinds ({'any' if unguarded_ else sorted(kinds_)})", unguarded_ or kinds_ == {True, False},
           "advance_to sets the clock to the target for one clock kind only: on the other kind (numeric TestScheduler / datetime "
           "HistoricalScheduler) the clock stays at the last item's due time and `now` lags behind the time advanced to")
    rep.ob("A1-advance-bounds", adv, "clock = target only when the run ended normally (not in a finally)", bool(finals) and not any(s.ctx.finals for s in finals),
           "advance_to moves the clock to the target in a `finally`: when an action raises, the clock jumps past the actions still queued "
           "before the target; they later run at a clock beyond their due time (and a resumed advance_to to the same time returns at once)")
    sl = repo.fn(V, "VirtualTimeScheduler.sleep")
    bad = [s for s in sites(sl) if isinstance(s.node, ast.Call) and isinstance(s.node.func, ast.Attribute)
           and s.node.func.attr in ("invoke", "dequeue", "start", "advance_to")]
    rep.ob("A1-advance-bounds", sl, "sleep runs nothing", not bad, "sleep runs or removes scheduled actions")
    ab = repo.fn(V, "VirtualTimeScheduler.advance_by")
    ok = any(isinstance(s.node, ast.Call) and dotted(s.node.func) == "self.advance_to" and s.node.args
             and "self.now" in u(s.node.args[0]) and ab.params[1] in u(s.node.args[0]) for s in sites(ab))
    rep.ob("A1-advance-bounds", ab, "advance_by = advance_to(now + time)", ok, "advance_by does not delegate to advance_to(now + time)")
