"""C29 — virtual-time runs always finish (S2: necessary conditions)."""
from __future__ import annotations

import ast
from typing import Optional

from ..astutil import call_name, dotted, short, u
from ..core import Report
from ..ctx import PathEnum, Path, sites
from ..engines.locks import lock_kind
from ..engines.sched import reacquire_sites, readonly_property_writes, locked_self_uses, class_family
from ..frontend import Repo
from ..rules import has_guard

V = "reactivex/scheduler/virtualtimescheduler.py"


def loop_body_paths(fn, loop: ast.While, is_event):
    pe = PathEnum(fn, is_event)
    return pe.block(loop.body, [Path()])


def check(repo: Repo, rep: Report) -> None:
    from .C28 import vts_roles
    Q, CLK, LK, EN = vts_roles(repo)
    rep.explanation = (
        "Termination is undecidable in general; decided are necessary conditions visible in the code: (a) no "
        f"self-deadlock — inside a region holding the non-reentrant threading.Lock `{LK}`, no self member is used that "
        f"(transitively, through methods and property getters of the class family) takes `{LK}` again; (b) no store to "
        "a property without a setter anywhere in the package; (c) progress — every path through an iteration of the "
        "run loops of start()/advance_to() either leaves the loop or dequeues one item; (d) the enabled flag is tested "
        "and set at entry in one locked region and reset on every normal exit, so a drained scheduler can be started again.")
    rep.assumptions += ["actions themselves terminate and schedule finitely many further actions",
                        "exceptions raised by actions propagate to the caller (not part of 'drained')"]
    rep.rule("A-no-reacquire", "no use, while holding the non-reentrant lock, of a self member that takes it again", floor=5)
    rep.rule("B-readonly-property", "no store to a property that has no setter (package-wide)", floor=1)
    rep.rule("C-progress", "each run-loop iteration path exits the loop or dequeues", floor=4)
    rep.rule("E-clock-kind", f"every clock update after construction is decided by isinstance(self.{CLK}, datetime) and uses the "
                             "arithmetic of that clock kind (a numeric bump on a datetime clock raises in the middle of a run)", floor=6)
    rep.rule("D-enabled-flag", "enabled flag: test-and-set at entry under the lock, reset on every normal exit", floor=4)
    cls = repo.fn(V, "VirtualTimeScheduler")
    kind = lock_kind(repo, cls, f"{LK}")
    rep.require(kind is not None, f"VirtualTimeScheduler.{LK} construction")
    locks = {f"self.{LK}"}
    if kind in ("Lock", "Condition(Lock)"):
        bad = reacquire_sites(repo, cls, locks)
        n = locked_self_uses(repo, cls, locks)
        rep.require(n >= 10, f"self uses under {LK} ({n})")
        seen = set()
        for m, s, w in bad:
            c = f"{m.name}: {short(s.stmt, 70)} uses {short(s.node, 30)}"
            if c in seen:
                continue
            seen.add(c)
            rep.ob("A-no-reacquire", m, c, False,
                   f"while holding the non-reentrant `{LK}` ({kind}), `{short(s.node)}` takes it again ({w}): the call "
                   f"never returns (self-deadlock) — start()/advance_to() hang")
        for i in range(n - len(seen)):
            pass
        rep.ob("A-no-reacquire", cls, f"{n} self-member uses under {LK} in {len(class_family(repo, cls))} classes", True)
        for k in class_family(repo, cls):
            for m in k.children:
                if m.is_func:
                    cnt = sum(1 for s in sites(m) if f"self.{LK}" in s.ctx.locks and isinstance(s.node, ast.Attribute)
                              and dotted(s.node.value) == "self")
                    if cnt:
                        rep.ob("A-no-reacquire", m, f"{m.name}: {cnt} self uses under {LK}", True)
    else:
        rep.ob("A-no-reacquire", cls, f"{LK} is re-entrant ({kind})", True)
        rep.notes.append(f"{LK} kind is {kind}: re-acquisition is harmless")
    # (b)
    writes, n_props = readonly_property_writes(repo)
    rep.extra["properties_seen"] = n_props
    rep.require(n_props >= 8, f"properties in the package ({n_props})")
    for g, s, name in writes:
        rep.ob("B-readonly-property", g, short(s.stmt, 70), False,
               f"`self.{name}` is a property without a setter: this store raises AttributeError at run time")
    rep.ob("B-readonly-property", "package", f"{n_props} properties, {len(writes)} stores to read-only ones", True)
    # (c) progress
    for mname in ("start", "advance_to"):
        m = repo.fn(V, f"VirtualTimeScheduler.{mname}")
        loops = [s.node for s in sites(m) if isinstance(s.node, ast.While)]
        rep.require(loops, f"run loop in {m.ref}")

        def ev(n: ast.AST) -> Optional[str]:
            if isinstance(n, ast.Call) and isinstance(n.func, ast.Attribute) and n.func.attr == "dequeue" \
                    and dotted(n.func.value) == f"self.{Q}":
                return "DEQ"
            return None
        for lp in loops:
            for p in loop_body_paths(m, lp, ev):
                if p.exc:
                    continue
                desc = f"path[{' ; '.join(f'{t}={v}' for t, v in p.decisions) or 'straight'}] end={p.end} events={p.kinds}"
                ok = p.end in ("break", "return", "raise") or "DEQ" in p.kinds
                rep.ob("C-progress", m, f"{mname} loop :: {desc}", ok,
                       "this iteration path neither leaves the loop nor removes an item from the queue: the loop spins forever")
    # (d) enabled flag
    for mname in ("start", "advance_to"):
        m = repo.fn(V, f"VirtualTimeScheduler.{mname}")
        sets_true = [s for s in sites(m) if isinstance(s.node, ast.Assign) and any(u(t) == f"self.{EN}" for t in s.node.targets)
                     and isinstance(s.node.value, ast.Constant) and s.node.value.value is True]
        ok = bool(sets_true) and all(f"self.{LK}" in s.ctx.locks and has_guard(s.ctx, f"self.{EN}", False) for s in sets_true)
        rep.ob("D-enabled-flag", m, f"{mname}: test-and-set of {EN} under {LK}", ok,
               "the enabled flag is not tested and set atomically at entry (re-entrant start would run the loop twice)")
        loops = [s for s in sites(m) if isinstance(s.node, ast.While)]
        last = loops[-1]
        resets = []
        for s in sites(m):
            if s.index <= last.index or s.ctx.branch or s.ctx.loops:
                continue
            n = s.node
            if isinstance(n, ast.Assign) and any(u(t) == f"self.{EN}" for t in n.targets) \
                    and isinstance(n.value, ast.Constant) and n.value.value is False:
                resets.append(s)
            if isinstance(n, ast.Call) and dotted(n.func) == "self.stop":
                stop = repo.class_method(cls, "stop")
                if stop is not None and any(isinstance(x.node, ast.Assign) and any(u(t) == f"self.{EN}" for t in x.node.targets)
                                            and isinstance(x.node.value, ast.Constant) and x.node.value.value is False
                                            and not x.ctx.branch for x in sites(stop)):
                    resets.append(s)
        # the loop must only be left by `break` (falling to the reset), not by return
        rets_in_loop = [x for x in ast.walk(last.node) if isinstance(x, ast.Return)]
        rep.ob("D-enabled-flag", m, f"{mname}: {EN} reset after the run loop", bool(resets) and not rets_in_loop,
               "after the queue drained the enabled flag is not reset on every exit: the scheduler cannot be started again")
    # E: the clock is either a float or a datetime for the whole life of the scheduler
    vts = repo.fn(V, "VirtualTimeScheduler")
    # the spin guard (a run of same-instant actions) moves the clock forward for BOTH clock kinds
    st = repo.fn(V, "VirtualTimeScheduler.start")
    bumps = {True: [], False: []}
    for s_ in sites(st):
        n_ = s_.node
        if isinstance(n_, ast.AugAssign) and isinstance(n_.op, ast.Add) and u(n_.target) == f"self.{CLK}":
            for e, p_ in s_.ctx.guards:
                if isinstance(e, ast.Call) and call_name(e) == "isinstance" and len(e.args) == 2 and u(e.args[0]) == f"self.{CLK}" and "datetime" in u(e.args[1]):
                    positive = not (isinstance(n_.value, ast.Constant) and not n_.value.value)
                    if positive:
                        bumps[p_].append(s_)
    # the spin counter is the local start() increments once per item; every reset of it applies to both clock kinds
    from ..rules import names_augmented as _na
    for cn in _na(st, ast.Add):
        if cn.startswith("self"):
            continue
        for s_ in sites(st):
            n_ = s_.node
            if isinstance(n_, ast.Assign) and u(n_.targets[0]) == cn and isinstance(n_.value, ast.Constant) and n_.value.value == 0 and s_.ctx.loops:
                kinds_ = [p_ for e, p_ in s_.ctx.guards if isinstance(e, ast.Call) and call_name(e) == "isinstance" and len(e.args) == 2 and u(e.args[0]) == f"self.{CLK}"]
                rep.ob("E-clock-kind", st, f"start(): `{short(n_)}` after a clock move is not specific to one clock kind", not kinds_,
                       f"the spin counter is reset only for {'datetime' if kinds_ and kinds_[0] else 'numeric'} clocks: on the other kind it keeps growing across "
                       f"ordinary time advances, so after 100 items every zero-delay action is taken for a busy spin and runs at a clock bumped "
                       f"past its due time")
    for kind_, nm in ((True, "datetime"), (False, "numeric")):
        rep.ob("E-clock-kind", st, f"start(): the spin guard advances a {nm} clock", bool(bumps[kind_]),
               f"the spin guard of start() does not move a {nm} clock forward: an action that keeps rescheduling itself at the same instant "
               f"never lets virtual time progress, time-based terminators never fire and the run does not finish")
    for mth in vts.children:
        if not mth.is_func or mth.name == "__init__":
            continue
        from ..rules import conditional_defs, expanded_guards
        defs_ = [(s_, v_, f_) for s_, v_, f_ in conditional_defs(mth, lambda t_: u(t_) == f"self.{CLK}")]
        defs_ += [(s_, s_.node.value, expanded_guards(mth, s_.ctx)) for s_ in sites(mth) if isinstance(s_.node, ast.AugAssign) and u(s_.node.target) == f"self.{CLK}"]
        for s_, v_, facts_ in defs_:
            n_ = s_.node
            if True:
                pol = None
                for e, p_ in facts_:
                    if isinstance(e, ast.Call) and call_name(e) == "isinstance" and len(e.args) == 2 and u(e.args[0]) == f"self.{CLK}" and "datetime" in u(e.args[1]):
                        pol = p_
                v = v_
                numeric = (isinstance(v, ast.Constant) and isinstance(v.value, (int, float))) or (isinstance(v, ast.Call) and dotted(v.func) == "self.to_seconds")
                delta = isinstance(v, ast.Call) and call_name(v) == "timedelta"
                ok = pol is not None and not (pol and numeric) and not ((not pol) and delta)
                rep.ob("E-clock-kind", mth, f"{mth.name}: `{short(n_, 50)}` under isinstance(self.{CLK}, datetime) = {pol}", ok,
                       f"VirtualTimeScheduler.{mth.name} updates the clock with `{short(n_, 50)}` without deciding on the clock's kind "
                       f"(or with the other kind's arithmetic): on a datetime (HistoricalScheduler) or numeric clock the statement "
                       f"raises TypeError in the middle of a run and the remaining actions never run")
