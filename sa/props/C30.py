"""C30 — trampoline scheduling is same-thread, FIFO and never nested (S2)."""
from __future__ import annotations

import ast
from typing import Optional

from ..astutil import call_name, compare_norm, dotted, short, u
from ..core import Report
from ..ctx import paths, sites
from ..engines.locks import ClassLocks, discipline, lock_kind
from ..engines.sched import reacquire_sites
from ..frontend import Repo
from ..rules import has_guard
from .common_own import rule_invoke_guard

T = "reactivex/scheduler/trampoline.py"
TS = "reactivex/scheduler/trampolinescheduler.py"
CT = "reactivex/scheduler/currentthreadscheduler.py"


def trampoline_roles(repo: Repo):
    """(idle flag, queue, lock, condition) attribute names of Trampoline, by how __init__ fills them."""
    from .attr_roles import roles
    r = roles(repo, T, "Trampoline")
    return (r.by_const(True, only=True), r.by_call("PriorityQueue"), r.by_call("Lock", "RLock", "threading.Lock", "threading.RLock"),
            r.by_call("Condition", "threading.Condition"))


def check(repo: Repo, rep: Report) -> None:
    T_IDLE, T_Q, T_LK, T_CV = trampoline_roles(repo)
    LOCKS = [f"self.{T_LK}", f"self.{T_CV}"]
    rep.explanation = (
        f"Lock discipline and structure of Trampoline: `{T_IDLE}` and `{T_Q}` are only touched under `{T_LK}` (the "
        "Condition aliases it); run() enqueues and test-and-sets idle in one region, and only the caller that found "
        "the trampoline idle enters the drain loop (a nested schedule only enqueues: never nested execution); invoke() "
        "happens only in _run, outside the lock, under `not is_cancelled()`; an item moves to the ready deque only under "
        "`duetime <= now`; ready is FIFO (append/popleft) and the queue is the stable priority queue; the finally "
        "restores idle under the lock; the lock is non-reentrant and never re-acquired; CurrentThreadScheduler resolves "
        "its trampoline per thread (thread-keyed map / threading.local).")
    rep.assumptions += ["threading.Lock / Condition semantics", "PriorityQueue stability is decided under C28-O2"]
    rep.rule("L1-write-locked", f"writes to {T_IDLE}/{T_Q} under the lock", floor=4)
    rep.rule("L2-read-locked", f"reads of {T_IDLE}/{T_Q} under the lock", floor=5)
    rep.rule("N1-never-nested", "run(): enqueue + idle test-and-set in one region; only the idle-finder drains", floor=3)
    rep.rule("N2-invoke-site", "invoke() only in _run, outside the lock", floor=1)
    rep.rule("N3-due-guard", "items become ready only under duetime <= now", floor=2)
    rep.rule("N4-fifo", "ready deque is FIFO", floor=2)
    rep.rule("N5-idle-restored", "idle restored under the lock in a finally around the drain", floor=1)
    rep.rule("N6-no-reacquire", "the non-reentrant lock is never re-acquired while held", floor=1)
    rep.rule("N7-per-thread", "CurrentThreadScheduler trampolines are per thread", floor=2)
    rep.rule("N8-clamp-relative", "negative relative due times are clamped to zero (a late 'past' item must not overtake earlier ones)", floor=1)
    cls = repo.fn(T, "Trampoline")
    cl = ClassLocks(repo, cls, LOCKS, [f"{T_IDLE}", f"{T_Q}"])
    discipline(rep, cl, "L1-write-locked", "L2-read-locked", what=" (a second thread could run actions concurrently or lose an item)")
    run = repo.fn(T, "Trampoline.run")
    _run = repo.fn(T, "Trampoline._run")

    def ev(n: ast.AST) -> Optional[str]:
        if isinstance(n, ast.Call) and dotted(n.func) == f"self.{T_Q}.enqueue":
            return "ENQ"
        if isinstance(n, ast.Assign) and any(u(t) == f"self.{T_IDLE}" for t in n.targets) and isinstance(n.value, ast.Constant):
            return "IDLE=" + str(n.value.value)
        if isinstance(n, ast.Call) and dotted(n.func) == "self._run":
            return "DRAIN"
        return None
    enq = [s for s in sites(run) if ev(s.node) == "ENQ"]
    busy = [s for s in sites(run) if ev(s.node) == "IDLE=False"]
    rep.require(enq and busy, "enqueue and idle=False in Trampoline.run")
    same = all(cl.held(s) for s in enq + busy) and len({tuple(s.ctx.locks) for s in enq + busy}) == 1 \
        and all(has_guard(s.ctx, f"self.{T_IDLE}", True) for s in busy)
    # both in the same `with` statement
    def with_of(s):
        cur = s.stmt
        par = run.module.parents
        n = s.node
        while n is not None and not isinstance(n, ast.With):
            n = par.get(n)
        return n
    same = same and len({id(with_of(s)) for s in enq + busy}) == 1
    rep.ob("N1-never-nested", run, "enqueue and idle test-and-set in one locked region", same,
           "the item is enqueued and the idle flag tested/set in different regions: two callers can both see idle and "
           "both drain (nested / concurrent execution), or an item is enqueued after the drainer left")
    for p in paths(run, ev):
        if p.exc:
            continue
        k = p.kinds
        idle_true = p.decided(f"self.{T_IDLE}") is True
        idle_false = p.decided(f"self.{T_IDLE}") is False
        desc = f"path[{' ; '.join(f'{t}={v}' for t, v in p.decisions)}] events={k}"
        if idle_false:
            rep.ob("N1-never-nested", run, f"busy trampoline: enqueue only :: {desc}", "ENQ" in k and "DRAIN" not in k,
                   "a caller that found the trampoline busy enters the drain loop: actions run nested inside the running action")
        if idle_true:
            ok = "ENQ" in k and "IDLE=False" in k and "DRAIN" in k and k.index("IDLE=False") < k.index("DRAIN")
            rep.ob("N1-never-nested", run, f"idle trampoline: mark busy then drain :: {desc}", ok,
                   "the caller that found the trampoline idle does not mark it busy before draining (or does not drain)")
    # N2
    for m in cls.children:
        if not m.is_func:
            continue
        for s in sites(m):
            if isinstance(s.node, ast.Call) and isinstance(s.node.func, ast.Attribute) and s.node.func.attr == "invoke":
                rep.ob("N2-invoke-site", m, short(s.node), m is _run and not cl.held(s),
                       "an action is invoked outside _run or while holding the trampoline lock (a nested schedule from the "
                       "action would deadlock on the non-reentrant lock)")
    rule_invoke_guard(repo, rep, "S1-invoke-guard")
    # N3
    for s in sites(_run):
        n = s.node
        if isinstance(n, ast.Call) and (dotted(n.func) == f"self.{T_Q}.dequeue" or (isinstance(n.func, ast.Attribute)
                                                                                  and n.func.attr == "append")):
            ok = False
            for e, p in s.ctx.guards:
                if not p:
                    continue
                r = compare_norm(e, lambda x: u(x).endswith(".duetime"))
                if r and r[0] in ("<=", "<") and u(r[1]).endswith(".now"):
                    ok = True
            rep.ob("N3-due-guard", _run, short(n), ok and cl.held(s),
                   "an item is moved to the ready list without `duetime <= now` dominating: a timed action would run before its due time")
    # N4
    ready_names = {u(s.node.target if isinstance(s.node, ast.AnnAssign) else s.node.targets[0]) for s in sites(_run)
                   if isinstance(s.node, (ast.Assign, ast.AnnAssign)) and isinstance(s.node.value, ast.Call) and call_name(s.node.value) in ("deque", "list")}
    pops = [s for s in sites(_run) if isinstance(s.node, ast.Call) and isinstance(s.node.func, ast.Attribute)
            and dotted(s.node.func.value) in ready_names]
    for s in pops:
        a = s.node.func.attr
        rep.ob("N4-fifo", _run, short(s.node), a in ("append", "popleft"),
               f"ready.{a}() breaks first-in-first-out order of immediately-due actions")
    # N5
    drains = [s for s in sites(run) if ev(s.node) == "DRAIN"]
    restores = [s for s in sites(run) if ev(s.node) == "IDLE=True"]
    def _reraises(h: ast.ExceptHandler) -> bool:
        catches_all = h.type is None or u(h.type) == "BaseException"    # KeyboardInterrupt / CancelledError abort actions too
        return catches_all and any(isinstance(x, ast.Raise) and x.exc is None for x in ast.walk(h))
    def _on_failure(r, d) -> bool:
        # the restore runs when the drain raises: in a `finally`, or in a catch-all handler that re-raises, of a try around it
        if any(t in d.ctx.tries for t in r.ctx.finals):
            return True
        return any(_reraises(h) and any(h in t.handlers for t in d.ctx.tries) for h in r.ctx.handlers)
    ok = bool(drains) and any(_on_failure(r, d) and cl.held(r) for r in restores for d in drains)
    rep.ob("N5-idle-restored", run, f"when the drain raises: with lock: {T_IDLE} = True", ok,
           "idle is not restored (under the lock, on the failure path of the drain) after an action raises: every later "
           "schedule only enqueues and nothing ever runs")
    # N10: an immediate action is due NOW (an absolute time), so that it queues behind timed actions that are already overdue
    rep.rule("N10-immediate-is-now", "TrampolineScheduler.schedule = schedule_absolute(self.now, action, state)", floor=1)
    tsch = repo.fn("reactivex/scheduler/trampolinescheduler.py", "TrampolineScheduler.schedule")
    dels = [x.node for x in sites(tsch) if isinstance(x.node, ast.Call) and dotted(x.node.func) == "self.schedule_absolute"]
    rep.ob("N10-immediate-is-now", tsch, f"schedule: `{short(dels[0], 60) if dels else '?'}`", len(dels) == 1 and dels[0].args and u(dels[0].args[0]) == "self.now",
           "an immediate action is not stamped with the current time (`self.now`) as its absolute due time: with an epoch-zero / relative value it "
           "sorts before every pending timed action, so it overtakes timed actions that are already overdue")
    # N9: the drain -> idle transition is one critical section with the emptiness test that ends the drain
    rep.rule("N9-idle-with-emptiness", "the drain goes idle in the critical section in which it found the queue empty; nothing resets the trampoline after a normal drain", floor=2)
    def _empty(e, p) -> bool:
        r = compare_norm(e, lambda x: u(x) == f"len(self.{T_Q})")
        if r and isinstance(r[1], ast.Constant) and r[1].value == 0:
            return (p and r[0] == "==") or (not p and r[0] in (">", "!="))
        return u(e) == f"self.{T_Q}" and not p
    exits = [s for s in sites(_run) if isinstance(s.node, (ast.Break, ast.Return)) and len(s.ctx.loops) <= 1 and any(_empty(e, p) for e, p in s.ctx.guards)]
    rep.require(exits, "drain exit under an emptiness test of the queue")
    par = _run.module.parents

    def _region(n):
        while n is not None and n is not _run.node:
            if isinstance(n, ast.With):
                return n
            n = par.get(n)
        return None
    idles = [s for s in sites(_run) if ev(s.node) == "IDLE=True"]
    for x in exits:
        reg = _region(x.node)
        ok = reg is not None and cl.held(x) and any(_region(i.node) is reg and i.index < x.index and i.ctx.branch == x.ctx.branch for i in idles)
        rep.ob("N9-idle-with-emptiness", _run, f"`{short(x.stmt, 40)}` under {[short(e, 30) for e, _ in x.ctx.guards]}: {T_IDLE} = True in the same critical section", ok,
               "the drain stops on an empty queue but goes idle in a later critical section (or not under the lock): an item another "
               "thread enqueues in between finds the trampoline busy, is only enqueued, and is never run (or is cleared)")
    after = [r for r in sites(run) if (ev(r.node) == "IDLE=True" or (isinstance(r.node, ast.Call) and dotted(r.node.func) == f"self.{T_Q}.clear"))
             and not any(_reraises(h) for h in r.ctx.handlers)]
    rep.ob("N9-idle-with-emptiness", run, f"no reset of {T_IDLE} / the queue after a normal drain ({len(after)} found)", not after,
           "run() resets the idle flag / clears the queue after a *normal* return of the drain (e.g. in a finally): items enqueued by "
           "another thread since the drain found the queue empty are thrown away, or a drain started by that thread is marked idle "
           "while it runs")
    # N6
    kind = lock_kind(repo, cls, f"{T_LK}")
    bad = reacquire_sites(repo, cls, set(LOCKS)) if kind in ("Lock", "Condition(Lock)") else []
    for m, s, w in bad:
        rep.ob("N6-no-reacquire", m, f"{m.name}: {short(s.node, 40)}", False,
               f"`{short(s.node)}` takes the non-reentrant trampoline lock again while it is held ({w}): deadlock")
    rep.ob("N6-no-reacquire", cls, f"lock kind {kind}; {len(bad)} re-acquisitions", True)
    # N7
    gt = repo.fn(CT, "CurrentThreadScheduler.get_trampoline")
    keys = [s for s in sites(gt) if isinstance(s.node, ast.Assign) and isinstance(s.node.value, ast.Call)
            and call_name(s.node.value) == "current_thread"]
    rep.require(keys, "current_thread() in CurrentThreadScheduler.get_trampoline")
    key = u(keys[0].node.targets[0])
    from .attr_roles import roles as _roles
    TM = _roles(repo, CT, "CurrentThreadScheduler").by_call("WeakKeyDictionary", "dict", "weakref.WeakKeyDictionary")
    lookups = [s for s in sites(gt) if isinstance(s.node, ast.Call) and dotted(s.node.func) == f"self.{TM}.get"
               and s.node.args and u(s.node.args[0]) == key]
    stores = [s for s in sites(gt) if isinstance(s.node, ast.Assign) and any(u(t) == f"self.{TM}[{key}]" for t in s.node.targets)]
    ctor = [s for s in sites(gt) if isinstance(s.node, ast.Call) and call_name(s.node) == "Trampoline"]
    ok = bool(lookups) and bool(stores) and all(has_guard(c.ctx, None, True) or True for c in ctor)
    rets = [s for s in sites(gt) if isinstance(s.node, ast.Return)]
    ok = ok and all(isinstance(r.node.value, ast.Name) for r in rets)
    rep.ob("N7-per-thread", gt, "trampoline looked up / stored under current_thread()", ok,
           "CurrentThreadScheduler does not resolve its trampoline by the calling thread: threads would share one queue")
    sg = repo.fn(CT, "CurrentThreadSchedulerSingleton.get_trampoline")
    rets = [s for s in sites(sg) if isinstance(s.node, ast.Return)]
    ok = bool(rets)
    why = ""
    for r in rets:
        v = r.node.value
        good = False
        # <Class>._local.tramp where _local = <threading.local subclass>() creating a Trampoline per thread
        if isinstance(v, ast.Attribute) and isinstance(v.value, ast.Attribute):
            holder = v.value.attr
            scls = sg.parent
            for n in scls.direct_nodes():
                if isinstance(n, ast.Assign) and u(n.targets[0]) == holder and isinstance(n.value, ast.Call):
                    lc = repo.resolve_expr(scls, n.value.func)
                    if lc is not None and lc.is_class and any(u(b) in ("local", "threading.local") for b in lc.node.bases):
                        init = lc.child("__init__")
                        good = init is not None and any(isinstance(s.node, ast.Assign) and u(s.node.targets[0]) == f"self.{v.attr}"
                                                        and isinstance(s.node.value, ast.Call) and call_name(s.node.value) == "Trampoline"
                                                        for s in sites(init))
        # map lookup keyed by current_thread()
        if isinstance(v, ast.Name):
            good = any(isinstance(s.node, ast.Assign) and u(s.node.targets[0]) == v.id and "current_thread" in
                       " ".join(u(x.node.value) for x in sites(sg) if isinstance(x.node, ast.Assign)) for s in sites(sg))
        if not good:
            why = f"returns `{u(v)}`"
        ok = ok and good
    rep.ob("N7-per-thread", sg, "singleton trampoline is thread-local (threading.local / keyed by current_thread())", ok,
           f"the singleton scheduler's trampoline is not resolved per thread ({why}): an instance used from a second thread "
           f"shares the first thread's queue — its actions run later on the other thread")
    rel = repo.fn(TS, "TrampolineScheduler.schedule_relative")
    clamp = [s for s in sites(rel) if isinstance(s.node, ast.Call) and isinstance(s.node.func, ast.Name) and s.node.func.id == "max"
             and any(u(a) in ("DELTA_ZERO", "timedelta(0)") for a in s.node.args) and any(rel.params[1] in u(a) for a in s.node.args)]
    fwd = [s for s in sites(rel) if isinstance(s.node, ast.Call) and dotted(s.node.func) == "self.schedule_absolute"]
    ok = len(clamp) == 1 and len(fwd) == 1 and isinstance(clamp[0].stmt, ast.Assign) and u(clamp[0].stmt.targets[0]) in u(fwd[0].node.args[0]) \
        and "self.now" in u(fwd[0].node.args[0]) and clamp[0].index < fwd[0].index
    rep.ob("N8-clamp-relative", rel, "duetime = max(DELTA_ZERO, to_timedelta(duetime)); schedule_absolute(now + duetime)", ok,
           "a negative relative due time is not clamped to zero: the item is due in the past and overtakes actions scheduled "
           "earlier for 'now' (first-scheduled-first among equal due times is lost)")
    sr = repo.fn(TS, "TrampolineScheduler.schedule_required")
    ok = any(isinstance(s.node, ast.Return) and u(s.node.value) == "self.get_trampoline().idle()" for s in sites(sr))
    rep.ob("N7-per-thread", sr, "schedule_required = trampoline.idle()", ok, "schedule_required does not reflect the trampoline's idle state")
    sa = repo.fn(TS, "TrampolineScheduler.schedule_absolute")
    ok = any(isinstance(s.node, ast.Call) and u(s.node.func) == "self.get_trampoline().run" for s in sites(sa))
    rep.ob("N7-per-thread", sa, "schedule_absolute runs the item on get_trampoline()", ok,
           "items are not handed to the (per-thread) trampoline")
