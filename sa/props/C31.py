"""C31 — an event-loop scheduler runs actions serially on one thread, in order (S2)."""
from __future__ import annotations

import ast
from typing import Optional

from ..astutil import call_name, compare_norm, dotted, short, u
from ..core import Report
from ..ctx import sites, dominates
from ..engines.locks import ClassLocks, discipline, lock_kind
from ..engines.sched import reacquire_sites
from ..frontend import Repo
from ..rules import has_guard
from .common_own import rule_invoke_guard

E = "reactivex/scheduler/eventloopscheduler.py"


def eventloop_roles(repo: Repo):
    """(thread, condition, disposed flag, timed queue, ready list, thread factory, exit-if-empty) attribute names of
    EventLoopScheduler, by how __init__ fills them."""
    from .attr_roles import roles
    r = roles(repo, E, "EventLoopScheduler")
    return (r.by_const(None, only=True), r.by_call("Condition", "threading.Condition"), r.by_const(False, only=True), r.by_call("PriorityQueue"),
            r.by_call("deque", "collections.deque"), r.by_param_index(0), r.by_param_index(1))


def check(repo: Repo, rep: Report) -> None:
    E_TH, E_CV, E_DISP, E_Q, E_RL, E_TF, E_EX = eventloop_roles(repo)
    FIELDS = [E_RL, E_Q, E_TH, E_DISP]
    rep.explanation = (
        f"Lock discipline and structure of EventLoopScheduler: {E_RL}/{E_Q}/{E_TH}/{E_DISP} are accessed only "
        f"under `{E_CV}` (the lock-free `{E_DISP}` pre-checks are monotone early raises; `_ensure_thread` is only "
        "called with the condition held); actions are invoked only in run(), outside the lock, under `not is_cancelled()`; "
        "run is the only target handed to the thread factory and a thread is created only when none exists (single "
        "consumer); timed items are dequeued only when not (due > now); the disposed test is the first statement of each "
        f"loop iteration under the condition; exit_if_empty clears `{E_TH}` in the region that decides emptiness; "
        "ready lists are FIFO; dispose is a locked test-and-set that wakes the loop; the non-reentrant condition is "
        "never re-acquired.")
    rep.assumptions += ["threading.Condition/Lock semantics", "deque.append/popleft are FIFO"]
    rep.rule("L1-write-locked", "writes to guarded fields under the condition", floor=6)
    rep.rule("L2-read-locked", "reads of guarded fields under the condition (monotone early raise excepted)", floor=10)
    rep.rule("E2-invoke-site", "invoke() only in run(), outside the lock", floor=1)
    rep.rule("E3-single-consumer", "one loop thread: created only when none exists, target is run", floor=3)
    rep.rule("E4-due-guard", "timed items dequeued only when not (due > now)", floor=1)
    rep.rule("E5-disposed-first", "disposed test first in every loop iteration, under the condition", floor=1)
    rep.rule("E6-exit-if-empty", "thread slot cleared in the region that decides emptiness", floor=1)
    rep.rule("E7-fifo", "immediate actions FIFO; schedule enqueues+notifies+ensures thread in one region", floor=4)
    rep.rule("E8-dispose", "dispose: locked test-and-set + notify; schedule* raise DisposedException once disposed", floor=3)
    rep.rule("E10-clamp-relative", "negative relative due times are clamped to zero", floor=1)
    rep.rule("E9-no-reacquire", "the non-reentrant condition is never re-acquired while held", floor=1)
    cls = repo.fn(E, "EventLoopScheduler")
    cl = ClassLocks(repo, cls, [f"self.{E_CV}"], FIELDS)
    discipline(rep, cl, "L1-write-locked", "L2-read-locked",
               what=" (scheduling threads and the loop thread race on the queues / thread slot)")
    run = repo.fn(E, "EventLoopScheduler.run")
    # E2
    for m in cls.children:
        if m.is_func:
            for s in sites(m):
                if isinstance(s.node, ast.Call) and isinstance(s.node.func, ast.Attribute) and s.node.func.attr == "invoke":
                    rep.ob("E2-invoke-site", m, short(s.node), m is run and not cl.held(s),
                           "an action is invoked outside run() (a second thread runs actions) or while holding the condition")
    rule_invoke_guard(repo, rep, "S1-invoke-guard")
    # E3
    et = repo.fn(E, "EventLoopScheduler._ensure_thread")
    mk = [s for s in sites(et) if isinstance(s.node, ast.Call) and dotted(s.node.func) == f"self.{E_TF}"]
    rep.require(mk, "thread creation in _ensure_thread")
    for s in mk:
        ok = has_guard(s.ctx, f"self.{E_TH}", False) and s.node.args and u(s.node.args[0]) == "self.run"
        rep.ob("E3-single-consumer", et, short(s.node), ok,
               "a loop thread is created although one exists, or its target is not run(): two threads would run actions")
    st = [s for s in sites(et) if isinstance(s.node, ast.Assign) and any(u(t) == f"self.{E_TH}" for t in s.node.targets)]
    rep.ob("E3-single-consumer", et, f"self.{E_TH} = thread", bool(st) and all(has_guard(s.ctx, f"self.{E_TH}", False) for s in st),
           "the created thread is not recorded (every schedule would start another thread)")
    rep.ob("E3-single-consumer", et, "_ensure_thread only called with the condition held", cl.helper_always_called_locked(et),
           "_ensure_thread is called without the condition: two schedulers-threads could both create a loop thread")
    others = [s for m in cls.children if m.is_func and m is not et for s in sites(m)
              if isinstance(s.node, ast.Call) and dotted(s.node.func) == f"self.{E_TF}"]
    rep.ob("E3-single-consumer", cls, "no other thread creation", not others, "a thread is created outside _ensure_thread")
    # E4
    deq = [s for s in sites(run) if isinstance(s.node, ast.Call) and dotted(s.node.func) == f"self.{E_Q}.dequeue"]
    rep.require(deq, "dequeue in run")
    due_defs = [x for x in sites(run) if isinstance(x.node, ast.Assign) and u(x.node.value) == f"self.{E_Q}.peek().duetime"]
    time_defs = [x for x in sites(run) if isinstance(x.node, ast.Assign) and u(x.node.value) == "self.now"]
    due_names = {u(x.node.targets[0]) for x in due_defs}
    for s in deq:
        ok = False
        tdefs = [x for x in time_defs if x.ctx.locks == s.ctx.locks and x.index < s.index]
        tnames = {u(x.node.targets[0]) for x in tdefs}
        for e, p in s.ctx.guards:
            r = compare_norm(e, lambda x: u(x) in due_names)
            if p and r and r[0] in ("<=", "<") and u(r[1]) in tnames:
                ok = True
        rep.ob("E4-due-guard", run, short(s.node), ok and bool(due_defs) and bool(tdefs) and cl.held(s),
               "a timed item is dequeued without `due <= now` dominating (due = head of queue, now read in the same "
               "region): a timed action would run early")
    # E5
    loops = [s for s in sites(run) if isinstance(s.node, ast.While) and not s.ctx.loops]
    rep.require(len(loops) == 1, "outer loop in run")
    from ..astutil import effective
    body = effective(loops[0].node.body)
    first = body[0] if body else None
    fb = effective(first.body) if isinstance(first, ast.With) else []
    ok = isinstance(first, ast.With) and u(first.items[0].context_expr) == f"self.{E_CV}" and fb \
        and isinstance(fb[0], ast.If) and u(fb[0].test) == f"self.{E_DISP}" \
        and any(isinstance(x, ast.Return) for x in fb[0].body)
    rep.ob("E5-disposed-first", run, f"while True: with condition: if {E_DISP}: return", bool(ok),
           "the loop does not test the disposed flag first thing in every iteration under the condition: items scheduled "
           "or pending after dispose() could still run")
    # E6
    clears = [s for s in sites(run) if isinstance(s.node, ast.Assign) and any(u(t) == f"self.{E_TH}" for t in s.node.targets)
              and isinstance(s.node.value, ast.Constant) and s.node.value.value is None]
    rep.require(clears, f"self.{E_TH} = None in run")
    for s in clears:
        ok = cl.held(s) and has_guard(s.ctx, f"self.{E_RL}", False) and has_guard(s.ctx, f"self.{E_Q}", False) \
            and has_guard(s.ctx, f"self.{E_EX}", True)
        nxt = [x for x in sites(run) if isinstance(x.node, ast.Return) and x.ctx.branch == s.ctx.branch and x.index > s.index]
        rep.ob("E6-exit-if-empty", run, short(s.stmt), ok and bool(nxt),
               "the thread slot is cleared without the emptiness of both lists being decided in the same locked region (a "
               "concurrently scheduled item would be stranded without a thread), or the loop does not exit after clearing it")
    # E7
    sa = repo.fn(E, "EventLoopScheduler.schedule_absolute")
    app = [s for s in sites(sa) if isinstance(s.node, ast.Call) and dotted(s.node.func) == f"self.{E_RL}.append"]
    enq = [s for s in sites(sa) if isinstance(s.node, ast.Call) and dotted(s.node.func) == f"self.{E_Q}.enqueue"]
    nt = [s for s in sites(sa) if isinstance(s.node, ast.Call) and dotted(s.node.func) == f"self.{E_CV}.notify"]
    en = [s for s in sites(sa) if isinstance(s.node, ast.Call) and dotted(s.node.func) == "self._ensure_thread"]
    ok = all([app, enq, nt, en]) and all(cl.held(s) for s in app + enq + nt + en) and not nt[0].ctx.branch and not en[0].ctx.branch
    rep.ob("E7-fifo", sa, "append|enqueue, notify, ensure_thread in one region", ok,
           "a scheduled item is not enqueued, signalled and given a thread in one locked region (lost wake-up)")
    dt_names = {u(x.node.targets[0]) for x in sites(sa) if isinstance(x.node, ast.Assign) and isinstance(x.node.value, ast.Call)
                and dotted(x.node.value.func) == "self.to_datetime"}
    ok = False
    for s in app:
        for e, p in s.ctx.guards:
            r = compare_norm(e, lambda x: u(x) in dt_names)
            if p and r and r[0] in ("<=", "<") and u(r[1]) == "self.now":
                ok = True
    rep.ob("E7-fifo", sa, "ready only if dt <= now", ok, "an item with a future due time is put on the immediate list")
    ready_names = {u(x.node.target if isinstance(x.node, ast.AnnAssign) else x.node.targets[0]) for x in sites(run)
                   if isinstance(x.node, (ast.Assign, ast.AnnAssign)) and isinstance(x.node.value, ast.Call) and call_name(x.node.value) == "deque"}
    for s in sites(run):
        n = s.node
        if isinstance(n, ast.Call) and isinstance(n.func, ast.Attribute) and dotted(n.func.value) in (ready_names | {f"self.{E_RL}"}):
            rep.ob("E7-fifo", run, short(n), n.func.attr in ("append", "popleft"),
                   f"{short(n)} breaks submission order of immediately-due actions")
    # E8
    d = repo.fn(E, "EventLoopScheduler.dispose")
    sets = [s for s in sites(d) if isinstance(s.node, ast.Assign) and any(u(t) == f"self.{E_DISP}" for t in s.node.targets)]
    ok = bool(sets) and all(cl.held(s) and isinstance(s.node.value, ast.Constant) and s.node.value.value is True for s in sets)
    ntf = [s for s in sites(d) if isinstance(s.node, ast.Call) and dotted(s.node.func) in (f"self.{E_CV}.notify", f"self.{E_CV}.notify_all")]
    rep.ob("E8-dispose", d, "locked set + notify", ok and bool(ntf) and all(cl.held(s) for s in ntf),
           "dispose does not set the flag under the condition and wake the loop")
    for mname in ("schedule_absolute", "schedule_periodic"):
        m = repo.fn(E, f"EventLoopScheduler.{mname}")
        ok = any(isinstance(s.node, ast.Raise) and "DisposedException" in u(s.node.exc) and has_guard(s.ctx, f"self.{E_DISP}", True)
                 for s in sites(m))
        first_eff = [s for s in sites(m) if isinstance(s.node, ast.Call) and call_name(s.node) in ("ScheduledItem", "schedule_periodic", "append", "enqueue")]
        raises = [s for s in sites(m) if isinstance(s.node, ast.Raise)]
        ok = ok and all(raises[0].index < e.index for e in first_eff)
        rep.ob("E8-dispose", m, f"{mname}: raise DisposedException when disposed, before any effect", ok,
               "scheduling on a disposed scheduler does not raise DisposedException")
    rel = repo.fn(E, "EventLoopScheduler.schedule_relative")
    clamp = [s for s in sites(rel) if isinstance(s.node, ast.Call) and isinstance(s.node.func, ast.Name) and s.node.func.id == "max"
             and any(u(a) in ("DELTA_ZERO", "timedelta(0)") for a in s.node.args) and any(rel.params[1] in u(a) for a in s.node.args)]
    fwd = [s for s in sites(rel) if isinstance(s.node, ast.Call) and dotted(s.node.func) == "self.schedule_absolute"]
    ok = len(clamp) == 1 and len(fwd) == 1 and isinstance(clamp[0].stmt, ast.Assign) and u(clamp[0].stmt.targets[0]) in u(fwd[0].node.args[0]) \
        and "self.now" in u(fwd[0].node.args[0])
    rep.ob("E10-clamp-relative", rel, "duetime = max(DELTA_ZERO, to_timedelta(duetime)); schedule_absolute(now + duetime)", ok,
           "a negative relative due time is not clamped to zero: the item overtakes actions submitted earlier (submission order lost)")
    # E9
    kind = lock_kind(repo, cls, f"{E_CV}")
    bad = reacquire_sites(repo, cls, {f"self.{E_CV}"}) if kind in ("Lock", "Condition(Lock)") else []
    for m, s, w in bad:
        rep.ob("E9-no-reacquire", m, f"{m.name}: {short(s.node, 40)}", False,
               f"`{short(s.node)}` takes the non-reentrant condition again while it is held ({w}): deadlock")
    rep.ob("E9-no-reacquire", cls, f"lock kind {kind}; {len(bad)} re-acquisitions", True)
