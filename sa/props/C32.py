"""C32 — observe_on delivers every notification once, in order, serially (S2)."""
from __future__ import annotations

import ast
from typing import Optional

from ..astutil import call_name, dotted, short, u
from ..core import Report
from ..ctx import paths, sites, dominates
from ..engines.locks import ClassLocks, field_of
from ..frontend import Repo
from ..model import resolve_callable, subscribe_slots, is_subscribe_call
from ..rules import has_guard

SO = "reactivex/observer/scheduledobserver.py"
OO = "reactivex/observer/observeonobserver.py"
OP = "reactivex/operators/_observeon.py"
CORES = ("_on_next_core", "_on_error_core", "_on_completed_core")
KIND = {"_on_next_core": "on_next", "_on_error_core": "on_error", "_on_completed_core": "on_completed"}


def check(repo: Repo, rep: Report) -> None:
    rep.explanation = (
        "Producer/consumer handshake of ScheduledObserver / ObserveOnObserver: each *_core enqueues an action that "
        "delivers exactly its own notification kind to the downstream observer, and enqueues *before* ensure_active() "
        "(program order in the producing thread); ensure_active decides ownership (is_acquired test-and-set, queue "
        "non-empty, not faulted) in one locked region and schedules run outside it under the local; run pops — or "
        "releases ownership — in the same locked region as the emptiness test (no lost wake-up: either the drain sees "
        "the item or the producer sees is_acquired == False), pops from the front (FIFO), runs one item outside the "
        "lock, re-schedules itself only after the item returned (serial), and on an exception clears the queue and "
        "latches has_faulted under the lock before re-raising; deliveries happen nowhere else; observe_on_ wires the "
        "three slots of the source subscription to one ObserveOnObserver.")
    rep.assumptions += ["list.append / list.pop(0) are atomic in CPython (the enqueue itself is outside the lock by design)",
                        "RLock semantics; the target scheduler runs each scheduled run() once"]
    rep.rule("Q1-enqueue-own-kind", "each *_core enqueues one action delivering its own kind with its own argument", floor=3)
    rep.rule("Q2-enqueue-before-activate", "ObserveOnObserver: super().*_core (enqueue) dominates ensure_active()", floor=3)
    rep.rule("Q3-ownership", "ensure_active: is_acquired test-and-set with queue/fault test in one region; schedule outside under the local", floor=3)
    rep.rule("Q4-release-with-emptiness", "run: pop(0) or release is_acquired in the region that tests emptiness; one item per run; reschedule after the item", floor=5)
    rep.rule("Q5-fault-latch", "exception: queue cleared + has_faulted set under the lock, then re-raised", floor=2)
    rep.rule("Q6-delivery-sites", "the downstream observer is called only from enqueued actions; is_acquired/has_faulted written only under the lock", floor=2)
    rep.rule("Q7-wiring", "observe_on_ subscribes one ObserveOnObserver(scheduler, observer) with its three entry points", floor=2)
    so = repo.fn(SO, "ScheduledObserver")
    cl = ClassLocks(repo, so, ["self.lock"], ["is_acquired", "has_faulted"])
    # Q1
    for core in CORES:
        m = repo.fn(SO, f"ScheduledObserver.{core}")
        apps = [s for s in sites(m) if isinstance(s.node, ast.Call) and dotted(s.node.func) == "self.queue.append"]
        ok = len(apps) == 1 and not apps[0].ctx.branch
        detail = "does not enqueue exactly one action unconditionally"
        if ok:
            t = resolve_callable(m, apps[0].node.args[0])
            ok = t.kind == "fn"
            if ok:
                calls = [x for x in sites(t.fn) if isinstance(x.node, ast.Call)]
                want = f"self.observer.{KIND[core]}"
                args = [u(a) for a in calls[0].node.args] if calls else []
                ok = len(calls) == 1 and dotted(calls[0].node.func) == want and args == m.params[1:] and not calls[0].ctx.branch
                detail = f"the enqueued action does not deliver exactly `{want}({', '.join(m.params[1:])})`"
        rep.ob("Q1-enqueue-own-kind", m, core, ok, f"{core}: {detail}: a notification would be lost, duplicated or changed")
        for s in sites(m):
            if isinstance(s.node, ast.Call) and (dotted(s.node.func) or "").startswith("self.observer."):
                rep.ob("Q6-delivery-sites", m, short(s.node), False,
                       "the downstream observer is called synchronously on the producer's thread instead of through the queue")
    # Q2
    oo = repo.fn(OO, "ObserveOnObserver")
    for core in CORES:
        m = repo.fn(OO, f"ObserveOnObserver.{core}")
        sup = [s for s in sites(m) if isinstance(s.node, ast.Call) and dotted(s.node.func) == f"super().{core}"]
        act = [s for s in sites(m) if isinstance(s.node, ast.Call) and dotted(s.node.func) == "self.ensure_active"]
        ok = len(sup) == 1 and len(act) >= 1 and all(dominates(sup[0], a) for a in act) and not act[-1].ctx.branch \
            and [u(a) for a in sup[0].node.args] == m.params[1:]
        rep.ob("Q2-enqueue-before-activate", m, core, ok,
               "ensure_active() is not preceded by the enqueue on every path (or is missing): the drain can miss the "
               "notification and nobody is woken up for it — it stays undelivered while the scheduler is idle")
    # Q3
    ea = repo.fn(SO, "ScheduledObserver.ensure_active")
    acq = [s for s in sites(ea) if isinstance(s.node, ast.Assign) and any(field_of(t) == "is_acquired" for t in s.node.targets)]
    if not acq:
        rep.ob("Q3-ownership", ea, "ensure_active: the caller that finds the observer idle takes ownership (is_acquired = True)", False,
               "ensure_active never sets is_acquired: every notification finds the drain un-owned and starts another drain loop — "
               "notifications are delivered concurrently / out of order")
    for s in acq:
        ok = cl.held(s) and isinstance(s.node.value, ast.Constant) and s.node.value.value is True \
            and has_guard(s.ctx, "self.has_faulted", False) and has_guard(s.ctx, "self.queue", True)
        rep.ob("Q3-ownership", ea, short(s.stmt), ok,
               "ownership is taken without holding the lock or without (not faulted and queue non-empty) decided in the same region")
    owner_defs = [s for s in sites(ea) if isinstance(s.node, ast.Assign) and u(s.node.value) == "not self.is_acquired"]
    ok = bool(owner_defs) and all(cl.held(s) and any(s.index < a.index and a.ctx.branch == s.ctx.branch for a in acq) for s in owner_defs)
    rep.ob("Q3-ownership", ea, "is_owner = not self.is_acquired (before the set, same region)", ok,
           "the previous value of is_acquired is not captured in the region that sets it: two producers could both schedule "
           "a drain (two deliveries at once) or none does")
    sch = [s for s in sites(ea) if isinstance(s.node, ast.Call) and dotted(s.node.func) == "self.scheduler.schedule"]
    ok = len(sch) == 1 and not cl.held(sch[0]) and owner_defs and has_guard(sch[0].ctx, u(owner_defs[0].node.targets[0]), True) \
        and sch[0].node.args and u(sch[0].node.args[0]) == "self.run"
    rep.ob("Q3-ownership", ea, "schedule(self.run) iff owner, outside the lock", bool(ok),
           "the drain is not scheduled exactly when this call took ownership")
    # Q4
    run = repo.fn(SO, "ScheduledObserver.run")
    work_names = {u(s.node.targets[0]) for s in sites(run) if isinstance(s.node, ast.Assign) and isinstance(s.node.value, ast.Call)
                  and isinstance(s.node.value.func, ast.Attribute) and s.node.value.func.attr == "pop"}

    def ev(n: ast.AST) -> Optional[str]:
        if isinstance(n, ast.Call) and isinstance(n.func, ast.Attribute) and n.func.attr == "pop" \
                and (dotted(n.func.value) or "").endswith(".queue"):
            return "POP:" + (u(n.args[0]) if n.args else "")
        if isinstance(n, ast.Assign) and any(isinstance(t, ast.Attribute) and t.attr == "is_acquired" for t in n.targets):
            return "RELEASE" if isinstance(n.value, ast.Constant) and n.value.value is False else "ACQ?"
        if isinstance(n, ast.Call) and isinstance(n.func, ast.Name) and n.func.id in work_names:
            return "WORK"
        if isinstance(n, ast.Call) and dotted(n.func) == "self.scheduler.schedule":
            return "RESCHED"
        if isinstance(n, ast.Assign) and any(isinstance(t, ast.Attribute) and t.attr == "has_faulted" for t in n.targets):
            return "FAULT"
        if isinstance(n, ast.Assign) and any(isinstance(t, ast.Attribute) and t.attr == "queue" for t in n.targets):
            return "CLEARQ"
        return None
    pops = [s for s in sites(run) if (ev(s.node) or "").startswith("POP")]
    rels = [s for s in sites(run) if ev(s.node) == "RELEASE"]
    if not (pops and rels):
        rep.ob("Q4-release-with-emptiness", run, "run takes ONE queued notification per turn (pop under the lock) and releases ownership when none is left", False,
               "ScheduledObserver.run no longer pops a single notification under the lock / releases ownership in the critical section that found the "
               "queue empty (a batch copied and cleared, ...): producers append without the lock — a notification enqueued in between is dropped, or left "
               "behind with the drain marked as still running")
        return
    for s in pops:
        g = any(u(e).endswith(".queue") and p for e, p in s.ctx.guards)
        rep.ob("Q4-release-with-emptiness", run, short(s.node), cl.held(s) and g and ev(s.node) == "POP:0",
               "the item is not popped from the front under the lock inside the emptiness test (order / exactly-once lost)")
    for s in rels:
        g = any(u(e).endswith(".queue") and not p for e, p in s.ctx.guards)
        same_with = any(s.ctx.locks == p_.ctx.locks and s.ctx.branch[:-1] == p_.ctx.branch[:-1] for p_ in pops)
        rep.ob("Q4-release-with-emptiness", run, short(s.stmt), cl.held(s) and g and same_with,
               "ownership is released outside the locked region that found the queue empty: a producer can enqueue between "
               "the test and the release, see is_acquired still True, and its notification is never delivered (lost wake-up)")
    for p in paths(run, ev):
        k = [x.split(":")[0] for x in p.kinds]
        desc = f"path[{' ; '.join(f'{t}={v}' for t, v in p.decisions) or 'straight'}] end={p.end} exc={p.exc} events={k}"
        if p.exc or p.end == "raise":
            if "WORK" in k or p.exc:
                ok = "FAULT" in k and "CLEARQ" in k and p.end == "raise" and "RESCHED" not in k
                rep.ob("Q5-fault-latch", run, f"failing delivery :: {desc}", ok,
                       "after a delivery raises, the queue is not cleared / has_faulted not latched / the exception not "
                       "re-raised, or the drain continues: further notifications would be delivered")
            continue
        if "POP" in k:
            ok = k.count("POP") == 1 and k.count("WORK") == 1 and k.count("RESCHED") == 1 and \
                k.index("POP") < k.index("WORK") < k.index("RESCHED") and "RELEASE" not in k
            rep.ob("Q4-release-with-emptiness", run, f"one item per run, reschedule after it returned :: {desc}", ok,
                   "a run() that popped an item does not deliver exactly that one item and then re-schedule itself (serial, "
                   "exactly-once, keeps draining)")
        else:
            ok = k == ["RELEASE"] and p.end == "return"
            rep.ob("Q4-release-with-emptiness", run, f"empty queue: release and stop :: {desc}", ok,
                   "with an empty queue run() does not just release ownership and return")
    for s in sites(run):
        if ev(s.node) in ("FAULT", "CLEARQ"):
            rep.ob("Q5-fault-latch", run, short(s.stmt), cl.held(s) and bool(s.ctx.handlers),
                   "fault state is not written under the lock inside the exception handler")
        if ev(s.node) == "WORK":
            rep.ob("Q4-release-with-emptiness", run, "work() outside the lock", not cl.held(s),
                   "the delivery runs while holding the observer lock")
    # Q6: writes of is_acquired / has_faulted only under lock, anywhere in both classes
    for k in (so, oo):
        for m in k.children:
            if not m.is_func or m.name == "__init__":
                continue
            for g in m.walk():
                if not g.is_func:
                    continue
                for s in sites(g):
                    n = s.node
                    if isinstance(n, ast.Attribute) and n.attr in ("is_acquired", "has_faulted") and isinstance(n.ctx, ast.Store):
                        rep.ob("Q6-delivery-sites", g, short(s.stmt), cl.held(s),
                               f"`{short(s.stmt)}` writes handshake state outside the lock")
                    if isinstance(n, ast.Call) and (dotted(n.func) or "").startswith("self.observer.") and g.parent is not None \
                            and not (g.parent.is_func and g.parent.name in CORES):
                        rep.ob("Q6-delivery-sites", g, short(n), False, "downstream observer called outside an enqueued action")
    # single writer of the serial disposable that holds the scheduled drain: assigning a SerialDisposable cancels
    # the previously stored (possibly already re-scheduled, still pending) drain step
    rep.rule("Q8-single-writer", "only ensure_active stores into the SerialDisposable holding the scheduled drain", floor=1)
    for k in (so, oo):
        for m in k.children:
            if not m.is_func or m.name == "__init__":
                continue
            for g in m.walk():
                if g.is_func:
                    for s in sites(g):
                        n = s.node
                        if isinstance(n, ast.Assign) and any(u(t) == "self.disposable.disposable" for t in n.targets):
                            rep.ob("Q8-single-writer", g, short(n, 70), g is ea,
                                   "a second site assigns the SerialDisposable that holds the scheduled drain: the assignment in "
                                   "ensure_active (made outside the lock) can then dispose a drain step that run() already "
                                   "re-scheduled — the drain stops with is_acquired still set and later notifications stay undelivered")
    d = repo.fn(SO, "ScheduledObserver.dispose")
    ok = any(isinstance(s.node, ast.Call) and dotted(s.node.func) == "super().dispose" for s in sites(d)) and \
        any(isinstance(s.node, ast.Call) and dotted(s.node.func) == "self.disposable.dispose" for s in sites(d))
    rep.ob("Q6-delivery-sites", d, "dispose stops the observer and cancels the scheduled drain", ok,
           "dispose() does not stop the observer / cancel the pending drain")
    # Q7
    sub = repo.fn(OP, "observe_on_.subscribe")
    calls = [s for s in sites(sub) if is_subscribe_call(s.node)]
    rep.require(len(calls) == 1, "source.subscribe in observe_on_")
    c = calls[0].node
    from ..rules import inline_locals as _inl
    a0 = _inl(sub, c.args[0]) if c.args else None
    ok = isinstance(a0, ast.Call) and call_name(a0) == "ObserveOnObserver" and [u(x) for x in a0.args] == ["scheduler", sub.params[0]]
    rep.ob("Q7-wiring", sub, short(c, 80), ok, "observe_on_ does not subscribe an ObserveOnObserver(scheduler, observer)")
    ok = any(isinstance(s.node, ast.Return) and s.node.value is c for s in sites(sub))
    rep.ob("Q7-wiring", sub, "returns the source subscription", ok, "the source subscription is not returned")
