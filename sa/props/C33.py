"""C33 — cancelling an asyncio-scheduled action is effective from any thread (S2)."""
from __future__ import annotations

import ast
from typing import Optional

from ..astutil import call_name, dotted, short, u
from ..core import Report
from ..ctx import paths, sites, dominates
from ..frontend import Repo
from ..model import resolve_callable
from ..rules import has_guard

TS = "reactivex/scheduler/eventloop/asynciothreadsafescheduler.py"
AS = "reactivex/scheduler/eventloop/asyncioscheduler.py"
PRED = "_on_self_loop_or_not_running"


def cancels_in(fn, seen=None):
    """(fn, site) of every `X.cancel()` reachable from fn through local helper calls."""
    seen = seen if seen is not None else set()
    if id(fn) in seen:
        return []
    seen.add(id(fn))
    out = []
    for s in sites(fn):
        n = s.node
        if isinstance(n, ast.Call) and isinstance(n.func, ast.Attribute) and n.func.attr == "cancel":
            out.append((fn, s))
    return out


def check(repo: Repo, rep: Report) -> None:
    from .attr_roles import roles as _roles
    LP = _roles(repo, AS, "AsyncIOScheduler").by_param_index(0)      # the attribute holding the event loop
    rep.explanation = (
        "Structure of the thread-safe asyncio scheduler's dispose closures: every handle.cancel() reachable from a "
        "dispose closure is either (i) dominated by the predicate _on_self_loop_or_not_running() (we are on the loop "
        "thread or the loop does not run: direct cancel is safe and waiting would deadlock) or (ii) executed inside a "
        "callback handed to call_soon_threadsafe whose completion the disposer awaits with future.result() before "
        "returning (so once dispose() returned the cancel has happened on the loop thread, after any stage queued "
        "before it). Return-value analysis of the predicate: it may return a truthy constant only on a path dominated "
        f"by `not self.{LP}.is_running()`; the path on which get_running_loop() raises (a foreign thread while the loop "
        f"runs) must return a falsy constant; every other return is the comparison of self.{LP} with the running loop. "
        "Scheduling uses the *_threadsafe entry points; both schedulers pass the delay unchanged and hold the cancel "
        "disposable in the returned composite.")
    rep.assumptions += ["asyncio: callbacks queued with call_soon_threadsafe run in FIFO order on the loop thread",
                        "concurrent.futures.Future.result() blocks until set_result"]
    rep.rule("P1-predicate-returns", "return-value analysis of _on_self_loop_or_not_running", floor=3)
    rep.rule("P2-cancel-marshalled-or-dominated", "every cancel reachable from a dispose closure is dominated by the "
                                                   "predicate or marshalled-and-awaited", floor=4)
    rep.rule("P3-threadsafe-entry", "the thread-safe scheduler enters the loop only through call_soon_threadsafe", floor=3)
    rep.rule("P4-held-and-delay", "cancel disposable is in the returned composite; the delay handed to call_later is "
                                  "to_seconds(duetime); non-positive delays run through schedule", floor=6)
    pred = repo.fn(TS, f"AsyncIOThreadSafeScheduler.{PRED}")
    # P1 -----------------------------------------------------------------
    n_ret = 0
    for s in sites(pred):
        if not isinstance(s.node, ast.Return):
            continue
        n_ret += 1
        v = s.node.value
        in_handler = bool(s.ctx.handlers)
        if isinstance(v, ast.Constant):
            if in_handler:
                catches = [u(h.type) if h.type is not None else "*" for h in s.ctx.handlers]
                ok = not bool(v.value)
                rep.ob("P1-predicate-returns", pred, f"except {catches}: return {v.value!r}", ok,
                       "on the path where asyncio.get_running_loop() raises (no loop in this thread, i.e. a foreign thread "
                       "while the loop is running) the predicate answers 'on the loop / not running': dispose() then "
                       "cancels handles directly from the foreign thread instead of marshalling, racing the loop thread")
            elif bool(v.value):
                ok = has_guard(s.ctx, f"self.{LP}.is_running()", False)
                rep.ob("P1-predicate-returns", pred, f"return {v.value!r}", ok,
                       f"the predicate returns True on a path not dominated by `not self.{LP}.is_running()`")
            else:
                rep.ob("P1-predicate-returns", pred, f"return {v.value!r}", True)
        else:
            ok = isinstance(v, ast.Compare) and len(v.ops) == 1 and isinstance(v.ops[0], (ast.Eq, ast.Is)) \
                and {u(v.left), u(v.comparators[0])} >= {f"self.{LP}"}
            other = [x for x in (v.left, v.comparators[0])] if ok else []
            if ok:
                oth = [x for x in other if u(x) != f"self.{LP}"][0]
                defs = [d for d in sites(pred) if isinstance(d.node, ast.Assign) and u(d.node.targets[0]) == u(oth)
                        and isinstance(d.node.value, ast.Call) and dotted(d.node.value.func) == "asyncio.get_running_loop"]
                ok = bool(defs)
            rep.ob("P1-predicate-returns", pred, short(s.node), ok,
                   f"the predicate's answer is not the comparison of self.{LP} with asyncio.get_running_loop()")
    rep.require(n_ret >= 3, "return statements of the predicate")
    # P2 -----------------------------------------------------------------
    cls = repo.fn(TS, "AsyncIOThreadSafeScheduler")
    n_disp = 0
    for mname in ("schedule", "schedule_relative"):
        m = repo.fn(TS, f"AsyncIOThreadSafeScheduler.{mname}")
        loop_cbs = set()
        for g in m.walk():
            if g.is_func:
                for s in sites(g):
                    if isinstance(s.node, ast.Call) and (dotted(s.node.func) or "").startswith(f"self.{LP}.call_"):
                        for a in s.node.args:
                            t = resolve_callable(g, a)
                            if t.kind == "fn":
                                loop_cbs.add(t.fn)
        disp_fns = [g for g in m.children if g.is_func and g not in loop_cbs and _reaches_cancel(g)]
        rep.require(disp_fns, f"dispose closure (local function reaching handle.cancel) in {m.ref}")
        held = set()
        for s in sites(m):
            if isinstance(s.node, ast.Call) and call_name(s.node) == "Disposable" and s.node.args:
                t = resolve_callable(m, s.node.args[0])
                if t.kind == "fn":
                    held.add(t.fn)
        for d in disp_fns:
            rep.ob("P4-held-and-delay", m, f"{mname}: Disposable({d.name}) constructed", d in held,
                   f"the cancel closure {d.name} is not wrapped in a Disposable: nothing can cancel the scheduled action")
        for d in disp_fns:
            n_disp += 1
            # marshalled callbacks: local functions passed to call_soon_threadsafe inside d
            marshalled = {}
            for s in sites(d):
                if isinstance(s.node, ast.Call) and dotted(s.node.func) == f"self.{LP}.call_soon_threadsafe" and s.node.args:
                    t = resolve_callable(d, s.node.args[0])
                    if t.kind == "fn":
                        marshalled[t.fn] = s
            helpers = [g for g in d.descendants() if g.is_func]
            # direct call sites in d of helpers or handle.cancel
            for s in sites(d):
                n = s.node
                direct_cancel = isinstance(n, ast.Call) and isinstance(n.func, ast.Attribute) and n.func.attr == "cancel"
                helper = None
                if isinstance(n, ast.Call) and isinstance(n.func, ast.Name):
                    h = d.resolve_local_def(n.func.id)
                    if h is not None and h in helpers and _reaches_cancel(h):
                        helper = h
                if direct_cancel or helper is not None:
                    ok = has_guard(s.ctx, f"self.{PRED}()", True)
                    rep.ob("P2-cancel-marshalled-or-dominated", d, f"{mname}.dispose: {short(n)}", ok,
                           f"`{short(n)}` cancels asyncio handles on the disposing thread without being dominated by "
                           f"self.{PRED}(): from a foreign thread this races the loop")
            for cb, site in marshalled.items():
                if not _reaches_cancel(cb):
                    continue
                # the future resolved by cb must be awaited after the marshalling call, on every path
                sets = [x for x in sites(cb) if isinstance(x.node, ast.Call) and isinstance(x.node.func, ast.Attribute)
                        and x.node.func.attr == "set_result"]
                ok = bool(sets) and not sets[-1].ctx.branch
                fut = dotted(sets[-1].node.func.value) if sets else None
                waits = [x for x in sites(d) if isinstance(x.node, ast.Call) and dotted(x.node.func) == f"{fut}.result"
                         and dominates(site, x)]
                cancels = [x for x in sites(cb) if (isinstance(x.node, ast.Call) and isinstance(x.node.func, ast.Attribute)
                                                    and x.node.func.attr == "cancel") or
                           (isinstance(x.node, ast.Call) and isinstance(x.node.func, ast.Name)
                            and cb.resolve_local_def(x.node.func.id) is not None)]
                order = bool(cancels) and bool(sets) and all(c.index < sets[-1].index for c in cancels)
                rep.ob("P2-cancel-marshalled-or-dominated", d, f"{mname}.dispose: marshalled {cb.name} awaited", ok and bool(waits) and order,
                       "the cancellation marshalled onto the loop is not awaited (future.result()) before dispose() returns, "
                       "or the future is resolved before the cancel: the action could still start after dispose() returned")
            if not marshalled:
                rep.ob("P2-cancel-marshalled-or-dominated", d, f"{mname}.dispose: has a marshalled branch", False,
                       "dispose has no branch that marshals the cancellation onto the loop thread")
            else:
                rep.ob("P2-cancel-marshalled-or-dominated", d, f"{mname}.dispose: the marshalled callback cancels the handle",
                       any(_reaches_cancel(cb) for cb in marshalled),
                       "the callback dispose() marshals onto the loop thread cancels nothing: a dispose from a foreign thread waits for "
                       "the loop and returns with the action still scheduled")
    rep.require(n_disp >= 2, "dispose closures")
    # P3 -----------------------------------------------------------------
    for m in cls.children:
        if not m.is_func:
            continue
        for g in m.walk():
            if not g.is_func:
                continue
            for s in sites(g):
                n = s.node
                if isinstance(n, ast.Call) and dotted(n.func) in (f"self.{LP}.call_soon", f"self.{LP}.call_later", f"self.{LP}.call_at"):
                    # allowed only inside a callback that itself runs on the loop (passed to call_soon_threadsafe)
                    on_loop = False
                    par = g
                    while par is not None and par.is_func:
                        for mm in cls.children:
                            if mm.is_func:
                                for x in mm.walk():
                                    if x.is_func:
                                        for s2 in sites(x):
                                            if isinstance(s2.node, ast.Call) and dotted(s2.node.func) == f"self.{LP}.call_soon_threadsafe" \
                                                    and s2.node.args and resolve_callable(x, s2.node.args[0]).fn is par:
                                                on_loop = True
                        par = par.parent if par.parent is not None and par.parent.is_func else None
                    rep.ob("P3-threadsafe-entry", g, short(n, 60), on_loop,
                           f"`{short(n, 60)}` touches the loop from an arbitrary thread (not thread-safe); only "
                           f"call_soon_threadsafe may be used outside loop callbacks")
                if isinstance(n, ast.Call) and dotted(n.func) == f"self.{LP}.call_soon_threadsafe":
                    rep.ob("P3-threadsafe-entry", g, short(n, 60), True)
    # P5: the single-thread scheduler's dispose cancels the handle unconditionally -----------------------------
    rep.rule("P7-shortcut-only-when-due", "schedule_relative takes the immediate path only under a test that bounds the delay by zero", floor=2)
    rep.rule("P5-cancel-unconditional", "AsyncIOScheduler: the dispose closure cancels its handle on every path (a due-but-not-yet-run "
                                        "timer is still cancellable)", floor=2)
    for mname in ("schedule", "schedule_relative"):
        m = repo.fn(AS, f"AsyncIOScheduler.{mname}")
        n_c = 0
        for g in m.children:
            if g.is_func:
                for x in sites(g):
                    if isinstance(x.node, ast.Call) and isinstance(x.node.func, ast.Attribute) and x.node.func.attr == "cancel":
                        n_c += 1
        rep.ob("P5-cancel-unconditional", m, f"AsyncIOScheduler.{mname}: the dispose closure cancels the handle ({n_c} cancel call)", n_c >= 1,
               f"AsyncIOScheduler.{mname}: no closure cancels the asyncio handle any more: dispose() returns and the action still starts")
        for g in m.children:
            if g.is_func:
                for x in sites(g):
                    if isinstance(x.node, ast.Call) and isinstance(x.node.func, ast.Attribute) and x.node.func.attr == "cancel":
                        rep.ob("P5-cancel-unconditional", g, f"AsyncIOScheduler.{mname}.{g.name}: {short(x.node)}", not x.ctx.guards and not x.ctx.handlers,
                               f"`{short(x.node)}` is conditional ({[u(e) for e, _ in x.ctx.guards]}): for some state of the timer dispose() returns "
                               f"without having cancelled it, and the action still starts afterwards")
    # every handle the two-stage registration records is cancelled by dispose: as many `handle.pop().cancel()` as `handle.append(...)`
    rep.rule("P6-all-handles-cancelled", "AsyncIOThreadSafeScheduler.schedule_relative: dispose cancels every handle the registration recorded", floor=1)
    msr = repo.fn(TS, "AsyncIOThreadSafeScheduler.schedule_relative")
    lists_ = locals_by_init(msr, lambda v: isinstance(v, ast.List) and not v.elts) if "locals_by_init" in globals() else []
    apps_, cans_ = {}, {}
    for g in msr.walk():
        if not g.is_func:
            continue
        for x in sites(g):
            n_ = x.node
            if isinstance(n_, ast.Call) and isinstance(n_.func, ast.Attribute) and n_.func.attr == "append" and isinstance(n_.func.value, ast.Name):
                apps_[n_.func.value.id] = apps_.get(n_.func.value.id, 0) + 1
            if isinstance(n_, ast.Call) and isinstance(n_.func, ast.Attribute) and n_.func.attr == "cancel" and isinstance(n_.func.value, ast.Call) \
                    and isinstance(n_.func.value.func, ast.Attribute) and n_.func.value.func.attr == "pop" and isinstance(n_.func.value.func.value, ast.Name):
                cans_[n_.func.value.func.value.id] = cans_.get(n_.func.value.func.value.id, 0) + 1
            if isinstance(n_, ast.For) and isinstance(n_.iter, ast.Name) and any(isinstance(c, ast.Call) and isinstance(c.func, ast.Attribute) and c.func.attr == "cancel" for c in ast.walk(n_)):
                cans_[n_.iter.id] = 10 ** 6
    hl = [k for k in apps_ if k in cans_]
    rep.ob("P6-all-handles-cancelled", msr, f"handles recorded {apps_} / cancelled {cans_}", bool(hl) and all(cans_[k] >= apps_[k] for k in hl),
           "dispose() cancels fewer handles than the two-stage registration records: the first-stage handle (or the armed timer) survives "
           "dispose() and the action starts after dispose() has returned")
    # P4 -----------------------------------------------------------------
    for rel, cname in ((TS, "AsyncIOThreadSafeScheduler"), (AS, "AsyncIOScheduler")):
        for mname in ("schedule", "schedule_relative"):
            m = repo.fn(rel, f"{cname}.{mname}")
            rets = [s for s in sites(m) if isinstance(s.node, ast.Return) and isinstance(s.node.value, ast.Call)
                    and call_name(s.node.value) == "CompositeDisposable"]
            ok = bool(rets)
            for r in rets:
                args = r.node.value.args
                ok = ok and any(isinstance(a, ast.Call) and call_name(a) == "Disposable" for a in args) \
                    and any(isinstance(a, ast.Name) for a in args)
            rep.ob("P4-held-and-delay", m, f"{cname}.{mname}: returns Composite(sad, Disposable(dispose))", ok,
                   "the returned disposable does not hold the cancel action (dispose() would not cancel the handle)")
            if mname == "schedule_relative":
                secs = [s for s in sites(m) if isinstance(s.node, ast.Assign) and u(s.node.value) == f"self.to_seconds({m.params[1]})"]
                later = []
                for g in m.walk():
                    if g.is_func:
                        later += [s for s in sites(g) if isinstance(s.node, ast.Call) and dotted(s.node.func) == f"self.{LP}.call_later"]
                ok = bool(secs) and bool(later) and all(u(c.node.args[0]) == u(secs[0].node.targets[0]) for c in later)
                rep.ob("P4-held-and-delay", m, f"{cname}.{mname}: call_later(to_seconds(duetime), ...)", ok,
                       "the delay handed to the loop is not the requested relative time: the action could run early")
                imm = [s for s in sites(m) if isinstance(s.node, ast.Return) and isinstance(s.node.value, ast.Call)
                       and dotted(s.node.value.func) == "self.schedule"]
                ok = bool(imm) and all(any(isinstance(e, ast.Compare) and p for e, p in s.ctx.guards) for s in imm)
                rep.ob("P4-held-and-delay", m, f"{cname}.{mname}: non-positive delay -> schedule", ok,
                       "non-positive delays are not routed through schedule()")
                # ... and ONLY non-positive delays: the shortcut runs the action as soon as the loop turns, so a delay that is
                # still positive may not take it (the action would start before its due time)
                dl = u(secs[0].node.targets[0]) if secs else "?delay"
                for s in imm:
                    rep.ob("P7-shortcut-only-when-due", m, f"{cname}.{mname}: `{short(s.node)}` only when {dl} <= 0", _implies_nonpositive(m, s.ctx.guards, dl),
                           f"{cname}.{mname} takes the immediate path `{short(s.node, 50)}` under {[u(e) for e, _ in s.ctx.guards]}, which "
                           f"does not imply `{dl} <= 0`: an action whose delay is still positive is started at once, before its due time")


def _num(e):
    if isinstance(e, ast.Constant) and isinstance(e.value, (int, float)) and not isinstance(e.value, bool):
        return e.value
    if isinstance(e, ast.UnaryOp) and isinstance(e.op, ast.USub) and isinstance(e.operand, ast.Constant) and isinstance(e.operand.value, (int, float)):
        return -e.operand.value
    return None


def _implies_nonpositive(fn, guards, name: str) -> bool:
    """Some guard of the site is a comparison of `name` with a numeric literal that bounds it by zero from above."""
    from ..rules import effective_test
    from ..astutil import atoms
    for e, pol in guards:
        for a, ap in atoms(effective_test(fn, e), pol):
            if not (ap and isinstance(a, ast.Compare) and len(a.ops) == 1):
                continue
            l_, r_, op = a.left, a.comparators[0], type(a.ops[0])
            if u(l_) == name and _num(r_) is not None and _num(r_) <= 0 and op in (ast.LtE, ast.Lt, ast.Eq):
                return True
            if u(r_) == name and _num(l_) is not None and _num(l_) <= 0 and op in (ast.GtE, ast.Gt, ast.Eq):
                return True
    return False


def _reaches_cancel(fn, seen=None) -> bool:
    seen = seen if seen is not None else set()
    if id(fn) in seen:
        return False
    seen.add(id(fn))
    for s in sites(fn):
        n = s.node
        if isinstance(n, ast.Call) and isinstance(n.func, ast.Attribute) and n.func.attr == "cancel":
            return True
        if isinstance(n, ast.Call) and isinstance(n.func, ast.Name):
            h = fn.resolve_local_def(n.func.id)
            if h is not None and h.is_func and _reaches_cancel(h, seen):
                return True
    return False
