"""C34 — real-time schedulers never run an action early or after cancellation (S1)."""
from __future__ import annotations

import ast

from ..astutil import call_name, compare_norm, dotted, short, u
from ..core import Report
from ..ctx import sites, dominates
from ..frontend import Repo
from ..model import resolve_callable
from ..rules import has_guard
from .common_own import rule_invoke_guard

IM = "reactivex/scheduler/immediatescheduler.py"
TO = "reactivex/scheduler/timeoutscheduler.py"
NT = "reactivex/scheduler/newthreadscheduler.py"
TP = "reactivex/scheduler/threadpoolscheduler.py"
EL = "reactivex/scheduler/eventloopscheduler.py"


def check(repo: Repo, rep: Report) -> None:
    rep.explanation = (
        "Structural clauses: ImmediateScheduler.schedule_relative invokes the action only under not (duetime > 0) and "
        "raises WouldBlockException otherwise; schedule runs the action synchronously; TimeoutScheduler hands "
        "to_seconds(duetime) — the same argument — to threading.Timer, routes non-positive delays through schedule(), and "
        "returns a composite that holds a disposable cancelling that timer; NewThread/ThreadPool forward the same due time, "
        "action and state to a fresh EventLoopScheduler, whose dequeue (not due > now) and invoke (not cancelled) guards and "
        "whose returned Disposable(item.cancel) are checked; absolute forms are relative forms of (duetime - now). Real "
        "clock behaviour is not decided.")
    rep.rule("I1-immediate", "ImmediateScheduler: synchronous invoke; positive delay raises WouldBlockException", floor=4)
    rep.rule("T1-timeout", "TimeoutScheduler: Timer(to_seconds(duetime)); timer cancel held by the returned composite", floor=6)
    rep.rule("D1-delegation", "NewThread/ThreadPool/absolute forms forward duetime, action, state unchanged", floor=6)
    rep.rule("E1-eventloop-guards", "EventLoopScheduler: cancel disposable returned; due/cancel guards", floor=2)
    # Immediate
    sr = repo.fn(IM, "ImmediateScheduler.schedule_relative")
    inv = [s for s in sites(sr) if isinstance(s.node, ast.Call) and dotted(s.node.func) == "self.invoke_action"]
    rz = [s for s in sites(sr) if isinstance(s.node, ast.Raise)]
    conv = [s for s in sites(sr) if isinstance(s.node, ast.Assign) and u(s.node.value) == f"self.to_timedelta({sr.params[1]})"]
    dv = u(conv[0].node.targets[0]) if conv else sr.params[1]
    ok = False
    for s in inv:
        for e, p in s.ctx.guards:
            r = compare_norm(e, lambda x: u(x) == dv)
            if p and r and r[0] in ("<=", "<", "==") and u(r[1]) in ("DELTA_ZERO", "0", "timedelta(0)"):
                ok = True
    rep.ob("I1-immediate", sr, "invoke_action only under duetime <= 0", ok and len(inv) == 1 and [u(a) for a in inv[0].node.args] == sr.params[2:4],
           "ImmediateScheduler runs a delayed action immediately (before its due time)")
    ok = any("WouldBlockException" in u(s.node.exc) and any(compare_norm(e, lambda x: u(x) == dv) and compare_norm(e, lambda x: u(x) == dv)[0] == ">" and p
                                                           for e, p in s.ctx.guards) for s in rz)
    rep.ob("I1-immediate", sr, "positive delay raises WouldBlockException", ok, "a positive delay does not raise WouldBlockException")
    sc = repo.fn(IM, "ImmediateScheduler.schedule")
    ok = any(isinstance(s.node, ast.Return) and u(s.node.value) == f"self.invoke_action({sc.params[1]}, {sc.params[2]})" for s in sites(sc))
    rep.ob("I1-immediate", sc, "schedule runs the action synchronously", ok, "ImmediateScheduler.schedule does not invoke the action synchronously")
    sa = repo.fn(IM, "ImmediateScheduler.schedule_absolute")
    ok = any(isinstance(s.node, ast.Return) and isinstance(s.node.value, ast.Call) and dotted(s.node.value.func) == "self.schedule_relative"
             and u(s.node.value.args[0]).replace(" ", "") == "duetime-self.now" for s in sites(sa))
    rep.ob("I1-immediate", sa, "absolute = relative(duetime - now)", ok, "schedule_absolute does not convert to the remaining delay")
    # Timeout
    for mname in ("schedule", "schedule_relative"):
        m0 = repo.fn(TO, f"TimeoutScheduler.{mname}")
        m = m0
        timers = [s for s in sites(m) if isinstance(s.node, ast.Call) and call_name(s.node) == "Timer"]
        passed = None
        if not timers:
            # the timer may live in a shared helper method: `return self._helper(delay, action, state)`
            for s in sites(m0):
                if isinstance(s.node, ast.Return) and isinstance(s.node.value, ast.Call) and isinstance(s.node.value.func, ast.Attribute) \
                        and dotted(s.node.value.func.value) == "self" and not s.ctx.branch:
                    h = repo.opt_fn(TO, f"TimeoutScheduler.{s.node.value.func.attr}")
                    if h is not None and h is not m0:
                        ht = [x for x in sites(h) if isinstance(x.node, ast.Call) and call_name(x.node) == "Timer"]
                        if len(ht) == 1:
                            m, timers, passed = h, ht, s.node.value
        rep.require(len(timers) == 1, f"Timer in TimeoutScheduler.{mname}")
        t = timers[0]
        delay = u(t.node.args[0])
        if passed is not None:
            # map the helper's delay parameter back to the argument of the delegating call
            hp = [p_ for p_ in m.params if p_ != "self"]
            delay_arg = u(passed.args[hp.index(delay)]) if delay in hp and hp.index(delay) < len(passed.args) else "?"
        else:
            delay_arg = delay
        if mname == "schedule":
            ok = delay_arg == "0"
        else:
            d = [s for s in sites(m0) if isinstance(s.node, ast.Assign) and u(s.node.targets[0]) == delay_arg]
            ok = bool(d) and u(d[0].node.value) == f"self.to_seconds({m0.params[1]})"
        # the timer is per-call state: a TimeoutScheduler is a process-wide singleton
        shared = isinstance(t.stmt, ast.Assign) and dotted(t.stmt.targets[0]) is not None and dotted(t.stmt.targets[0]).startswith("self.")
        rep.ob("T1-timeout", m, f"{mname}: the Timer is held in a local of the call, not on the scheduler", not shared,
               "the pending Timer is stored on the TimeoutScheduler instance, which is a process-wide singleton: disposing one schedule "
               "cancels the most recently started timer, the disposed action still fires and an unrelated one is cancelled")
        rep.ob("T1-timeout", m, f"{mname}: Timer({delay}, interval)", ok, "the timer delay is not the requested relative time in seconds: the action can run early")
        cb = resolve_callable(m, t.node.args[1])
        ok = cb.kind == "fn" and any(isinstance(s.node, ast.Assign) and u(s.node.value) == f"self.invoke_action({m.params[-2]}, {m.params[-1]})" for s in sites(cb.fn))
        rep.ob("T1-timeout", m, f"{mname}: the timer runs invoke_action(action, state)", ok, "the timer callback does not run the scheduled action with its state")
        tv = u(t.stmt.targets[0]) if isinstance(t.stmt, ast.Assign) else None
        disp = [g for g in m.children if g.is_func and any(isinstance(s.node, ast.Call) and dotted(s.node.func) == f"{tv}.cancel" for s in sites(g))]
        rets = [s for s in sites(m) if isinstance(s.node, ast.Return) and isinstance(s.node.value, ast.Call) and call_name(s.node.value) == "CompositeDisposable"]
        ok = bool(disp) and bool(rets) and all(any(isinstance(a, ast.Call) and call_name(a) == "Disposable" and u(a.args[0]) == disp[0].name for a in r.node.value.args)
                                               for r in rets)
        rep.ob("T1-timeout", m, f"{mname}: returned composite cancels the timer", ok, "disposing the returned disposable does not cancel the timer: the action runs after cancellation")
    m = repo.fn(TO, "TimeoutScheduler.schedule_relative")
    imm = [s for s in sites(m) if isinstance(s.node, ast.Return) and isinstance(s.node.value, ast.Call) and dotted(s.node.value.func) == "self.schedule"]
    secs = [s for s in sites(m) if isinstance(s.node, ast.Assign) and u(s.node.value) == f"self.to_seconds({m.params[1]})"]
    sv = u(secs[0].node.targets[0]) if secs else "seconds"
    ok = False
    for e, p in (imm[0].ctx.guards if imm else ()):
        r = compare_norm(e, lambda x: u(x) == sv)
        if p and r and r[0] in ("<=", "<") and u(r[1]) in ("0.0", "0"):
            ok = True
    rep.ob("T1-timeout", m, "non-positive delay -> schedule()", ok, "non-positive delays are not run as immediate actions")
    # delegation
    for rel, cls in ((TO, "TimeoutScheduler"), (NT, "NewThreadScheduler")):
        sa = repo.fn(rel, f"{cls}.schedule_absolute")
        ok = False
        for s in sites(sa):
            if isinstance(s.node, ast.Return) and isinstance(s.node.value, ast.Call) and dotted(s.node.value.func) == "self.schedule_relative":
                c = s.node.value
                a0 = u(c.args[0]).replace(" ", "")
                rest = [u(a) for a in c.args[1:]] + [u(k.value) for k in c.keywords]
                ok = a0.endswith("-self.now") and rest == [sa.params[2], sa.params[3]]
                # the minuend is the due time converted by to_datetime -- nothing else applied to it
                left = c.args[0].left if isinstance(c.args[0], ast.BinOp) else None
                conv = f"self.to_datetime({sa.params[1]})"
                if isinstance(left, ast.Name):
                    defs = [x.node.value for x in sites(sa) if isinstance(x.node, (ast.Assign, ast.AnnAssign)) and x.node.value is not None
                            and u(x.node.targets[0] if isinstance(x.node, ast.Assign) else x.node.target) == left.id]
                    ok = ok and (not defs or all(u(d) == conv for d in defs))
                elif left is not None:
                    ok = ok and u(left) == conv
        rep.ob("D1-delegation", sa, f"{cls}.schedule_absolute = schedule_relative(duetime - now, action, state)", ok,
               "the absolute form does not schedule the remaining delay with the same action and state")
    for mname in ("schedule", "schedule_relative"):
        m = repo.fn(NT, f"NewThreadScheduler.{mname}")
        from ..ctx import returned_expr as _rex
        from ..rules import inline_locals as _inl
        # `return <loop>.<mname>(...)`: the receiver -- a local, a helper's result or the constructor call itself -- is a fresh exiting loop
        fw = [s for s in sites(m) if isinstance(s.node, ast.Return) and isinstance(s.node.value, ast.Call) and isinstance(s.node.value.func, ast.Attribute)
              and s.node.value.func.attr == mname]
        recv = _rex(m, _inl(m, fw[0].node.value.func.value)) if fw else None
        recv = _rex(m, recv) if recv is not None else None
        ok = isinstance(recv, ast.Call) and call_name(recv) == "EventLoopScheduler" \
            and {k.arg: u(k.value) for k in recv.keywords} == {"thread_factory": "self.thread_factory", "exit_if_empty": "True"}
        rep.ob("D1-delegation", m, f"{mname}: fresh EventLoopScheduler(thread_factory, exit_if_empty=True)", ok,
               "the action is not given its own exiting event loop on the configured thread factory")
        ok = bool(fw) and [u(a) for a in fw[0].node.value.args] == m.params[1:]
        rep.ob("D1-delegation", m, f"{mname}: forwards {m.params[1:]} unchanged", ok, "due time / action / state are not forwarded unchanged to the event loop")
    tp = repo.fn(TP, "ThreadPoolScheduler")
    ok = any(u(b) == "NewThreadScheduler" for b in tp.node.bases) and not any(c.is_func and c.name.startswith("schedule") for c in tp.children)
    rep.ob("D1-delegation", tp, "ThreadPoolScheduler inherits NewThreadScheduler's scheduling", ok, "ThreadPoolScheduler overrides scheduling (not analysed)")
    st = repo.fn(TP, "ThreadPoolScheduler.ThreadPoolThread.start")
    ok = any(isinstance(s.node, ast.Assign) and u(s.node.value) == "self.executor.submit(self.target)" for s in sites(st))
    rep.ob("D1-delegation", st, "pool thread submits its target", ok, "the pool 'thread' does not run the loop target on the executor")
    # event loop
    sa = repo.fn(EL, "EventLoopScheduler.schedule_absolute")
    si_names = {u(s.node.target if isinstance(s.node, ast.AnnAssign) else s.node.targets[0]) for s in sites(sa)
                if isinstance(s.node, (ast.Assign, ast.AnnAssign)) and isinstance(s.node.value, ast.Call) and call_name(s.node.value) == "ScheduledItem"}
    ok = any(isinstance(s.node, ast.Return) and any(u(s.node.value) == f"Disposable({n_}.cancel)" for n_ in si_names) for s in sites(sa))
    rep.ob("E1-eventloop-guards", sa, "returns Disposable(si.cancel)", ok, "the returned disposable does not cancel the scheduled item")
    sr = repo.fn(EL, "EventLoopScheduler.schedule_relative")
    ok = any(isinstance(s.node, ast.Return) and isinstance(s.node.value, ast.Call) and dotted(s.node.value.func) == "self.schedule_absolute"
             and "self.now +" in u(s.node.value.args[0]) and [u(a) for a in s.node.value.args[1:]] == sr.params[2:4] for s in sites(sr))
    rep.ob("E1-eventloop-guards", sr, "relative = absolute(now + max(0, duetime))", ok, "the relative form does not schedule at now + delay")
    # boundary agreement: an item due exactly now is ready — at scheduling time (`dt <= now`) and in the loop (`due > time` stops)
    rn = repo.fn(EL, "EventLoopScheduler.run")
    from ..astutil import compare_norm as _cn
    stops = []
    clocks = {u(n_.targets[0]) for n_ in rn.direct_nodes() if isinstance(n_, ast.Assign) and isinstance(n_.value, ast.Attribute) and n_.value.attr == "now"}
    is_clock = lambda y: (isinstance(y, ast.Name) and y.id in clocks) or (isinstance(y, ast.Attribute) and y.attr == "now")
    from ..rules import effective_test as _et
    for x in sites(rn):
        if isinstance(x.node, ast.Break):
            for e, p_ in x.ctx.guards:
                e = _et(rn, e) if isinstance(e, ast.Name) else e
                if p_ and isinstance(e, ast.Compare) and len(e.ops) == 1 and any(is_clock(y) for y in (e.left, e.comparators[0])):
                    stops.append((x, e))
    okb = False
    for x, e in stops:
        opn = type(e.ops[0]).__name__
        if is_clock(e.left):
            opn = {"Lt": "Gt", "LtE": "GtE", "Gt": "Lt", "GtE": "LtE"}.get(opn, opn)
        okb = okb or opn == "Gt"
    rep.ob("E1-eventloop-guards", rn, f"run(): gathering stops at the first item with `due > now` (strict) ({[short(e, 30) for _, e in stops]})", bool(stops) and okb,
           "the event loop treats an item due exactly now as not yet due (`>=`): it is neither moved to the ready list nor waited for (0 s left), "
           "so the loop spins without ever running it — and schedule_absolute, which takes `dt <= now` as ready, disagrees on the boundary")
    # ... and at scheduling time: `dt <= now` goes to the ready list
    rdy = [x for x in sites(sa) if isinstance(x.node, ast.Call) and isinstance(x.node.func, ast.Attribute) and x.node.func.attr == "append" and "ready" in u(x.node.func.value)]
    oka = False
    for x in rdy:
        for e, p_ in x.ctx.guards:
            e2 = _et(sa, e) if isinstance(e, ast.Name) else e
            if isinstance(e2, ast.Compare) and len(e2.ops) == 1 and any(isinstance(y, ast.Attribute) and y.attr == "now" for y in (e2.left, e2.comparators[0])):
                opn = type(e2.ops[0]).__name__
                if isinstance(e2.left, ast.Attribute) and e2.left.attr == "now":
                    opn = {"Lt": "Gt", "LtE": "GtE", "Gt": "Lt", "GtE": "LtE"}.get(opn, opn)
                oka = (p_ and opn == "LtE") or (not p_ and opn == "Gt")
    rep.ob("E1-eventloop-guards", sa, "schedule_absolute: an item with `dt <= now` (inclusive) is ready at once", bool(rdy) and oka,
           "schedule_absolute sends an item due exactly now to the timed queue: a later-submitted item with an earlier due time is pulled in "
           "front of it by the merge — immediately-due actions run out of submission order")
    # Scheduler.invoke_action keeps whatever disposable the action returned (any DisposableBase), so cancelling the item cancels
    # the follow-up work the action scheduled
    ia = repo.fn("reactivex/scheduler/scheduler.py", "Scheduler.invoke_action")
    tests_ = [n_ for n_ in ia.direct_nodes() if isinstance(n_, ast.Call) and call_name(n_) == "isinstance" and len(n_.args) == 2]
    rep.ob("E1-eventloop-guards", ia, f"invoke_action: `{short(tests_[0], 50) if tests_ else '?'}` keeps every DisposableBase the action returns",
           len(tests_) == 1 and u(tests_[0].args[1]).split(".")[-1] == "DisposableBase",
           "invoke_action keeps the action's result only if it is an instance of a narrower class than DisposableBase: a composite / serial / "
           "multiple-assignment disposable returned by the action is replaced by a no-op, and disposing the scheduled item no longer cancels "
           "the follow-up work — an action cancelled before it starts still runs")
    # siblings: every schedule_absolute that delegates to schedule_relative passes `<due time> - self.now`
    rep.rule("D2-absolute-is-relative-to-now", "schedule_absolute -> schedule_relative(<due> - self.now, ...) in every scheduler that delegates", floor=8)
    for rel in sorted(repo.modules):
        if not rel.startswith("reactivex/scheduler/"):
            continue
        for c in repo.modules[rel].tree.body:
            if not isinstance(c, ast.ClassDef):
                continue
            for mth in c.body:
                if isinstance(mth, ast.FunctionDef) and mth.name == "schedule_absolute":
                    for x in ast.walk(mth):
                        if isinstance(x, ast.Call) and isinstance(x.func, ast.Attribute) and x.func.attr == "schedule_relative" and x.args:
                            a0 = x.args[0]
                            okd = isinstance(a0, ast.BinOp) and isinstance(a0.op, ast.Sub) and u(a0.right) == "self.now" and "now" not in u(a0.left)
                            if isinstance(a0, ast.Name):
                                dd = [n_.value for n_ in ast.walk(mth) if isinstance(n_, (ast.Assign, ast.AnnAssign)) and n_.value is not None and u(n_.targets[0] if isinstance(n_, ast.Assign) else n_.target) == a0.id]
                                okd = any(isinstance(v, ast.BinOp) and isinstance(v.op, ast.Sub) and u(v.right) == "self.now" and "now" not in u(v.left) for v in dd)
                            rep.ob("D2-absolute-is-relative-to-now", f"{rel}::{c.name}.schedule_absolute", f"{c.name}.schedule_absolute: `{short(x, 60)}`", okd,
                                   f"{c.name}.schedule_absolute does not delegate with (due time - now): a future due time becomes a negative / doubled delay, "
                                   f"the action runs before (or long after) its due time")
    rule_invoke_guard(repo, rep, "S1-invoke-guard")
