"""C35 — periodic scheduling threads state, keeps the period and stops (S1)."""
from __future__ import annotations

import ast

from ..astutil import arg_of, call_name, dotted, short, u
from ..core import Report
from ..ctx import sites, dominates
from ..frontend import Repo
from ..model import is_schedule_call
from ..rules import cell_name, has_guard, locals_by_init, names_augmented

PS = "reactivex/scheduler/periodicscheduler.py"
NT = "reactivex/scheduler/newthreadscheduler.py"
EL = "reactivex/scheduler/eventloopscheduler.py"
TM = "reactivex/observable/timer.py"
IV = "reactivex/observable/interval.py"


def state_threading(rep: Report, fn, what: str) -> None:
    """In fn (the per-tick function): `state = action(state)` — the action's result becomes the state of the next tick."""
    calls = [s for s in sites(fn) if isinstance(s.node, ast.Call) and isinstance(s.node.func, ast.Name) and s.node.func.id == "action"]
    ok = len(calls) == 1 and isinstance(calls[0].stmt, ast.Assign) and [u(a) for a in calls[0].node.args] == [u(calls[0].stmt.targets[0])]
    rep.ob("P1-state-threading", fn, f"{what}: state = action(state)", ok,
           f"{what}: the value returned by the action is not what the next invocation receives (state is not threaded)")
    return calls


def check(repo: Repo, rep: Report) -> None:
    rep.explanation = (
        "Sibling cross-check of the schedule_periodic implementations (PeriodicScheduler — used by the virtual-time, "
        "timeout and event-loop families — NewThreadScheduler, EventLoopScheduler's disposed pre-check; CatchScheduler's is "
        "C42; thorough tier also the Qt implementation, which the tests cannot import): state threading (the action's "
        "result is the next tick's state: def-use), stops on dispose (the disposed test dominates the action call and the "
        "returned disposable is what sets it), stops after raise (the only handler around the action disposes and "
        "re-raises — nothing swallows), the next tick is scheduled period minus the time the action took after the tick "
        "started. timer_/interval_: tick counter incremented by one per tick; interval = timer(p, p). Period values are "
        "not decided.")
    rep.rule("P1-state-threading", "the action's result is the state of the next invocation", floor=2)
    rep.rule("P2-stops-on-dispose", "a disposed test dominates the action call; the returned disposable sets it", floor=4)
    rep.rule("P3-stops-after-raise", "an exception from the action stops the periodic work and propagates", floor=2)
    rep.rule("P4-period", "next tick after (period - elapsed); first tick after one period", floor=3)
    rep.rule("P5-timers", "timer tick counting; interval = timer(p, p)", floor=3)
    # elapsed = (clock after the action) - (clock captured before it): the compensation has the right sign
    rep.rule("P8-elapsed-sign", "PeriodicScheduler: the time the action took is `scheduler.now - <now captured before the action>`", floor=1)
    pp = repo.fn("reactivex/scheduler/periodicscheduler.py", "PeriodicScheduler.schedule_periodic")
    nsub = 0
    for g_ in pp.walk():
        if not g_.is_func:
            continue
        caps = {u(n_.targets[0] if isinstance(n_, ast.Assign) else n_.target) for n_ in g_.direct_nodes() if isinstance(n_, (ast.Assign, ast.AnnAssign)) and n_.value is not None
                and isinstance(n_.value, ast.Attribute) and n_.value.attr == "now"}
        for n_ in g_.direct_nodes():
            if isinstance(n_, ast.BinOp) and isinstance(n_.op, ast.Sub) and (isinstance(n_.left, ast.Attribute) and n_.left.attr == "now" or isinstance(n_.right, ast.Attribute) and n_.right.attr == "now") \
                    and (u(n_.left) in caps or u(n_.right) in caps):
                nsub += 1
                rep.ob("P8-elapsed-sign", g_, f"{g_.qual}: `{short(n_)}`", isinstance(n_.left, ast.Attribute) and n_.left.attr == "now" and u(n_.right) in caps,
                       "the elapsed time of the action is computed as (before - after): the next tick is scheduled a period PLUS the action's duration "
                       "later instead of a period minus it, and the ticks leave the grid")
    rep.ob("P8-elapsed-sign", pp, f"{nsub} elapsed-time subtraction(s) found", nsub >= 1, "the periodic wrapper no longer measures how long the action took")
    # ... and it is subtracted from the period IN SECONDS (elapsed is `.total_seconds()`): the minuend is to_seconds(period)
    perp = pp.params[1]
    secs = {u(n_.targets[0] if isinstance(n_, ast.Assign) else n_.target) for n_ in pp.direct_nodes() if isinstance(n_, (ast.Assign, ast.AnnAssign)) and n_.value is not None
            and isinstance(n_.value, ast.Call) and isinstance(n_.value.func, ast.Attribute) and n_.value.func.attr == "to_seconds" and [u(a) for a in n_.value.args] == [perp]}
    for g_ in pp.walk():
        if not g_.is_func:
            continue
        for n_ in g_.direct_nodes():
            if isinstance(n_, ast.BinOp) and isinstance(n_.op, ast.Sub) and isinstance(n_.right, ast.Call) and isinstance(n_.right.func, ast.Attribute) \
                    and n_.right.func.attr == "total_seconds":
                okm = u(n_.left) in secs or (isinstance(n_.left, ast.Call) and isinstance(n_.left.func, ast.Attribute) and n_.left.func.attr == "to_seconds"
                                             and [u(a) for a in n_.left.args] == [perp])
                rep.ob("P8-elapsed-sign", g_, f"{g_.qual}: `{short(n_)}` subtracts the elapsed seconds from the period in seconds", okm,
                       f"the remaining wait is computed as `{short(n_)}`: the minuend is not to_seconds({perp}) — with a timedelta period the "
                       f"subtraction raises TypeError out of the first tick (the run loop is left enabled and the remaining ticks never run), "
                       f"with another value the ticks leave the grid")
    # timer(d, p), d != p: ticks stay on the grid d + k*p: the next due time is the PREVIOUS due time plus the period
    rep.rule("P7-grid", "observable_timer_duetime_and_period: next due = previous due + period (re-based on now only when that is already past)", floor=2)
    ta = repo.fn("reactivex/observable/timer.py", "observable_timer_duetime_and_period.subscribe.action")
    from ..rules import assigned_expr, assign_target

    class _AV:       # an assignment site seen as (target, value) whatever its spelling (`d = d + p` is read as `d += p`)
        def __init__(self, x):
            self.site, self.node, self.ctx, self.index = x, x.node, x.ctx, x.index
            self.target, self.value = assign_target(x.node), assigned_expr(x.node)
    dts = [_AV(x) for x in sites(ta) if isinstance(assign_target(x.node), ast.Name) and assign_target(x.node).id in ta.nonlocals]
    adv = [x for x in dts if isinstance(x.value, ast.BinOp) and isinstance(x.value.op, ast.Add)]
    grid = [x for x in adv if u(x.value.left) == u(x.target) or u(x.value.right) == u(x.target)]
    rebase = [x for x in adv if x not in grid]
    rep.ob("P7-grid", ta, f"`{short(grid[0].node) if grid else '?'}`: previous due time + period, unconditionally within the periodic branch", bool(grid) and all(len(x.ctx.branch) <= 1 for x in grid),
           "the periodic timer does not advance its due time from the previous due time: a tick delivered late shifts every later tick by the same "
           "amount — the sequence leaves the grid duetime + k * period for good")
    okr = all(any(p_ and isinstance(e, ast.Compare) and u(x.target) in (u(e.left), u(e.comparators[0])) for e, p_ in x.ctx.guards) and (not grid or x.index > grid[0].index) for x in rebase)
    rep.ob("P7-grid", ta, f"re-basing on now ({[short(x.node, 40) for x in rebase]}) only under a test of the advanced due time against now", okr,
           "the periodic timer re-bases its due time on `now` without first finding the advanced due time already past")
    rep.rule("P6-state-forwarded", "a scheduler's schedule / schedule_relative / schedule_absolute that hands its own `action` to another "
                                   "schedule* call hands its `state` on too (the periodic wrapper threads its state through exactly these calls)", floor=20)
    SCHED = ("schedule", "schedule_relative", "schedule_absolute")
    for rel in sorted(repo.modules):
        if not rel.startswith("reactivex/scheduler/"):
            continue
        for c in repo.modules[rel].tree.body:
            if not isinstance(c, ast.ClassDef):
                continue
            for mth in c.body:
                if not (isinstance(mth, ast.FunctionDef) and mth.name in SCHED):
                    continue
                ps = [a.arg for a in mth.args.args]
                if len(ps) < 3:
                    continue
                act, st = (ps[-2], ps[-1])      # (self, [duetime,] action, state)
                for x in ast.walk(mth):
                    if isinstance(x, ast.Call) and isinstance(x.func, ast.Attribute) and x.func.attr.lstrip("_") in SCHED:
                        vals = list(x.args) + [k.value for k in x.keywords]
                        if not any(isinstance(a, ast.Name) and a.id == act for a in vals):
                            continue
                        ok = any(isinstance(a, ast.Name) and a.id == st for a in vals)
                        # positional roles: (..., action, state) — the callee's own order
                        pos = [a.id for a in x.args if isinstance(a, ast.Name) and a.id in (act, st)]
                        if pos and pos != sorted(pos, key=lambda z: 0 if z == act else 1):
                            ok = False
                        rep.ob("P6-state-forwarded", f"{rel}::{c.name}.{mth.name}", f"{c.name}.{mth.name}: `{short(x, 70)}`", ok,
                               f"{c.name}.{mth.name} re-schedules its action through `{short(x, 60)}` without the state it was given: the action is "
                               f"invoked with None — a periodic wrapper scheduled through this path (e.g. a reschedule with an overdue / zero "
                               f"due time) loses the state it threads from tick to tick and stops ticking")
    # PeriodicScheduler
    per = repo.fn(PS, "PeriodicScheduler.schedule_periodic.periodic")
    sp = repo.fn(PS, "PeriodicScheduler.schedule_periodic")
    calls = state_threading(rep, per, "PeriodicScheduler")
    # role: the periodic disposable is the MultipleAssignmentDisposable local that schedule_periodic returns
    disps = [d for d in locals_by_init(sp, lambda v: isinstance(v, ast.Call) and call_name(v) in ("MultipleAssignmentDisposable", "SerialDisposable"))
             if any(isinstance(s.node, ast.Return) and u(s.node.value) == d for s in sites(sp))]
    rep.require(len(disps) == 1, "PeriodicScheduler: returned periodic disposable")
    disp = disps[0]
    st = u(calls[0].stmt.targets[0]) if calls and isinstance(calls[0].stmt, ast.Assign) else "state"
    nxt = [s for s in sites(per) if is_schedule_call(s.node) and s.node.func.attr == "schedule_relative"]
    ok = len(nxt) == 1 and u(arg_of(nxt[0].node, 2, "state")) == st and u(nxt[0].node.args[1]) == "periodic" \
        and calls and calls[0].index < nxt[0].index
    rep.ob("P1-state-threading", per, "next tick scheduled with the new state", ok, "the re-scheduled tick does not carry the state returned by the action")
    ok = calls and has_guard(calls[0].ctx, f"{disp}.is_disposed", False)
    rep.ob("P2-stops-on-dispose", per, "action dominated by `not disp.is_disposed`", bool(ok), "a tick runs the action after the periodic disposable was disposed")
    ok = isinstance(nxt[0].stmt, ast.Assign) and u(nxt[0].stmt.targets[0]) == f"{disp}.disposable" if nxt else False
    first = [s for s in sites(sp) if is_schedule_call(s.node) and s.node.func.attr == "schedule_relative"]
    ok = ok and len(first) == 1 and isinstance(first[0].stmt, ast.Assign) and u(first[0].stmt.targets[0]) == f"{disp}.disposable" and \
        any(isinstance(s.node, ast.Return) and u(s.node.value) == disp for s in sites(sp))
    rep.ob("P2-stops-on-dispose", sp, "every tick's schedule is held by the returned disposable", ok,
           "disposing the returned disposable does not cancel the pending tick")
    hs = [h for s in sites(per) if isinstance(s.node, ast.Try) for h in s.node.handlers]
    ok = bool(hs) and all(any(isinstance(x, ast.Raise) and x.exc is None for x in ast.walk(h)) and
                          any(isinstance(x, ast.Call) and dotted(x.func) == f"{disp}.dispose" for x in ast.walk(h)) for h in hs) \
        and calls and bool(calls[0].ctx.tries)
    rep.ob("P3-stops-after-raise", per, "except: disp.dispose(); raise", bool(ok), "an exception raised by the action is swallowed or does not stop the periodic work")
    sec = [s for s in sites(sp) if isinstance(s.node, (ast.Assign, ast.AnnAssign)) and u(s.node.value) == f"self.to_seconds({sp.params[1]})"]
    secv = u(sec[0].node.target if isinstance(sec[0].node, ast.AnnAssign) else sec[0].node.targets[0]) if sec else None
    nowv = [s for s in sites(per) if isinstance(s.node, (ast.Assign, ast.AnnAssign)) and u(s.node.value) == "scheduler.now"]
    ok = False
    if nxt and secv and nowv and calls:
        tv = u(nxt[0].node.args[0])
        d = [s for s in sites(per) if isinstance(s.node, ast.Assign) and u(s.node.targets[0]) == tv]
        from ..rules import inline_locals as _inl35
        dv_ = _inl35(per, d[0].node.value) if d else None      # look through `elapsed = ...; remaining = seconds - elapsed`
        ok = bool(d) and secv in u(dv_) and "scheduler.now" in u(dv_) and isinstance(dv_, ast.BinOp) \
            and isinstance(dv_.op, ast.Sub) and nowv[0].index < calls[0].index < d[0].index
    rep.ob("P4-period", per, "next delay = period - (now - tick start)", ok, "the next tick is not scheduled one period after the start of this tick")
    ok = len(first) == 1 and u(first[0].node.args[0]) == sp.params[1] and u(first[0].node.args[1]) == "periodic"
    rep.ob("P4-period", sp, "first tick after one period", ok, "the first tick is not scheduled one period after schedule_periodic")
    # NewThreadScheduler
    run = repo.fn(NT, "NewThreadScheduler.schedule_periodic.run")
    nsp = repo.fn(NT, "NewThreadScheduler.schedule_periodic")
    calls = state_threading(rep, run, "NewThreadScheduler")
    evs = locals_by_init(nsp, lambda v: isinstance(v, ast.Call) and call_name(v) == "Event")
    rep.require(len(evs) == 1, "NewThreadScheduler: disposed event")
    disposed = evs[0]
    ok = calls and has_guard(calls[0].ctx, f"{disposed}.is_set()", False) and bool(calls[0].ctx.loops)
    rep.ob("P2-stops-on-dispose", run, "action dominated by `not disposed.is_set()` in every iteration", bool(ok), "the loop runs the action after dispose()")
    dsp = [g for g in nsp.children if g.is_func and any(isinstance(s.node, ast.Call) and dotted(s.node.func) == f"{disposed}.set" for s in sites(g))]
    ok = bool(dsp) and any(isinstance(s.node, ast.Return) and u(s.node.value) == f"Disposable({dsp[0].name})" for s in sites(nsp))
    rep.ob("P2-stops-on-dispose", nsp, "returned disposable sets the disposed event", ok, "disposing the returned disposable does not stop the loop")
    hs = [h for s in sites(run) if isinstance(s.node, ast.Try) for h in s.node.handlers]
    rep.ob("P3-stops-after-raise", run, "no handler around the action (the exception ends the thread)", not hs,
           "an exception raised by the action is caught inside the periodic loop")
    wait = [s for s in sites(run) if isinstance(s.node, ast.Call) and dotted(s.node.func) == f"{disposed}.wait"]
    nsec = locals_by_init(nsp, lambda v: u(v) == f"self.to_seconds({nsp.params[1]})")
    tv = u(wait[0].node.args[0]) if wait and wait[0].node.args else None
    tdef = [s for s in sites(run) if isinstance(s.node, ast.Assign) and u(s.node.targets[0]) == tv and isinstance(s.node.value, ast.BinOp)
            and isinstance(s.node.value.op, ast.Sub) and u(s.node.value.left) in nsec]
    ok = bool(wait) and tv is not None and bool(tdef) and calls and calls[0].index < tdef[0].index and wait[0].index < calls[0].index
    rep.ob("P4-period", run, "wait(timeout) before each tick; timeout = period - elapsed", ok, "the loop does not wait one period (minus the action's duration) between ticks")
    # EventLoopScheduler
    esp = repo.fn(EL, "EventLoopScheduler.schedule_periodic")
    ok = any(isinstance(s.node, ast.Return) and isinstance(s.node.value, ast.Call) and dotted(s.node.value.func) == "super().schedule_periodic"
             and [u(a) for a in s.node.value.args] + [u(k.value) for k in s.node.value.keywords] == esp.params[1:] for s in sites(esp))
    rep.ob("P2-stops-on-dispose", esp, "EventLoopScheduler delegates to PeriodicScheduler with the same arguments", ok,
           "EventLoopScheduler.schedule_periodic does not forward period/action/state to the shared implementation")
    if rep.tier == "thorough":
        qt = repo.opt_fn("reactivex/scheduler/mainloop/qtscheduler.py", "QtScheduler.schedule_periodic.interval")
        if qt is not None:
            state_threading(rep, qt, "QtScheduler")
    # timers
    ta = repo.fn(TM, "observable_timer_duetime_and_period.subscribe.action")
    from ..rules import names_stepped_by_one
    cnts = names_stepped_by_one(ta)
    if len(cnts) != 1:
        cnts = ["?counter"]
    inc = [s for s in sites(ta) if isinstance(s.node, ast.AugAssign) and cell_name(s.node.target) == cnts[0] and isinstance(s.node.op, ast.Add) and u(s.node.value) == "1"]
    em = [s for s in sites(ta) if isinstance(s.node, ast.Call) and dotted(s.node.func) == "observer.on_next" and cell_name(s.node.args[0]) == cnts[0]]
    rep.ob("P5-timers", ta, "emit count, then count += 1, every tick", len(inc) == 1 and len(em) == 1 and em[0].index < inc[0].index and not inc[0].ctx.branch,
           "periodic timers do not emit 0, 1, 2, ...")
    tp = repo.fn(TM, "observable_timer_timespan_and_period.subscribe")
    ok = any(isinstance(s.node, ast.Return) and isinstance(s.node.value, ast.Call) and isinstance(s.node.value.func, ast.Attribute)
             and s.node.value.func.attr == "schedule_periodic" and u(s.node.value.args[0]) == "period" and u(arg_of(s.node.value, 2, "state")) == "0" for s in sites(tp))
    rep.ob("P5-timers", tp, "timer(p, p) = schedule_periodic(period, action, state=0)", ok, "the equal-period timer does not start its count at 0 on the periodic scheduler")
    iv = repo.fn(IV, "interval_")
    rep.ob("P5-timers", iv, "interval = timer(period, period, scheduler)", any(isinstance(s.node, ast.Return) and u(s.node.value) == "timer(period, period, scheduler)" for s in sites(iv)),
           "interval is no longer timer(period, period)")
