"""C36 — time values convert consistently between representations (S1)."""
from __future__ import annotations

import ast

from ..astutil import call_name, dotted, short, u
from ..core import Report
from ..ctx import sites
from ..frontend import Repo

SCH = "reactivex/scheduler/scheduler.py"
CON = "reactivex/internal/constants.py"
BAS = "reactivex/internal/basic.py"
NAIVE = {"utcnow", "utcfromtimestamp", "today"}


def tz_relabels(tree: ast.AST):
    """(node, why) for constructs that relabel instead of convert a datetime's zone."""
    out = []
    for n in ast.walk(tree):
        if isinstance(n, ast.Call) and isinstance(n.func, ast.Attribute):
            if n.func.attr == "replace" and any(k.arg == "tzinfo" for k in n.keywords):
                out.append((n, "re-labels the time zone with replace(tzinfo=...) instead of converting"))
            elif n.func.attr == "astimezone" and not n.args and not n.keywords:
                out.append((n, "converts to the *local* zone of the process"))
            elif n.func.attr == "astimezone" and isinstance(n.func.value, ast.Call) and call_name(n.func.value) == "datetime" \
                    and not any(k.arg == "tzinfo" for k in n.func.value.keywords) and len(n.func.value.args) < 8:
                out.append((n, "interprets a naive datetime(...) literal in the local zone of the process"))
    return out


def check(repo: Repo, rep: Report) -> None:
    rep.explanation = (
        "Structural clauses of the time conversions: every datetime construction in the package that reads a clock or a "
        "timestamp passes an explicit UTC tz (datetime.now(tz) / fromtimestamp(x, tz=timezone.utc)); the naive forms "
        "(utcnow, utcfromtimestamp, today, now()) are absent (a naive value makes every comparison with scheduler times "
        "raise TypeError); the three converters are defined relative to the single epoch constant UTC_ZERO, which is "
        "itself timezone-aware; each converter is the identity on its own target type (isinstance branch leaves it "
        "untouched) and uses the exact inverse operation of its sibling (timedelta <-> total_seconds, +/- UTC_ZERO); "
        "Scheduler.now is default_now() = datetime.now(timezone.utc). Exact float round-trips are arithmetic and are not decided.")
    rep.rule("Z1-aware-datetimes", "no naive datetime is ever created from a clock or timestamp", floor=3)
    rep.rule("Z2-epoch", "converters use the one tz-aware epoch constant and inverse operations; identity on the target type", floor=8)
    n = 0
    for f in list(repo.all_functions()) + [m.root for m in repo.modules.values()]:
        for node in f.direct_nodes():
            if not isinstance(node, ast.Call) or not isinstance(node.func, ast.Attribute):
                continue
            a = node.func.attr
            recv = dotted(node.func.value) or ""
            if recv.split(".")[-1] not in ("datetime",) and recv not in ("datetime", "datetime.datetime"):
                continue
            if a in NAIVE:
                n += 1
                rep.ob("Z1-aware-datetimes", f, short(node), False, f"`{short(node)}` creates a naive datetime: comparing it with "
                       f"timezone-aware scheduler times raises TypeError")
            elif a == "now":
                n += 1
                ok = bool(node.args) or any(k.arg == "tz" for k in node.keywords)
                tz = u(node.args[0]) if node.args else next((u(k.value) for k in node.keywords if k.arg == "tz"), "")
                rep.ob("Z1-aware-datetimes", f, short(node), ok and "utc" in tz.lower(),
                       f"`{short(node)}` is not datetime.now(timezone.utc): the scheduler clock is naive or not UTC")
            elif a == "fromtimestamp":
                n += 1
                tz = next((u(k.value) for k in node.keywords if k.arg == "tz"), u(node.args[1]) if len(node.args) > 1 else "")
                rep.ob("Z1-aware-datetimes", f, short(node), "utc" in tz.lower(),
                       f"`{short(node)}` has no tz=timezone.utc: the result is a naive local time")
    n_constructions = n
    # Z3: an aware datetime is converted (astimezone / arithmetic), never relabelled
    # Z4: an absolute due time may be a datetime or a float timestamp: every schedule_absolute that computes with it converts it first
    rep.rule("Z4-absolute-converted", "every schedule_absolute that does arithmetic / comparisons on its due time goes through self.to_datetime(duetime) first", floor=12)
    for rel in sorted(repo.modules):
        if not rel.startswith("reactivex/scheduler/"):
            continue
        for c in repo.modules[rel].tree.body:
            if not isinstance(c, ast.ClassDef):
                continue
            for mth in c.body:
                if not (isinstance(mth, ast.FunctionDef) and mth.name == "schedule_absolute" and len(mth.args.args) >= 3):
                    continue
                d_ = mth.args.args[1].arg
                conv = {t.id for x in ast.walk(mth) if isinstance(x, ast.Assign) and isinstance(x.value, ast.Call) and u(x.value.func) == "self.to_datetime"
                        and [u(a) for a in x.value.args] == [d_] for t in x.targets if isinstance(t, ast.Name)}
                raw_use = []
                for x in ast.walk(mth):
                    if isinstance(x, (ast.BinOp, ast.Compare)):
                        operands = [x.left, x.right] if isinstance(x, ast.BinOp) else [x.left] + list(x.comparators)
                        for o in operands:
                            if isinstance(o, ast.Name) and o.id == d_ and d_ not in conv:
                                raw_use.append(short(x, 40))
                uses = [x for x in ast.walk(mth) if isinstance(x, (ast.BinOp, ast.Compare)) and any(isinstance(y, ast.Name) and y.id in (conv | {d_}) for y in ast.walk(x))]
                for x in ast.walk(mth):     # a due time stored in a ScheduledItem is compared with datetimes by the queue
                    if isinstance(x, ast.Call) and call_name(x) == "ScheduledItem":
                        uses.append(x)
                        if any(isinstance(a, ast.Name) and a.id == d_ for a in x.args) and d_ not in conv:
                            raw_use.append(short(x, 40))
                if not uses:
                    continue
                rep.ob("Z4-absolute-converted", f"{rel}::{c.name}.schedule_absolute", f"{c.name}.schedule_absolute: computes with {sorted(conv) or 'the raw argument'}", not raw_use,
                       f"{c.name}.schedule_absolute computes `{'; '.join(raw_use)}` on the raw argument: a due time given as a float timestamp "
                       f"(AbsoluteTime = datetime | float) raises TypeError instead of being scheduled")
    rep.rule("Z3-no-relabel", "no `.replace(tzinfo=...)` / argument-less `.astimezone()` on time values: relabelling changes the instant, "
                              "and the local zone must not leak into conversions", floor=1)
    probe = ast.parse("d = x.replace(tzinfo=timezone.utc)\ne = datetime(1970, 1, 1).astimezone()\nf = y.replace(hour=3)\ng = datetime(1970, 1, 1).astimezone(timezone.utc)")
    rep.require(len(tz_relabels(probe)) == 3, "self-test of the relabel matcher (expected 3 matches in the embedded example)")
    rep.ob("Z3-no-relabel", "reactivex", "matcher self-test: 3 of 4 embedded constructs match", True, nontrivial=False)
    n_mod = 0
    for mod in repo.modules.values():
        if not mod.rel.startswith("reactivex/"):
            continue
        n_mod += 1
        for node, why in tz_relabels(mod.tree):
            f = mod.fn_at(node) or mod.root
            rep.ob("Z3-no-relabel", f, short(node, 70), False,
                   f"`{short(node, 70)}` {why}: the value then denotes a different instant than the one passed in (by the zone's "
                   f"offset), so absolute due times fire early / late and conversions stop agreeing")
    rep.extra["modules_scanned_for_relabel"] = n_mod
    con = repo.module(CON)
    ok = any(isinstance(x, ast.Assign) and u(x.targets[0]) == "UTC_ZERO" and "fromtimestamp(0" in u(x.value) and "utc" in u(x.value).lower()
             for x in con.tree.body)
    rep.ob("Z2-epoch", con.root, "UTC_ZERO = datetime.fromtimestamp(0, tz=timezone.utc)", ok, "the epoch constant is not the tz-aware UNIX epoch")
    dn = repo.fn(BAS, "default_now")
    ok = any(isinstance(s.node, ast.Return) and u(s.node.value) == "datetime.now(timezone.utc)" for s in sites(dn))
    rep.ob("Z2-epoch", dn, "default_now() = datetime.now(timezone.utc)", ok, "the default clock is not an aware UTC datetime")
    now = repo.fn(SCH, "Scheduler.now")
    ok = any(isinstance(s.node, ast.Return) and u(s.node.value) == "default_now()" for s in sites(now))
    rep.ob("Z2-epoch", now, "Scheduler.now = default_now()", ok, "Scheduler.now is not the aware UTC clock")
    def dt_to_td(e, v):
        return isinstance(e, ast.BinOp) and isinstance(e.op, ast.Sub) and u(e.left) == v and u(e.right) == "UTC_ZERO"

    def td_to_dt(e, v):
        return isinstance(e, ast.BinOp) and isinstance(e.op, ast.Add) and {u(e.left), u(e.right)} == {v, "UTC_ZERO"}

    def td_to_float(e, v):
        return isinstance(e, ast.Call) and dotted(e.func) == f"{v}.total_seconds" and not e.args and not e.keywords

    def float_to_td(e, v):
        return isinstance(e, ast.Call) and call_name(e) == "timedelta" and not e.args and len(e.keywords) == 1 \
            and e.keywords[0].arg == "seconds" and u(e.keywords[0].value) == v

    def float_to_dt(e, v):
        return isinstance(e, ast.Call) and call_name(e) == "fromtimestamp" and e.args and u(e.args[0]) in (v, f"({v})") \
            and any(k.arg == "tz" and "utc" in u(k.value).lower() for k in e.keywords)

    specs = {
        "to_seconds": [("datetime", dt_to_td, "value - UTC_ZERO"), ("timedelta", td_to_float, "value.total_seconds()")],
        "to_datetime": [("timedelta", td_to_dt, "UTC_ZERO + value"), ("!datetime", float_to_dt, "datetime.fromtimestamp(value, tz=timezone.utc)")],
        "to_timedelta": [("datetime", dt_to_td, "value - UTC_ZERO"), ("!timedelta", float_to_td, "timedelta(seconds=value)")],
    }
    for name, steps in specs.items():
        m = repo.fn(SCH, f"Scheduler.{name}")
        v = m.params[1]
        from ..rules import assigned_expr, assign_target
        assigns = [s for s in sites(m) if assign_target(s.node) is not None and u(assign_target(s.node)) == v]
        got = []
        for s in assigns:
            g = None
            for e, p in s.ctx.guards:
                if isinstance(e, ast.Call) and call_name(e) == "isinstance" and u(e.args[0]) == v:
                    g = ("" if p else "!") + u(e.args[1])
            got.append((g, assigned_expr(s.node)))
        ok = len(got) == len(steps) and all(g[0] == w[0] and w[1](g[1], v) for g, w in zip(got, steps))
        rep.ob("Z2-epoch", m, f"{name}: {[(g, u(e)) for g, e in got]}", ok,
               f"{name} does not convert through the single epoch UTC_ZERO with the inverse operation of its siblings "
               f"(expected {[(a, c) for a, _, c in steps]}): conversions stop round-tripping / preserving order")
        rets = [s for s in sites(m) if isinstance(s.node, ast.Return)]
        rep.ob("Z2-epoch", m, f"{name}: identity on its own type (returns value unchanged otherwise)", len(rets) == 1 and u(rets[0].node.value) == v and not rets[0].ctx.branch,
               f"{name} does not return its argument unchanged when it already has the target type")
    if not rep.violations:
        rep.require(n_constructions >= 3, f"datetime constructions found ({n_constructions})")
