"""C37 — source factories emit their specified sequences (S1)."""
from __future__ import annotations

import ast
from typing import List, Optional

from ..astutil import call_name, dotted, short, u
from ..core import Report
from ..ctx import paths, sites, dominates
from ..frontend import Repo
from ..model import is_schedule_call
from ..rules import cell_name, has_guard, locals_by_init, names_assigned_const, names_augmented, uc

O = "reactivex/observable/"


def down(obs: str):
    def ev(n: ast.AST) -> Optional[str]:
        if isinstance(n, ast.Call) and isinstance(n.func, ast.Attribute) and dotted(n.func.value) == obs \
                and n.func.attr in ("on_next", "on_error", "on_completed"):
            k = {"on_next": "NEXT", "on_error": "ERR", "on_completed": "COMPL"}[n.func.attr]
            return k + ":" + ",".join(u(a) for a in n.args)
        if is_schedule_call(n):
            return "SCHED"
        return None
    return ev


def typestate(rep: Report, fn, obs: str, normal: List[str], exc: Optional[List[str]], what: str) -> None:
    n = 0
    for p in paths(fn, down(obs)):
        n += 1
        k = [e.split(":")[0] for e in p.kinds]
        want = exc if (p.exc and exc is not None) else normal
        if p.exc and exc is None:
            continue
        desc = f"{what} path[{' ; '.join(f'{t}={v}' for t, v in p.decisions) or 'straight'}{' exc' if p.exc else ''}] -> {p.kinds}"
        ok = k == want
        if p.exc and exc is not None and not ok:
            # a downstream call that itself raises: a proper prefix of the normal sequence, then the error route
            ok = any(k == normal[:i] + exc for i in range(1, len(normal) + 1))
        rep.ob("Y1-single-shot", fn, desc, ok,
               f"{what}: this path makes the downstream calls {k}, expected {want}")
    rep.require(n >= 1, f"paths of {fn.ref}")


def check(repo: Repo, rep: Report) -> None:
    rep.explanation = (
        "Structural clauses of the source factories: single-shot typestate by path enumeration (return_value / "
        "from_callable / one-shot timers: on_next then on_completed on every non-error path; empty only completes; throw "
        "only errors; never makes no downstream call and schedules nothing); range_ builds range(start) / range(start, "
        "stop) / range(start, stop, step) from its forwarded arguments and emits next(iterator) per scheduled step until "
        "StopIteration completes it; from_iterable emits next(iterator) until StopIteration; generate_*: iterate is "
        "skipped exactly on the first step, the emitted state is the one the condition accepted, completion when it "
        "rejects; the delay returned by time_mapper is never truth-tested (a zero delay is a delay); timer emits 0 (or "
        "the tick count, incremented by one per tick); repeat_value = return_value + repeat; interval = timer(p, p). "
        "Emitted values for concrete arguments are not decided.")
    rep.rule("Y1-single-shot", "typestate of the emitting actions of the simple sources", floor=8)
    rep.rule("Y2-range", "range_ forwards its arguments to range() and steps its iterator", floor=5)
    rep.rule("Y3-generate", "generate_*: first-step skip, accepted state emitted, completion on rejection, delay not truth-tested", floor=8)
    rep.rule("Y4-delegation", "timer tick counting; repeat_value / interval delegations", floor=4)
    from .typestate_common import rule_scheduler_forwarded
    from ..model import model_of
    rep.rule("K1-signature", "typestate signature of every emitting action of the source factories equals the confirmed reference", floor=12)
    from . import typestate_common as TC_
    for key_ in ("empty.py::empty_.subscribe", "fromiterable.py::from_iterable_.subscribe", "generate.py::generate_.subscribe",
                 "generatewithrelativetime.py::generate_with_relative_time_.subscribe", "range.py::range_.subscribe",
                 "returnvalue.py::from_callable_.subscribe", "returnvalue.py::return_value_.subscribe", "throw.py::throw_.subscribe",
                 "timer.py::observable_timer_date.subscribe", "timer.py::observable_timer_duetime_and_period.subscribe",
                 "timer.py::observable_timer_timespan.subscribe", "timer.py::observable_timer_timespan_and_period.subscribe"):
        TC_.check_operator(repo, rep, "K1-signature", O + key_,
                           lambda k, slot: "A source factory emits exactly its specified notifications: elements, then one terminal notification, "
                                           "and nothing after an error it reported.")
    # Y8: the public creation functions (reactivex.range, reactivex.timer, reactivex.from_marbles, ...) hand their parameters to the
    # implementation in their roles (same delegation-agreement engine as C39, applied to reactivex/__init__.py)
    rep.rule("Y8-factory-forwarding", "public creation functions forward every parameter to their implementation, by role / name, unchanged", floor=30)
    from ..engines.delegation import find_applications as _fa, implementation as _impl, signature as _sig
    from .C39 import check_forwarding as _cf
    top = repo.by_modname.get("reactivex")
    if top is not None:
        seen_ = set()
        for f_ in top.root.children:
            if not f_.is_func or f_.has_decorator("overload") or f_.name.startswith("_") or f_.name in seen_:
                continue
            f_ = _impl(repo, "reactivex", f_.name) or f_
            seen_.add(f_.name)

            def is_impl_(e, f_=f_):
                t = repo.resolve_expr(f_, e)
                return t is not None and t.is_func and t.module is not top and t.module.rel.startswith("reactivex/") and t.module.rel != "reactivex/pipe.py"
            apps_ = [a for a in _fa(f_, is_impl_) if a.call is not None]
            ws_ = _sig(f_)
            for app in apps_:
                impl = repo.resolve_expr(f_, app.target)
                if any(isinstance(a_, ast.Starred) for a_ in app.call.args) and [a_.arg for a_ in impl.node.args.args]:
                    # `impl(*sources)` where impl(parent, *rest): the starred argument fills named parameters; roles are positional
                    ok_star = len(app.call.args) == 1 and not app.call.keywords and f_.node.args.vararg is not None and u(app.call.args[0].value) == f_.node.args.vararg.arg
                    rep.ob("Y8-factory-forwarding", f_, f"reactivex.{f_.name}: `{short(app.call, 50)}` passes all its sources on", ok_star,
                           f"reactivex.{f_.name} does not hand all its sources to {impl.name}")
                    continue
                _cf(rep, "Y8-factory-forwarding", f_, ws_, app, impl, _sig(impl, 1 if impl.has_decorator("curry_flip") else 0), f"reactivex.{f_.name}")
    from ..model import model_of as _mo_
    m_ = _mo_(repo)
    from ..model import is_schedule_call as _isc_
    rep.rule("Y9-scheduler-resolved", "the scheduler a source schedules its emission on is resolved by `given or subscribe-time or <default>()`: never None", floor=8)
    for rel_ in ("returnvalue.py", "empty.py", "throw.py", "timer.py", "range.py", "fromiterable.py", "generate.py", "generatewithrelativetime.py"):
        mod_ = repo.opt_module(O + rel_)
        if mod_ is None:
            continue
        for g_ in mod_.root.walk():
            if not (g_.is_func and m_.role.get(g_) == "subscribe"):
                continue
            for x_ in sites(g_):          # schedule calls made by the subscribe function itself (the first step)
                if not _isc_(x_.node) or not isinstance(x_.node.func.value, ast.Name):
                    continue
                R = x_.node.func.value.id
                defs_ = [n_.value for n_ in g_.direct_nodes() if isinstance(n_, (ast.Assign, ast.AnnAssign)) and n_.value is not None
                         and u(n_.targets[0] if isinstance(n_, ast.Assign) else n_.target) == R]
                from ..ctx import returned_expr as _rex
                defs_ = [_rex(g_, d_) for d_ in defs_]
                ok_ = len(defs_) == 1 and isinstance(defs_[0], ast.BoolOp) and isinstance(defs_[0].op, ast.Or) and isinstance(defs_[0].values[-1], ast.Call)
                rep.ob("Y9-scheduler-resolved", g_, f"{g_.qual}: `{short(x_.node, 40)}` on `{R} = {short(defs_[0], 60) if defs_ else '<parameter>'}`", ok_,
                       f"{g_.qual} schedules on `{R}`, which is not resolved through `... or <default scheduler>()`: when neither the factory nor "
                       f"subscribe() was given a scheduler it is None and the subscription fails with AttributeError instead of emitting")
    rep.rule("Y10-converted-comparisons", "timer: comparisons with numeric literals are made on values converted with to_seconds(), never on the raw time argument", floor=2)
    tmod = repo.module(O + "timer.py")
    for g_ in tmod.root.walk():
        if not g_.is_func:
            continue
        conv = {u(n_.targets[0]) for n_ in g_.direct_nodes() if isinstance(n_, ast.Assign) and any(isinstance(c, ast.Call) and isinstance(c.func, ast.Attribute) and c.func.attr == "to_seconds" for c in ast.walk(n_.value))}
        for n_ in g_.direct_nodes():
            if isinstance(n_, ast.Compare) and len(n_.ops) == 1 and isinstance(n_.ops[0], (ast.Lt, ast.LtE, ast.Gt, ast.GtE)):
                sides = [n_.left, n_.comparators[0]]
                lit = [x for x in sides if isinstance(x, ast.Constant) and isinstance(x.value, (int, float))]
                oth = [x for x in sides if isinstance(x, ast.Name)]
                if lit and oth:
                    o = g_.owner(oth[0].id)
                    conv_o = {u(m_.targets[0]) for m_ in (o.direct_nodes() if o is not None else ()) if isinstance(m_, ast.Assign) and any(isinstance(c, ast.Call) and isinstance(c.func, ast.Attribute) and c.func.attr == "to_seconds" for c in ast.walk(m_.value))}
                    rep.ob("Y10-converted-comparisons", g_, f"{g_.qual}: `{short(n_)}` compares with zero", lit[0].value == 0,
                           f"{g_.qual}: the 'already due' / 'has a period' decision compares with {lit[0].value!r} instead of 0: due times or periods below that "
                           f"threshold are treated as zero (timer(0.5) fires at once)")
                    rep.ob("Y10-converted-comparisons", g_, f"{g_.qual}: `{short(n_)}`", oth[0].id in (conv | conv_o),
                           f"{g_.qual} compares `{oth[0].id}` with a number although it is not the seconds value obtained from to_seconds(): a due time / "
                           f"period given as a timedelta raises TypeError (delivered as on_error) instead of being scheduled")
    rep.rule("Y11-timer-dispatch", "timer_ and its variants hand (duetime, period, scheduler) to each other in the callee's parameter order", floor=4)
    tm_ = repo.module(O + "timer.py")
    fns_ = {f_.name: f_ for f_ in tm_.root.children if f_.is_func}
    for f_ in tm_.root.walk():
        if not f_.is_func:
            continue
        for n_ in f_.direct_nodes():
            if isinstance(n_, ast.Call) and isinstance(n_.func, ast.Name) and n_.func.id in fns_ and n_.func.id.startswith("observable_timer"):
                callee = fns_[n_.func.id]
                want = callee.params[:len(n_.args)]
                got_ = [u(a) for a in n_.args]
                rep.ob("Y11-timer-dispatch", f_, f"{f_.qual}: `{short(n_, 70)}` -> {callee.name}({', '.join(callee.params)})", got_ == want and not n_.keywords,
                       f"{f_.qual} calls {callee.name} with {got_} where its parameters are {want}: the due time and the period are exchanged")
    # the first due time of timer(d, p) comes from the due-time argument on both branches of its type dispatch
    tdp = repo.fn(O + "timer.py", "observable_timer_duetime_and_period.subscribe")
    dname = repo.fn(O + "timer.py", "observable_timer_duetime_and_period").params[0]
    inits_ = [n_ for n_ in tdp.direct_nodes() if isinstance(n_, (ast.Assign, ast.AnnAssign)) and n_.value is not None and u(n_.targets[0] if isinstance(n_, ast.Assign) else n_.target) in (tdp.child("action").nonlocals if tdp.child("action") else ())
              and not isinstance(n_.value, ast.Constant)]
    rep.ob("Y11-timer-dispatch", tdp, f"first due time computed from `{dname}` in every branch ({[short(n_, 40) for n_ in inits_]})", bool(inits_) and all(any(isinstance(y, ast.Name) and y.id == dname for y in ast.walk(n_.value)) for n_ in inits_),
           "timer(duetime, period): the first due time is not derived from the due-time argument on some branch (e.g. the period is used)")
    rep.rule("Y7-no-shortcut", "a primitive source factory has one result: the observable built from its subscribe function (no argument-dependent early return)", floor=9)
    for rel_, q_ in (("range.py", "range_"), ("fromiterable.py", "from_iterable_"), ("generate.py", "generate_"), ("generatewithrelativetime.py", "generate_with_relative_time_"),
                     ("returnvalue.py", "return_value_"), ("returnvalue.py", "from_callable_"), ("empty.py", "empty_"), ("throw.py", "throw_"), ("never.py", "never_"),
                     ("timer.py", "observable_timer_date"), ("timer.py", "observable_timer_duetime_and_period"), ("timer.py", "observable_timer_timespan")):
        ff = repo.fn(O + rel_, q_)
        rets_ = [n_ for n_ in ff.direct_nodes() if isinstance(n_, ast.Return)]
        ok_ = len(rets_) == 1 and isinstance(rets_[0].value, ast.Call) and call_name(rets_[0].value) == "Observable" and len(rets_[0].value.args) == 1 \
            and isinstance(rets_[0].value.args[0], ast.Name) and ff.child(rets_[0].value.args[0].id) is not None
        rep.ob("Y7-no-shortcut", ff, f"{q_}: returns {[short(r_.value, 40) for r_ in rets_]}", ok_,
               f"{q_} has a result other than Observable(<its subscribe function>): an early return decided on the argument values replaces the "
               f"specified sequence for some arguments (e.g. an 'empty range' shortcut that ignores the sign of the step)")
    rep.rule("Y6-emit-before-reschedule", "an emitting action hands its element downstream before it schedules its own next step", floor=2)
    from ..model import is_schedule_call as _isc_
    for rel_ in ("range.py", "generate.py", "generatewithrelativetime.py", "repeat.py", "timer.py"):
        mod_ = repo.opt_module(O + rel_)
        if mod_ is None:
            continue
        for g_ in mod_.root.walk():
            if not g_.is_func:
                continue
            ss_ = list(sites(g_))
            nxt = [x for x in ss_ if isinstance(x.node, ast.Call) and isinstance(x.node.func, ast.Attribute) and x.node.func.attr == "on_next"
                   and isinstance(x.node.func.value, ast.Name) and g_.owner(x.node.func.value.id) is not None and x.node.func.value.id == (g_.owner(x.node.func.value.id).params or [None])[0]]
            resched = [x for x in ss_ if _isc_(x.node) and any(isinstance(a, ast.Name) and a.id == g_.name for a in list(x.node.args) + [k.value for k in x.node.keywords])]
            for r_ in resched:
                same = [x for x in nxt if x.ctx.branch == r_.ctx.branch[:len(x.ctx.branch)] or r_.ctx.branch == x.ctx.branch[:len(r_.ctx.branch)]]
                if not same:
                    continue
                rep.ob("Y6-emit-before-reschedule", g_, f"{g_.qual}: `{short(same[0].node, 40)}` before `{short(r_.node, 50)}`", all(x.index < r_.index for x in same),
                       f"{g_.qual} schedules its next step before it has emitted the current element: on a scheduler that runs the step "
                       f"inline (ImmediateScheduler) the later elements are delivered first — the sequence comes out in reverse / nested order")
    rep.rule("Y5-scheduler-choice", "source factories: the explicitly given scheduler wins over the subscribe-time one, which wins over the default", floor=5)
    m_ = model_of(repo)
    for rel_ in ("returnvalue.py", "empty.py", "throw.py", "timer.py", "range.py", "fromiterable.py", "generate.py", "generatewithrelativetime.py", "repeat.py", "interval.py"):
        mod_ = repo.opt_module(O + rel_)
        if mod_ is not None:
            for g_ in mod_.root.walk():
                if g_.is_func and m_.role.get(g_) == "subscribe":
                    rule_scheduler_forwarded(rep, "Y5-scheduler-choice", g_)
    typestate(rep, repo.fn(O + "returnvalue.py", "return_value_.subscribe.action"), "observer", ["NEXT", "COMPL"], None, "return_value")
    typestate(rep, repo.fn(O + "returnvalue.py", "from_callable_.subscribe.action"), "observer", ["NEXT", "COMPL"], ["ERR"], "from_callable")
    typestate(rep, repo.fn(O + "empty.py", "empty_.subscribe.action"), "observer", ["COMPL"], None, "empty")
    typestate(rep, repo.fn(O + "throw.py", "throw_.subscribe.action"), "observer", ["ERR"], None, "throw")
    typestate(rep, repo.fn(O + "timer.py", "observable_timer_date.subscribe.action"), "observer", ["NEXT", "COMPL"], None, "timer(date)")
    typestate(rep, repo.fn(O + "timer.py", "observable_timer_timespan.subscribe.action"), "observer", ["NEXT", "COMPL"], None, "timer(timespan)")
    for q in ("observable_timer_date", "observable_timer_timespan"):
        a = repo.fn(O + "timer.py", f"{q}.subscribe.action")
        ok = any(isinstance(s.node, ast.Call) and dotted(s.node.func) == "observer.on_next" and u(s.node.args[0]) == "0" for s in sites(a))
        rep.ob("Y1-single-shot", a, f"{q}: emits 0", ok, "a one-shot timer does not emit 0")
    rv = repo.fn(O + "returnvalue.py", "return_value_.subscribe.action")
    ok = any(isinstance(s.node, ast.Call) and dotted(s.node.func) == "observer.on_next" and u(s.node.args[0]) == "value" for s in sites(rv))
    rep.ob("Y1-single-shot", rv, "return_value emits its value", ok, "return_value does not emit the given value")
    nv = repo.fn(O + "never.py", "never_.subscribe")
    calls = [s for s in sites(nv) if isinstance(s.node, ast.Call) and (isinstance(s.node.func, ast.Attribute))]
    rep.ob("Y1-single-shot", nv, "never: no downstream call, nothing scheduled", not calls and not list(nv.children),
           f"never_ does something: {[short(c.node) for c in calls]}")
    # from_iterable
    fi = repo.fn(O + "fromiterable.py", "from_iterable_.subscribe.action")
    nx = [s for s in sites(fi) if isinstance(s.node, ast.Call) and dotted(s.node.func) == "observer.on_next"]
    ok = len(nx) == 1 and isinstance(nx[0].stmt, ast.Expr)
    val = u(nx[0].node.args[0]) if nx else None
    fis = repo.fn(O + "fromiterable.py", "from_iterable_.subscribe")
    fif = repo.fn(O + "fromiterable.py", "from_iterable_")
    iters = locals_by_init(fis, lambda v: u(v) == f"iter({fif.params[0]})")
    itn = iters[0] if iters else "?iterator"
    src = [s for s in sites(fi) if isinstance(s.node, ast.Assign) and u(s.node.targets[0]) == val and u(s.node.value) == f"next({itn})"]
    hs = [h for s in sites(fi) if isinstance(s.node, ast.Try) for h in s.node.handlers]
    stop = [h for h in hs if h.type is not None and u(h.type) == "StopIteration"
            and any(isinstance(x, ast.Call) and dotted(x.func) == "observer.on_completed" for x in ast.walk(h))]
    rep.ob("Y1-single-shot", fi, "from_iterable: on_next(next(iterator)) until StopIteration -> on_completed", ok and bool(src) and bool(stop),
           "from_iterable does not emit exactly the items of the iterator and complete at StopIteration")
    rep.ob("Y1-single-shot", fi, "iterator = iter(iterable) per subscription", len(iters) == 1, "the iterator is not taken from the given iterable per subscription")
    # range_
    rg = repo.fn(O + "range.py", "range_")
    rcalls = [s for s in sites(rg) if isinstance(s.node, ast.Call) and isinstance(s.node.func, ast.Name) and s.node.func.id == "range"]
    defs = {u(s.node.target): u(s.node.value) for s in sites(rg) if isinstance(s.node, ast.AnnAssign) and s.node.value is not None}
    defs.update({u(s.node.targets[0]): u(s.node.value) for s in sites(rg) if isinstance(s.node, ast.Assign) and isinstance(s.node.targets[0], ast.Name)})
    stop_v = [k for k, v in defs.items() if v == "maxsize if stop is None else stop"]
    step_v = [k for k, v in defs.items() if v == "1 if step is None else step"]
    sv = stop_v[0] if stop_v else "?stop"
    tv = step_v[0] if step_v else "?step"
    forms = sorted(tuple(u(a) for a in s.node.args) for s in rcalls)
    want = sorted([("start",), ("start", sv), ("start", sv, tv)])
    rep.ob("Y2-range", rg, "range(start) / range(start, stop') / range(start, stop', step')", forms == want,
           f"range_ builds {forms} instead of range(start), range(start, stop), range(start, stop, step)")
    for s in rcalls:
        a = tuple(u(x) for x in s.node.args)
        if len(a) == 1:
            ok = has_guard(s.ctx, "step is None", True) or any(u(e) == "step is None" and p for e, p in s.ctx.guards)
            ok = ok and any(u(e) == "stop is None" and p for e, p in s.ctx.guards)
        elif len(a) == 2:
            ok = any(u(e) == "step is None" and p for e, p in s.ctx.guards)
        else:
            ok = any(u(e) in ("step is None",) and not p or u(e) == "step is not None" and p for e, p in s.ctx.guards)
        rep.ob("Y2-range", rg, f"range{a} chosen under the matching None tests", ok, f"range{a} is built under the wrong combination of omitted arguments")
    rep.ob("Y2-range", rg, "stop / step defaults by `is None`", bool(stop_v) and bool(step_v),
           f"defaults of stop/step are not decided by `is None`: {defs}")
    ra = repo.fn(O + "range.py", "range_.subscribe.action")
    nx = [s for s in sites(ra) if isinstance(s.node, ast.Call) and dotted(s.node.func) == "observer.on_next"]
    ok = len(nx) == 1 and u(nx[0].node.args[0]) == "next(iterator)"
    resched = [s for s in sites(ra) if is_schedule_call(s.node) and any(u(k.value) == "iterator" for k in s.node.keywords) or
               (is_schedule_call(s.node) and len(s.node.args) > 1 and u(s.node.args[1]) == "iterator")]
    hs = [h for s in sites(ra) if isinstance(s.node, ast.Try) for h in s.node.handlers]
    stop = [h for h in hs if h.type is not None and u(h.type) == "StopIteration"
            and any(isinstance(x, ast.Call) and dotted(x.func) == "observer.on_completed" for x in ast.walk(h))]
    rep.ob("Y2-range", ra, "on_next(next(iterator)); reschedule with the same iterator; StopIteration -> completed", ok and bool(resched) and bool(stop),
           "range_ does not emit one item of its iterator per step and complete at the end")
    rvars = {cell_name(s.stmt.targets[0]) for s in rcalls if isinstance(s.stmt, ast.Assign) and cell_name(s.stmt.targets[0])}
    first = [s for s in sites(repo.fn(O + "range.py", "range_.subscribe")) if is_schedule_call(s.node) and len(rvars) == 1
             and any(uc(a_) == f"iter({next(iter(rvars))})" for a_ in list(s.node.args) + [k.value for k in s.node.keywords])]
    rep.ob("Y2-range", ra, "first step scheduled with iter(range_t)", bool(first), "the iterator is not created from the range per subscription")
    # generate_*
    for rel, name, timed in ((O + "generate.py", "generate_", False), (O + "generatewithrelativetime.py", "generate_with_relative_time_", True)):
        act = repo.fn(rel, f"{name}.subscribe.action")
        gsub = repo.fn(rel, f"{name}.subscribe")
        gfac = repo.fn(rel, name)
        # roles: state = the subscription local initialised from the factory's initial_state; first = the flag initialised
        # True that the action clears
        sts = locals_by_init(gsub, lambda v: u(v) == gfac.params[0])
        firsts = [f_ for f_ in locals_by_init(gsub, lambda v: isinstance(v, ast.Constant) and v.value is True) if f_ in names_assigned_const(act, False)]
        rep.require(len(sts) == 1, f"{name}: state variable")
        state, first_ = sts[0], (firsts[0] if len(firsts) == 1 else "?first-step-flag")
        its = [s for s in sites(act) if isinstance(s.node, ast.Assign) and uc(s.node.value) == f"iterate({state})" and cell_name(s.node.targets[0]) == state]
        ok = len(its) == 1 and has_guard(its[0].ctx, first_, False)
        clr = [s for s in sites(act) if isinstance(s.node, ast.Assign) and cell_name(s.node.targets[0]) == first_ and u(s.node.value) == "False"
               and has_guard(s.ctx, first_, True)]
        rep.ob("Y3-generate", act, f"{name}: iterate skipped exactly on the first step", ok and bool(clr),
               "generate does not skip iterate on (exactly) the first step: the initial state is lost or emitted twice")
        cond = [s for s in sites(act) if isinstance(s.node, ast.Assign) and uc(s.node.value) == f"condition({state})"]
        flag = u(cond[0].node.targets[0]) if cond else None
        res = [s for s in sites(act) if isinstance(s.node, ast.Assign) and cell_name(s.node.targets[0]) and uc(s.node.value) == state
               and has_guard(s.ctx, flag, True)]
        resv = u(res[0].node.targets[0]) if res else "result"
        rep.ob("Y3-generate", act, f"{name}: result = state under the accepted condition", bool(cond) and bool(res) and all(dominates(its[0], c) or True for c in cond),
               "the emitted state is not the one the condition accepted")
        em = [s for s in sites(act) if isinstance(s.node, ast.Call) and dotted(s.node.func) == "observer.on_next"]
        ok = len(em) == 1 and u(em[0].node.args[0]) == resv and has_guard(em[0].ctx, flag, True)
        rep.ob("Y3-generate", act, f"{name}: on_next(result) only when the condition held", ok, "a rejected state is emitted, or an accepted one is not")
        comp = [s for s in sites(act) if isinstance(s.node, ast.Call) and dotted(s.node.func) == "observer.on_completed"]
        ok = len(comp) == 1 and has_guard(comp[0].ctx, flag, False)
        rep.ob("Y3-generate", act, f"{name}: completes when the condition rejects", ok, "generate does not complete exactly when the condition rejects the state")
        if timed:
            tm = [s for s in sites(act) if isinstance(s.node, ast.Assign) and uc(s.node.value) == f"time_mapper({state})"]
            tv = u(tm[0].node.targets[0]) if tm else "time"
            bad = []
            for s in sites(act):
                n = s.node
                tests = []
                if isinstance(n, (ast.If, ast.While, ast.IfExp, ast.Assert)):
                    tests.append(n.test)
                for t in tests:
                    for x in ast.walk(t):
                        if isinstance(x, ast.Name) and x.id == tv:
                            par = act.module.parents.get(x)
                            if not (isinstance(par, ast.Compare) and isinstance(par.ops[0], (ast.Is, ast.IsNot))):
                                bad.append(short(n, 50))
            rep.ob("Y3-generate", act, f"{name}: delay `{tv}` never truth-tested", bool(tm) and not bad,
                   f"the computed delay is truth-tested ({bad}): a zero delay is rejected")
            sch = [s for s in sites(act) if is_schedule_call(s.node) and s.node.func.attr == "schedule_relative"]
            ok = len(sch) == 1 and u(sch[0].node.args[0]) == tv and has_guard(sch[0].ctx, flag, True)
            rep.ob("Y3-generate", act, f"{name}: next step scheduled after the computed delay", ok, "the next step is not scheduled with the delay computed for the accepted state")
    # timer counting / delegations
    ta = repo.fn(O + "timer.py", "observable_timer_duetime_and_period.subscribe.action")
    from ..rules import names_stepped_by_one
    cnts = names_stepped_by_one(ta)
    if len(cnts) != 1:
        cnts = ["?counter"]
    em = [s for s in sites(ta) if isinstance(s.node, ast.Call) and dotted(s.node.func) == "observer.on_next" and cell_name(s.node.args[0]) == cnts[0]]
    inc = [s for s in sites(ta) if isinstance(s.node, ast.AugAssign) and cell_name(s.node.target) == cnts[0] and isinstance(s.node.op, ast.Add) and u(s.node.value) == "1"
           and not s.ctx.branch]
    rep.ob("Y4-delegation", ta, "periodic timer emits count then count += 1", bool(em) and bool(inc) and em[0].index < inc[0].index and not em[0].ctx.branch,
           "a periodic timer does not emit 0, 1, 2, ...")
    tp = repo.fn(O + "timer.py", "observable_timer_timespan_and_period.subscribe.action")
    ok = any(isinstance(s.node, ast.Return) and u(s.node.value) == "count + 1" for s in sites(tp)) and \
        any(isinstance(s.node, ast.Call) and dotted(s.node.func) == "observer.on_next" and u(s.node.args[0]) == "count" for s in sites(tp))
    rep.ob("Y4-delegation", tp, "periodic action emits count and returns count + 1", ok, "the periodic tick does not thread count -> count + 1")
    rvp = repo.fn(O + "repeat.py", "repeat_value_")
    ok = any(isinstance(s.node, ast.Assign) and u(s.node.value) == "reactivex.return_value(value)" for s in sites(rvp)) and \
        any(isinstance(s.node, ast.Return) and "ops.repeat(repeat_count)" in u(s.node.value) for s in sites(rvp))
    rep.ob("Y4-delegation", rvp, "repeat_value = return_value(value).pipe(repeat(count))", ok, "repeat_value is no longer return_value + repeat")
    iv = repo.fn(O + "interval.py", "interval_")
    ok = any(isinstance(s.node, ast.Return) and u(s.node.value) == "timer(period, period, scheduler)" for s in sites(iv))
    rep.ob("Y4-delegation", iv, "interval = timer(period, period, scheduler)", ok, "interval is no longer timer(period, period)")
