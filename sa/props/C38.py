"""C38 — marble diagrams mean what the documented syntax says (S1)."""
from __future__ import annotations

import ast
from typing import Dict, Optional

from ..astutil import call_name, dotted, short, u
from ..core import Report
from ..ctx import sites, dominates
from ..frontend import AnalysisError, Repo
from ..rules import has_guard

M = "reactivex/observable/marbles.py"
RESERVED = set("-,()#|")


def const_strings(mod) -> Dict[str, str]:
    """Module-level string constants, including r"|".join([...names...])."""
    env: Dict[str, str] = {}
    for st in mod.tree.body:
        if isinstance(st, ast.Assign) and isinstance(st.targets[0], ast.Name):
            v = st.value
            if isinstance(v, ast.Constant) and isinstance(v.value, str):
                env[st.targets[0].id] = v.value
            elif isinstance(v, ast.Call) and isinstance(v.func, ast.Attribute) and v.func.attr == "join" \
                    and isinstance(v.func.value, ast.Constant) and v.args and isinstance(v.args[0], (ast.List, ast.Tuple)):
                parts = []
                for e in v.args[0].elts:
                    if isinstance(e, ast.Name) and e.id in env:
                        parts.append(env[e.id])
                    elif isinstance(e, ast.Constant):
                        parts.append(e.value)
                    else:
                        parts = None
                        break
                if parts is not None:
                    env[st.targets[0].id] = v.func.value.value.join(parts)
    return env


def check(repo: Repo, rep: Report) -> None:
    rep.explanation = (
        "Structural clauses of marbles.parse: spaces are removed before tokenising; in every loop iteration the token's "
        "timestamp (iframe * timespan + time_shift) is computed before any frame increment of that iteration; each token "
        "class advances the frame counter by the length of the text it consumed (len(group) / len(ticks) / len(element)), "
        "so multi-character values and groups occupy their width; group members are all emitted at the group's timestamp; "
        "check_stopped precedes the append for single elements and for every group member; map_element maps `|` and `#` "
        "to completion / error and everything else through number parsing then the lookup; the token regex (its AST via "
        "re._parser) tries groups before ticks before the stray comma before elements, and the element class excludes "
        "exactly the reserved characters. from_marbles / hot forward their arguments to parse. Parsing of arbitrary "
        "strings is not decided.")
    rep.rule("M1-timestamp-first", "timestamp computed before any frame increment in the iteration", floor=1)
    rep.rule("M2-frame-accounting", "each token class advances the frame counter by the length of its consumed text", floor=3)
    rep.rule("M3-emission", "elements and group members emitted at the token's timestamp, after check_stopped; map_element cases", floor=6)
    rep.rule("M4-regex", "token regex: alternative order and reserved-character partition", floor=3)
    rep.rule("M5-forwarding", "from_marbles / hot forward to parse; spaces stripped", floor=3)
    mod = repo.module(M)
    parse = repo.fn(M, "parse")
    loops = [s for s in sites(parse) if isinstance(s.node, ast.For) and "findall" in u(s.node.iter)]
    rep.require(len(loops) == 1, "token loop in parse")
    loop = loops[0]
    in_loop = [s for s in sites(parse) if loop.node in s.ctx.loops]
    aug = [s for s in in_loop if isinstance(s.node, ast.AugAssign) and isinstance(s.node.target, ast.Name)]
    frame_names = {u(s.node.target) for s in aug}
    ts = [s for s in in_loop if isinstance(s.node, ast.Assign) and isinstance(s.node.targets[0], ast.Name)
          and any(isinstance(x, ast.Name) and x.id in frame_names for x in ast.walk(s.node.value))]
    rep.require(len(ts) == 1 and len(frame_names) == 1, "timestamp assignment / frame counter in the token loop")
    FR = next(iter(frame_names))
    TS = u(ts[0].node.targets[0])
    incs = [s for s in aug if u(s.node.target) == FR]
    ok = len(ts) == 1 and not ts[0].ctx.branch[len(loop.ctx.branch) + 1:] and all(ts[0].index < i.index for i in incs)
    e = ts[0].node.value if ts else None
    form = isinstance(e, ast.BinOp) and isinstance(e.op, ast.Add) and {u(e.left), u(e.right)} >= {"time_shift"} and \
        any(isinstance(x, ast.BinOp) and isinstance(x.op, ast.Mult) and {u(x.left), u(x.right)} == {FR, "timespan"} for x in (e.left, e.right))
    rep.ob("M1-timestamp-first", parse, "timestamp = iframe * timespan + time_shift before any iframe +=", ok and bool(form),
           "a marble's time is not (index of the character that starts it) * timespan + shift: it is computed after the frame "
           "counter moved or with a different formula")
    # unpacking of the match groups
    unp = [s for s in in_loop if isinstance(s.node, ast.Assign) and isinstance(s.node.targets[0], ast.Tuple)]
    names = [u(x) for x in unp[0].node.targets[0].elts] if unp else []
    rep.require(len(names) == 4, "4-tuple unpacking of the token match")
    g_group, g_ticks, g_comma, g_elem = names
    for tok in (g_group, g_ticks, g_elem):
        mine = [i for i in incs if has_guard(i.ctx, tok, True)]
        ok = len(mine) == 1 and isinstance(mine[0].node.op, ast.Add) and u(mine[0].node.value) == f"len({tok})"
        rep.ob("M2-frame-accounting", parse, f"token class {['group', 'ticks', 'element'][(g_group, g_ticks, g_elem).index(tok)]}: frame += len(token)", ok,
               f"a `{tok}` token does not advance the frame counter by the length of the text it consumed: later marbles get the wrong time")
    stray = [i for i in incs if not any(has_guard(i.ctx, t, True) for t in (g_group, g_ticks, g_elem))]
    rep.ob("M2-frame-accounting", parse, "no other frame increments", not stray, f"the frame counter is also changed by {[short(i.node) for i in stray]}")
    # emission
    maps = [s for s in in_loop if isinstance(s.node, ast.Call) and isinstance(s.node.func, ast.Name) and s.node.func.id == "map_element"]
    rep.require(len(maps) >= 2, "map_element calls in the loop")
    for s in maps:
        rep.ob("M3-emission", parse, f"map_element #{maps.index(s)} stamped with the token's timestamp", u(s.node.args[0]) == TS,
               "a notification is not stamped with the time of the token that starts it (group members must share the opening position)")
    elem_map = [s for s in maps if u(s.node.args[1]) == g_elem]
    chk_e = [s for s in in_loop if isinstance(s.node, ast.Call) and dotted(s.node.func) == "check_stopped" and u(s.node.args[0]) == g_elem]
    rep.ob("M3-emission", parse, "check_stopped(element) before it is appended", bool(elem_map) and bool(chk_e) and chk_e[0].index < elem_map[0].index
           and has_guard(chk_e[0].ctx, g_elem, True), "marbles after a terminal one are not rejected (raise_stopped) before being recorded")
    grp_chk = [s for s in in_loop if isinstance(s.node, ast.Call) and dotted(s.node.func) == "check_stopped" and u(s.node.args[0]) != g_elem]
    grp_ext = [s for s in in_loop if isinstance(s.node, ast.Call) and isinstance(s.node.func, ast.Attribute) and s.node.func.attr == "extend"]
    ok = bool(grp_chk) and bool(grp_ext) and grp_chk[0].index < grp_ext[0].index and has_guard(grp_chk[0].ctx, g_group, True) \
        and any(isinstance(l, ast.For) for l in grp_chk[0].ctx.loops if l is not loop.node)
    rep.ob("M3-emission", parse, "check_stopped for every group member before the group is recorded", ok,
           "group members are not checked against a previous terminal marble")
    from .typestate_common import rule_scheduler_forwarded
    rep.rule("M6-scheduler-choice", "from_marbles: the scheduler given to from_marbles wins over the subscribe-time one; check_stopped tests membership in a collection of marbles", floor=2)
    rule_scheduler_forwarded(rep, "M6-scheduler-choice", repo.fn(M, "from_marbles.subscribe"))
    cs = repo.fn(M, "parse.check_stopped")
    for s_ in sites(cs):
        if isinstance(s_.node, ast.Raise):
            mentions_el = [u(e) for e, _p in s_.ctx.guards if any(isinstance(x, ast.Name) and x.id == cs.params[0] for x in ast.walk(e))]
            rep.ob("M6-scheduler-choice", cs, "check_stopped: anything after a terminal marble is rejected, whatever it is", not mentions_el,
                   f"the rejection in check_stopped also depends on the element itself ({mentions_el}): a second terminal marble after the first "
                   f"(`-a-|--#`) is accepted although rejection was requested")
    for s_ in sites(cs):
        n_ = s_.node
        if isinstance(n_, ast.Compare) and len(n_.ops) == 1 and isinstance(n_.ops[0], (ast.In, ast.NotIn)):
            c_ = n_.comparators[0]
            ok_ = isinstance(c_, (ast.Tuple, ast.List, ast.Set)) and sorted(u(e) for e in c_.elts) == ["'#'", "'|'"]
            rep.ob("M6-scheduler-choice", cs, f"check_stopped: `{short(n_)}` is membership in the two terminal marbles", ok_,
                   f"`{short(n_)}` is not a membership test in the collection ('#', '|'): a substring test on a string also accepts the "
                   f"empty element of a group like `(a,)`, which then counts as a terminal marble")
    # hot(): the delivery loop must not iterate the live subscriber list -- a subscriber that unsubscribes from inside its
    # callback (AutoDetachObserver does, on a terminal notification) removes itself and makes the loop skip its neighbour
    rep.rule("M7-hot-delivery", "hot: each parsed notification is delivered to a snapshot of the subscriber list", floor=1)
    hot = repo.fn(M, "hot")
    subs_lists = {a.node.func.value.id for g in hot.walk() if g.is_func for a in sites(g)
                  if isinstance(a.node, ast.Call) and isinstance(a.node.func, ast.Attribute) and a.node.func.attr == "append"
                  and isinstance(a.node.func.value, ast.Name) and a.node.args and u(a.node.args[0]) in g.params}
    n_loops = 0
    for g in hot.walk():
        if not g.is_func:
            continue
        for s_ in sites(g):
            n_ = s_.node
            if isinstance(n_, ast.For) and any(isinstance(x, ast.Call) and isinstance(x.func, ast.Attribute) and x.func.attr == "accept" for x in ast.walk(n_)):
                n_loops += 1
                it = n_.iter
                live = isinstance(it, ast.Name) and it.id in subs_lists
                rep.ob("M7-hot-delivery", g, f"hot: `for {u(n_.target)} in {short(it, 30)}` iterates a snapshot", not live,
                       f"hot() delivers by iterating the live subscriber list `{u(it)}`: a subscriber that is detached by the notification "
                       f"it receives (every subscriber is, on `|` / `#`) removes itself during the loop, and the next subscriber "
                       f"never receives that notification")
    rep.require(n_loops >= 1 and subs_lists, "hot(): delivery loop / subscriber list")
    rep.rule("M8-number-cast", "try_number: int(text) is tried before float(text) and each result is returned unchanged", floor=1)
    tn = repo.fn(M, "parse.try_number")
    conv = [s_ for s_ in sites(tn) if isinstance(s_.node, ast.Call) and isinstance(s_.node.func, ast.Name) and s_.node.func.id in ("int", "float")]
    order = [s_.node.func.id for s_ in conv]
    direct = all(isinstance(s_.stmt, ast.Return) and s_.stmt.value is s_.node and len(s_.node.args) == 1 and u(s_.node.args[0]) == tn.params[0] for s_ in conv)
    rep.ob("M8-number-cast", tn, f"try_number: {' then '.join(order) or '?'}; results returned as they are", order == ["int", "float"] and direct,
           "a numeric marble is not converted by int(text) first and float(text) second with the result returned unchanged: integer marbles "
           "beyond 2**53 lose precision, or `2.0` / `1e3` are emitted as ints — the emitted element is not the documented value of the marble")
    me = repo.fn(M, "parse.map_element")
    rets = [s for s in sites(me) if isinstance(s.node, ast.Return)]
    kinds = {}
    for r in rets:
        v = r.node.value
        if isinstance(v, ast.Tuple) and len(v.elts) == 2 and isinstance(v.elts[1], ast.Call):
            k = call_name(v.elts[1])
            g = [u(e) for e, p in r.ctx.guards if p]
            kinds[k] = (u(v.elts[0]), g)
    ok = "OnCompleted" in kinds and any("== '|'" in x for x in kinds["OnCompleted"][1]) and \
        "OnError" in kinds and any("== '#'" in x for x in kinds["OnError"][1]) and "OnNext" in kinds and \
        all(k[0] == me.params[0] for k in kinds.values())
    rep.ob("M3-emission", me, f"map_element: {sorted(kinds)}", ok, "`|` / `#` / values are not mapped to completion / error / on_next at the given time")
    pf = repo.fn(M, "parse")
    lk = {"lookup"} | {t.id for n in pf.direct_nodes() if isinstance(n, ast.Assign) and any(isinstance(x, ast.Name) and x.id == "lookup" for x in ast.walk(n.value))
                       for t in n.targets if isinstance(t, ast.Name)}
    val = [s for s in sites(me) if isinstance(s.node, ast.Assign) and isinstance(s.node.value, ast.Call) and isinstance(s.node.value.func, ast.Attribute)
           and s.node.value.func.attr == "get" and dotted(s.node.value.func.value) in lk]
    num = [s for s in sites(me) if isinstance(s.node, ast.Assign) and "try_number" in u(s.node.value)]
    rep.ob("M3-emission", me, "value = lookup.get(try_number(element), ...)", bool(val) and bool(num) and num[0].index < val[0].index,
           "values are not parsed as numbers and then mapped through the lookup")
    # regex
    env = const_strings(mod)
    comp = [st for st in mod.tree.body if isinstance(st, ast.Assign) and isinstance(st.value, ast.Call) and dotted(st.value.func) == "re.compile"]
    rep.require(comp and isinstance(comp[0].value.args[0], ast.Name) and comp[0].value.args[0].id in env, "token regex constant")
    pat = env[comp[0].value.args[0].id]
    import re._parser as rp
    import re._constants as rc
    tree = rp.parse(pat)
    top = list(tree)
    ok = len(top) == 1 and top[0][0] is rc.BRANCH
    alts = top[0][1][1] if ok else []
    rep.ob("M4-regex", mod.root, f"pattern {pat!r}: 4 alternatives", len(alts) == 4, "the token regex is not an alternation of group | ticks | comma | element")
    if len(alts) == 4:
        def first_lit(a):
            a = list(a)
            while a and a[0][0] is rc.SUBPATTERN:
                a = list(a[0][1][3])
            return a
        lits = []
        for a in alts:
            fa = first_lit(a)
            op = fa[0] if fa else None
            if op is None:
                lits.append("?")
            elif op[0] is rc.LITERAL:
                lits.append(chr(op[1]))
            elif op[0] is rc.MAX_REPEAT:
                inner = list(op[1][2])
                lits.append(chr(inner[0][1]) + "+" if inner and inner[0][0] is rc.LITERAL else "rep")
            elif op[0] is rc.BRANCH:
                lits.append("branch")
            else:
                lits.append(str(op[0]))
        rep.ob("M4-regex", mod.root, f"alternative order {lits}", lits[:3] == ["(", "-+", ","] and lits[3] == "branch",
               "groups are not tried before ticks, stray commas and elements: a group would be split into single marbles")
        # element class
        el = first_lit(alts[3])
        negset = None
        singles = set()
        if el and el[0][0] is rc.BRANCH:
            for br in el[0][1][1]:
                br = list(br)
                if len(br) == 1 and br[0][0] is rc.LITERAL:
                    singles.add(chr(br[0][1]))
                elif len(br) == 1 and br[0][0] is rc.MAX_REPEAT:
                    lo, hi, sub = br[0][1]
                    sub = list(sub)
                    if lo == 1 and sub and sub[0][0] is rc.IN:
                        items = list(sub[0][1])
                        if items and items[0][0] is rc.NEGATE:
                            negset = {chr(x[1]) for x in items[1:] if x[0] is rc.LITERAL}
        rep.ob("M4-regex", mod.root, f"element = {sorted(singles)} | [^{''.join(sorted(negset or []))}]+", singles == {"#", "|"} and negset == RESERVED,
               f"the element class does not exclude exactly the reserved characters {sorted(RESERVED)} (or `#`/`|` are not single-character tokens)")
    # forwarding
    strip = [s for s in sites(parse) if isinstance(s.node, ast.Assign) and u(s.node.targets[0]) == "string" and "replace(' ', '')" in u(s.node.value)]
    rep.ob("M5-forwarding", parse, "spaces removed before tokenising", bool(strip) and strip[0].index < loop.index, "spaces advance time")
    for fname, extra in (("hot", {"time_shift": "duetime"}), ("from_marbles", {})):
        f = repo.fn(M, fname)
        calls = [s for s in sites(f) if isinstance(s.node, ast.Call) and isinstance(s.node.func, ast.Name) and s.node.func.id == "parse"]
        ok = len(calls) == 1
        if ok:
            c = calls[0].node
            kw = {k.arg: u(k.value) for k in c.keywords}
            ok = u(c.args[0]) == "string" and kw.get("timespan") == "timespan" and kw.get("lookup") == "lookup" and kw.get("error") == "error" \
                and all(kw.get(k) == v for k, v in extra.items()) and kw.get("raise_stopped") == "True"
        rep.ob("M5-forwarding", f, f"{fname} -> parse(string, timespan=, lookup=, error=...)", ok, f"{fname} does not forward its arguments to parse in their roles (with raise_stopped=True: marbles after the terminal marble are an error, not silently dropped)")
    # the marbles test context's cold() / hot() are the library's own from_marbles / hot with the context's timespan (and, for hot,
    # the subscription time as due time, on the context's scheduler): one marble semantics, not a second one rebuilt from exp()
    TMB = "reactivex/testing/marbles.py"
    mt = repo.fn(TMB, "marbles_testing")
    from ..rules import locals_by_init as _lbi
    ts_name = mt.params[0] if mt.params else "?timespan"
    sch_ = _lbi(mt, lambda v: isinstance(v, ast.Call) and call_name(v) == "TestScheduler")
    sch_name = sch_[0] if len(sch_) == 1 else "?test-scheduler"
    # the subscription time is the constant local the context's start() hands to the scheduler as `subscribed=`
    sub_ = [u(k.value) for g_ in mt.walk() if g_.is_func for x in sites(g_) if isinstance(x.node, ast.Call) for k in x.node.keywords if k.arg == "subscribed"]
    sub_name = sub_[0] if sub_ else "?subscribed"
    for fname, callee, want in (("test_cold", "from_marbles", {"timespan": ts_name, "lookup": 1, "error": 2}),
                                ("test_hot", "hot", {"timespan": ts_name, "duetime": sub_name, "lookup": 1, "error": 2, "scheduler": sch_name})):
        f = repo.opt_fn(TMB, f"marbles_testing.{fname}")
        if f is None:
            rep.ob("M5-forwarding", TMB, f"marbles_testing.{fname}", False, f"the marbles test context has no {fname} any more")
            continue
        calls = [x for x in sites(f) if isinstance(x.node, ast.Call) and (dotted(x.node.func) or "").split(".")[-1] == callee]
        ok = len(calls) == 1
        if ok:
            c = calls[0].node
            kw = {k.arg: u(k.value) for k in c.keywords}
            params = f.params
            ok = bool(c.args) and u(c.args[0]) == params[0] and all(kw.get(k) == (params[v] if isinstance(v, int) else v) for k, v in want.items())
        rets = [x for x in sites(f) if isinstance(x.node, ast.Return)]
        rep.ob("M5-forwarding", f, f"marbles_testing.{fname} -> reactivex.{callee}(string, {', '.join(k + '=' for k in want)})", ok and bool(rets),
               f"the marbles test context's {fname[5:]}() is not the library's {callee}() over the same diagram, timespan, lookup and error (for hot: due at the "
               f"subscription time on the context's scheduler): diagrams used in tests are timed by a second, different rule (truncated times, no "
               f"error for marbles after the terminal one)")
