"""C39 — fluent operator methods equal their piped operators (S3)."""
from __future__ import annotations

import ast
from typing import Dict, List, Optional

from ..astutil import call_name, dotted, short, strip_cast, u
from ..core import Report
from ..ctx import sites
from ..engines.delegation import Application, bind, find_applications, implementation, signature, Sig
from ..frontend import Fn, Repo

OPS = "reactivex.operators"
MIXDIR = "reactivex/observable/mixins/"


def is_self_observable(fn: Fn, e: Optional[ast.AST]) -> bool:
    if e is None:
        return False
    e = strip_cast(e)
    if isinstance(e, ast.Call) and dotted(e.func) == "self._as_observable" and not e.args:
        return True
    if isinstance(e, ast.Name):
        if e.id == "self":
            return True
        for s in sites(fn):
            n = s.node
            if isinstance(n, (ast.Assign, ast.AnnAssign)) and n.value is not None:
                t = n.targets[0] if isinstance(n, ast.Assign) else n.target
                if isinstance(t, ast.Name) and t.id == e.id:
                    return is_self_observable(fn, n.value)
    return False


def param_of(fn: Fn, e: ast.AST, params: List[str]) -> Optional[str]:
    """If e is (a cast / local alias of) a parameter of fn, its name."""
    e = strip_cast(e)
    if isinstance(e, ast.Starred):
        e = strip_cast(e.value)
    if isinstance(e, ast.Name):
        if e.id in params:
            return e.id
        defs = [s.node for s in sites(fn) if isinstance(s.node, (ast.Assign, ast.AnnAssign)) and s.node.value is not None
                and isinstance((s.node.targets[0] if isinstance(s.node, ast.Assign) else s.node.target), ast.Name)
                and (s.node.targets[0] if isinstance(s.node, ast.Assign) else s.node.target).id == e.id]
        if len(defs) == 1:
            return param_of(fn, defs[0].value, params)
    return None


def same_default(a: Optional[ast.AST], b: Optional[ast.AST]) -> bool:
    if a is None or b is None:
        return True
    return u(a) == u(b)


def check_forwarding(rep: Report, rule: str, wrapper: Fn, wsig: Sig, app: Application, callee: Fn, csig: Sig,
                     what: str) -> None:
    """Positional-role agreement of one application."""
    wparams = wsig.all + ([wsig.vararg] if wsig.vararg else []) + ([wsig.kwarg] if wsig.kwarg else [])
    bound, problems = bind(app.call, csig)
    cwhere = f"{wrapper.name}: {short(app.call, 70)}"
    for p in problems:
        rep.ob(rule, wrapper, f"{cwhere} :: {p}", False, f"{what}: {p} (the call raises TypeError at run time)")
    used: Dict[str, int] = {}
    passed_callee = set()
    for arg, cname, cidx in bound:
        wp = param_of(wrapper, arg, wparams)
        if cname:
            passed_callee.add(cname)
        if wp is None:
            # a constant / computed argument: allowed only if it is not hiding a parameter
            names = {n.id for n in ast.walk(arg) if isinstance(n, ast.Name)} & set(wparams)
            lam = isinstance(strip_cast(arg), ast.Lambda)
            rep.ob(rule, wrapper, f"{cwhere} :: argument `{short(arg, 40)}` -> {cname}", not names or lam,
                   f"{what}: the argument `{short(arg, 40)}` passed for `{cname}` transforms parameter(s) {sorted(names)} "
                   f"instead of forwarding them unchanged")
            continue
        used[wp] = used.get(wp, 0) + 1
        widx = wsig.pos.index(wp) if wp in wsig.pos else None
        is_var = isinstance(arg, ast.Starred)
        if is_var:
            ok = wp == wsig.vararg and cname == csig.vararg
        elif cidx is not None and widx is not None:
            ok = (cidx == widx) or (cname == wp)
        else:
            ok = cname == wp or (cname in csig.kwonly and wp in wsig.kwonly) or (cname == csig.vararg and wp == wsig.vararg)
        rep.ob(rule, wrapper, f"{cwhere} :: {wp} -> {cname}", ok,
               f"{what}: parameter `{wp}` (position {widx}) is forwarded to `{cname}` (position {cidx}) of "
               f"{callee.name}: arguments are swapped / mis-routed")
        if ok and cname in csig.defaults and wp in wsig.defaults:
            rep.ob(rule, wrapper, f"{cwhere} :: default of {wp}", same_default(wsig.defaults[wp], csig.defaults[cname]),
                   f"{what}: default of `{wp}` is `{u(wsig.defaults[wp])}` but the default of `{cname}` in "
                   f"{callee.name} is `{u(csig.defaults[cname])}`: calling without the argument behaves differently")
    for wp, k in used.items():
        if k > 1:
            rep.ob(rule, wrapper, f"{cwhere} :: {wp} used {k} times", False, f"{what}: parameter `{wp}` is forwarded {k} times")
    # omitted wrapper parameters
    for wp in wparams:
        if wp in used:
            continue
        dflt = u(wsig.defaults.get(wp)) if wp in wsig.defaults else None
        atoms_wp = [(e, p) for e, p in app.site.ctx.guards if wp in {n.id for n in ast.walk(e) if isinstance(n, ast.Name)}]
        def is_default_test(e, p):
            return dflt is not None and ((p and u(e) == f"{wp} is {dflt}") or ((not p) and u(e) == f"{wp} is not {dflt}"))
        ok_omit = bool(atoms_wp) and all(is_default_test(e, p) for e, p in atoms_wp)
        rep.ob(rule, wrapper, f"{cwhere} :: {wp} omitted", ok_omit,
               f"{what}: parameter `{wp}` is not forwarded on this return path and the path is not decided by exactly "
               f"`{wp} is {dflt}` (guards: {[u(e) for e, _ in atoms_wp]}): a value given by the caller is silently dropped")
    # callee parameters without default that were not passed
    for cp in csig.pos + csig.kwonly:
        if cp not in passed_callee and cp not in csig.defaults:
            rep.ob(rule, wrapper, f"{cwhere} :: required {cp} missing", False,
                   f"{what}: required parameter `{cp}` of {callee.name} is not passed")


def check(repo: Repo, rep: Report) -> None:
    rep.explanation = (
        "E5 delegation agreement, exhaustive over the 11 fluent mixins and the public operator module: every fluent "
        "method is abstractly evaluated to the operator applications it can return (`self.pipe(ops.NAME(args))`, "
        "`ops.NAME(args)(self)`, or `self.other(args)` followed one level); NAME must resolve (through aliases) to the "
        "operator of the method's own name; each fluent parameter must reach the operator parameter of the same "
        "positional role (or same name when passed by keyword) exactly once and un-transformed, omitted only under a "
        "guard on it, with equal defaults; the operator is applied to self. The same check is applied one level down, "
        "from each public operator to its implementation (signature after curry_flip minus the source).")
    rep.assumptions += ["the operator function of the same name is the reference behaviour",
                        "cast(...) and a local single-assignment alias of a parameter are transparent"]
    rep.rule("F1-same-operator", "a fluent method applies the operator of its own name to self", floor=120)
    rep.rule("F2-forwarding", "fluent parameters are forwarded by positional role / name, once, unchanged, same defaults", floor=150)
    rep.rule("F5-positional-roles", "a fluent method declares the operator's parameters in the operator's positional order", floor=100)
    rep.rule("F4-no-override", "no Observable subclass re-defines a fluent method (the mixin's forwarding is what every observable gets)", floor=3)
    rep.rule("F3-impl-forwarding", "public operators forward their parameters to their implementation", floor=150)
    opsmod = repo.by_modname.get(OPS)
    rep.require(opsmod is not None, "reactivex.operators module")

    def is_ops(e: ast.AST) -> bool:
        return (dotted(e) or "").startswith("ops.") or (dotted(e) or "").startswith("operators.")

    n_methods = 0
    for rel, m in sorted(repo.modules.items()):
        if not rel.startswith(MIXDIR) or rel.endswith("__init__.py"):
            continue
        for c in m.root.children:
            if not c.is_class:
                continue
            for f in c.children:
                if not f.is_func or f.has_decorator("overload") or f.name.startswith("_"):
                    continue
                n_methods += 1
                own = implementation(repo, OPS, f.name)
                rep.ob("F1-same-operator", f, f"{c.name}.{f.name}: operator `{f.name}` exists", own is not None,
                       f"there is no operator function named `{f.name}` in reactivex.operators")
                if own is None:
                    continue
                wsig = signature(f, drop_first=1)
                apps = find_applications(f, is_ops)
                # F5: positional roles — a call written positionally means the same thing in both spellings
                fa = [x.arg for x in f.node.args.args[1:]]
                oa = [x.arg for x in own.node.args.args]
                applies_own = any(a_.call is not None and implementation(repo, OPS, dotted(a_.target).split(".", 1)[1]) is own for a_ in apps)
                if applies_own:
                    moved = [nm for nm in fa if nm in oa and fa.index(nm) != oa.index(nm)]
                    okf = len(fa) == len(oa) and not moved and (f.node.args.vararg is None) == (own.node.args.vararg is None)
                    rep.ob("F5-positional-roles", f, f"{c.name}.{f.name}({', '.join(fa)}) vs ops.{f.name}({', '.join(oa)})", okf,
                           f"the fluent method takes its positional parameters in a different order / number than ops.{f.name} "
                           f"({fa} vs {oa}): source.{f.name}(a, b) and source.pipe(ops.{f.name}(a, b)) pass a and b to different roles")
                rep.ob("F1-same-operator", f, f"{c.name}.{f.name}: returns an operator application", bool(apps),
                       "the method has no return statement")
                for app in apps:
                    if app.call is None:
                        v = strip_cast(app.site.node.value)
                        # self.other(args): follow one level
                        if isinstance(v, ast.Call) and isinstance(v.func, ast.Attribute) and dotted(v.func.value) == "self":
                            other = c.child(v.func.attr)
                            oimpl = implementation(repo, OPS, v.func.attr)
                            same = oimpl is not None and oimpl is own
                            rep.ob("F1-same-operator", f, f"{c.name}.{f.name} -> self.{v.func.attr}(...)", same,
                                   f"`{f.name}` delegates to the fluent method `{v.func.attr}`, i.e. behaves like "
                                   f"ops.{v.func.attr}(...), but ops.{f.name} is a different operator "
                                   f"({own.ref if own else '?'}): source.{f.name}(x) != source.pipe(ops.{f.name}(x))")
                            if other is not None and other.is_func:
                                check_forwarding(rep, "F2-forwarding", f, wsig,
                                                 Application(app.site, v, v.func, None), other, signature(other, 1),
                                                 f"{c.name}.{f.name}")
                        else:
                            rep.ob("F1-same-operator", f, f"{c.name}.{f.name}: {short(app.site.node, 60)}", False,
                                   "a return path does not apply an operator to self")
                        continue
                    tname = dotted(app.target).split(".", 1)[1]
                    timpl = implementation(repo, OPS, tname)
                    rep.ob("F1-same-operator", f, f"{c.name}.{f.name} -> ops.{tname}", timpl is not None and timpl is own,
                           f"`{c.name}.{f.name}` applies ops.{tname}, which is not the operator `{f.name}`")
                    rep.ob("F1-same-operator", f, f"{c.name}.{f.name}: applied to self", is_self_observable(f, app.applied_to),
                           f"the operator is applied to `{u(app.applied_to)}` instead of the observable itself")
                    if timpl is not None:
                        check_forwarding(rep, "F2-forwarding", f, wsig, app, timpl, signature(timpl), f"{c.name}.{f.name}")
    rep.extra["fluent_methods"] = n_methods
    # F4: subclasses of Observable must not shadow a fluent method — with a method or with an instance attribute
    fluent_names = set()
    for rel, m in repo.modules.items():
        if rel.startswith(MIXDIR) and not rel.endswith("__init__.py"):
            for c in m.root.children:
                if c.is_class:
                    fluent_names |= {f.name for f in c.children if f.is_func and not f.name.startswith("_")}
    for rel, m in sorted(repo.modules.items()):
        if not rel.startswith("reactivex/") or rel.startswith(MIXDIR) or rel.startswith("reactivex/testing/"):
            continue
        for c in m.root.children:
            if not c.is_class or c.name == "Observable":
                continue
            bases = " ".join(u(b) for b in c.node.bases)
            if not any(k in bases for k in ("Observable", "Subject")):
                continue
            shadow = sorted({f.name for f in c.children if f.is_func and f.name in fluent_names})
            attrs = sorted({n_.attr for f in c.children if f.is_func for n_ in f.all_nodes() if isinstance(n_, ast.Attribute) and isinstance(n_.ctx, ast.Store)
                            and isinstance(n_.value, ast.Name) and n_.value.id == "self" and n_.attr in fluent_names})
            rep.ob("F4-no-override", c, f"{c.name}({bases}): shadows {shadow + attrs or 'no fluent method'}", not shadow and not attrs,
                   f"{c.name} re-defines {shadow + attrs} (a method or an instance attribute of that name): on these observables source.{(shadow + attrs or ['x'])[0]}(...) "
                   f"is no longer the mixin's forwarding to ops.{(shadow + attrs or ['x'])[0]} — it differs from the piped form (or is not callable at all)")
    rep.require(n_methods >= 120, f"fluent methods ({n_methods})")
    # level 2: ops.NAME(args) -> _impl.name_(args)
    n_ops = 0
    seen = set()
    for f in opsmod.root.children:
        if not f.is_func or f.has_decorator("overload") or f.name.startswith("_") or f.name in seen:
            continue
        f = implementation(repo, OPS, f.name)
        seen.add(f.name)
        n_ops += 1

        def is_impl(e: ast.AST) -> bool:
            t = repo.resolve_expr(f, e)
            return t is not None and t.is_func and t.module is not opsmod and t.module.rel.startswith("reactivex/") \
                and t.module.rel != "reactivex/pipe.py"
        apps = [a for a in find_applications(f, is_impl) if a.call is not None]
        wsig = signature(f)
        for app in apps:
            impl = repo.resolve_expr(f, app.target)
            drop = 1 if impl.has_decorator("curry_flip") else 0
            check_forwarding(rep, "F3-impl-forwarding", f, wsig, app, impl, signature(impl, drop), f"ops.{f.name}")
        if not apps:
            rep.ob("F3-impl-forwarding", f, f"ops.{f.name}: composed / no single implementation call", True, nontrivial=False)
    rep.extra["public_operators"] = n_ops
