"""C40 — resources and finally-actions are released exactly once (S2)."""
from __future__ import annotations

import ast
from typing import Optional

from ..astutil import call_name, dotted, short, u
from ..core import Report
from ..ctx import paths, sites, dominates
from ..engines.callguard import handler_catches_exception
from ..frontend import Repo
from ..model import model_of, resolve_callable
from ..rules import has_guard

US = "reactivex/observable/using.py"
FA = "reactivex/operators/_finallyaction.py"
DO = "reactivex/operators/_do.py"
KIND = {"on_next": "on_next", "on_error": "on_error", "on_completed": "on_completed"}


def check(repo: Repo, rep: Report) -> None:
    rep.explanation = (
        "using_: the resource factory is called once per subscribe, inside the guarded region, and on every return path "
        "of subscribe — including the path on which building the inner observable fails — the returned composite holds "
        "the disposable bound to the created resource (must-hold per return statement). finally_action_: the action is "
        "invoked only from the function wrapped in the returned Disposable (at most once by C25), in a finally after "
        "subscription.dispose(), or on the subscribe-failure path that re-raises. do_finally: every invocation of the "
        "action is dominated by `not was_invoked` and paired with setting it, in both terminal handlers and in the dispose "
        "hook held by the returned composite. do_action_ family: on every non-raising path each handler forwards exactly "
        "its own notification, unchanged; raising callbacks are routed to on_error.")
    rep.assumptions += ["Disposable runs its action at most once (C25); AutoDetachObserver disposes after a terminal (C02)"]
    rep.rule("U1-resource-held", "using_: every return of subscribe holds the resource's disposable; factory called once, guarded", floor=5)
    rep.rule("F1-finally-sites", "finally_action_: the action runs only in the returned dispose hook (finally) or on the re-raising failure path", floor=3)
    rep.rule("D1-once-flag", "do_finally: action dominated by `not was_invoked`, flag set with it; hook held by the returned composite", floor=5)
    rep.rule("A1-forward-unchanged", "do_* handlers forward exactly their own notification unchanged on every non-raising path", floor=10)
    # ---- using_ ------------------------------------------------------------
    sub = repo.fn(US, "using_.subscribe")
    fac = [s for s in sites(sub) if isinstance(s.node, ast.Call) and isinstance(s.node.func, ast.Name) and s.node.func.id == "resource_factory"]
    ok = len(fac) == 1 and not fac[0].ctx.loops and any(any(handler_catches_exception(h) for h in t.handlers) for t in fac[0].ctx.tries)
    rep.ob("U1-resource-held", sub, "resource_factory() called once, inside the guarded region", ok,
           "the resource factory is not called exactly once per subscription inside the try that converts failures to on_error")
    res_var = None
    if fac and isinstance(fac[0].stmt, ast.Assign) and isinstance(fac[0].stmt.targets[0], ast.Name):
        res_var = fac[0].stmt.targets[0].id
    rep.require(res_var, "resource variable in using_.subscribe")
    binds = [s for s in sites(sub) if isinstance(s.node, ast.Assign) and isinstance(s.node.targets[0], ast.Name)
             and u(s.node.value) == res_var]
    holder = u(binds[0].node.targets[0]) if binds else None
    ofac = [s for s in sites(sub) if isinstance(s.node, ast.Call) and isinstance(s.node.func, ast.Name) and s.node.func.id == "observable_factory"]
    ok = bool(binds) and bool(ofac) and all(b.index < ofac[0].index and b.index > fac[0].index for b in binds)
    rep.ob("U1-resource-held", sub, f"{holder} = {res_var} between the two factory calls", ok,
           "the resource is not bound to the held disposable before the observable factory runs: if that factory fails the "
           "resource is never disposed")
    for b_ in binds:
        bad_ = [u(e) for e, p_ in b_.ctx.guards if isinstance(e, ast.Name) and e.id == res_var]
        rep.ob("U1-resource-held", sub, f"`{short(b_.node)}` decided by the identity of the resource, not its truthiness", not bad_,
               f"the created resource is bound to the subscription only if it is truthy (`if {res_var}:`): a resource that is falsy when "
               f"created (an empty CompositeDisposable defines __len__) is never disposed")
    ok = bool(ofac) and [u(a) for a in ofac[0].node.args] == [res_var]
    rep.ob("U1-resource-held", sub, "observable_factory(resource)", ok, "the observable factory does not receive the created resource")
    rets = [s for s in sites(sub) if isinstance(s.node, ast.Return)]
    rep.require(len(rets) >= 2, "return paths of using_.subscribe")
    for r in rets:
        v = r.node.value
        ok = isinstance(v, ast.Call) and call_name(v) == "CompositeDisposable" and holder in [u(a) for a in v.args]
        rep.ob("U1-resource-held", sub, f"{'failure' if r.ctx.handlers else 'normal'} path: {short(r.node, 60)}", ok,
               f"a return path of using_.subscribe does not hold `{holder}` (the resource) in the returned disposable: the "
               f"resource is not disposed when this subscription ends")
    fail = [r for r in rets if r.ctx.handlers]
    ok = bool(fail) and all(any(isinstance(x, ast.Call) and call_name(x) == "throw" for x in ast.walk(sub.node)) for r in fail)
    rep.ob("U1-resource-held", sub, "failure path delivers the exception (throw(ex).subscribe(observer))", ok,
           "when building the inner observable fails the subscriber is not told")
    # ---- finally_action_ ------------------------------------------------------
    fsub = repo.fn(FA, "finally_action_.finally_action.subscribe")
    n_act = {"subscribe": 0, "hook": 0}
    for g in fsub.walk():
        if g.is_func:
            for s in sites(g):
                if isinstance(s.node, ast.Call) and isinstance(s.node.func, ast.Name) and s.node.func.id == "action":
                    n_act["subscribe" if g is fsub else "hook"] += 1
    rep.ob("F1-finally-sites", fsub, f"finally_action_: the action is invoked in the dispose hook and on the subscribe-failure path ({n_act})", n_act["hook"] >= 1 and n_act["subscribe"] >= 1,
           "finally_action no longer invokes its action in the returned dispose hook (or on the failing-subscribe path): the action runs zero times for that ending")
    for g in fsub.walk():
        if not g.is_func:
            continue
        for s in sites(g):
            n = s.node
            if isinstance(n, ast.Call) and isinstance(n.func, ast.Name) and n.func.id == "action":
                if g is fsub:
                    ok = bool(s.ctx.handlers) and any(isinstance(x.node, ast.Raise) and x.ctx.handlers == s.ctx.handlers and x.index > s.index
                                                      for x in sites(g))
                    rep.ob("F1-finally-sites", g, "subscribe-failure path: action(); raise", ok,
                           "the action runs in subscribe outside the failure handler, or the failure is swallowed")
                else:
                    subs_v = {t.id for x in sites(fsub) if isinstance(x.node, ast.Assign) and isinstance(x.node.value, ast.Call)
                              and isinstance(x.node.value.func, ast.Attribute) and x.node.value.func.attr == "subscribe"
                              for t in x.node.targets if isinstance(t, ast.Name)}
                    disp_call = [x for x in sites(g) if isinstance(x.node, ast.Call) and isinstance(x.node.func, ast.Attribute)
                                 and x.node.func.attr == "dispose" and dotted(x.node.func.value) in subs_v]
                    ok = bool(s.ctx.finals) and bool(disp_call) and any(t in d.ctx.tries for t in s.ctx.finals for d in disp_call)
                    rep.ob("F1-finally-sites", g, "dispose hook: finally: action() after subscription.dispose()", ok,
                           "the action is not in a `finally` around subscription.dispose(): it is skipped when the dispose raises, "
                           "or runs before the source is released")
                    held = any(isinstance(x.node, ast.Return) and isinstance(x.node.value, ast.Call) and call_name(x.node.value) == "Disposable"
                               and resolve_callable(fsub, x.node.value.args[0]).fn is g for x in sites(fsub))
                    rep.ob("F1-finally-sites", fsub, "returns Disposable(<hook>)", held,
                           "the hook that runs the action is not (only) wrapped in the returned Disposable: it can run twice or never")
    for g in fsub.walk():
        if g.is_func:
            for n in g.direct_nodes():
                if isinstance(n, ast.Name) and n.id == "action" and isinstance(n.ctx, ast.Load) and g.owner("action") is not None \
                        and not (isinstance(g.module.parents.get(n), ast.Call) and g.module.parents.get(n).func is n):
                    rep.ob("F1-finally-sites", g, f"`action` handed on as a value in `{short(g.module.parents.get(n), 60)}`", False,
                           "the finally-action is not invoked by finally_action_'s own hook (in a `finally` around the source's "
                           "dispose) but handed to another disposable: when disposing the source raises, the action is skipped")
    # ---- do_finally ---------------------------------------------------------------
    df = repo.fn(DO, "do_finally")
    dsub = repo.fn(DO, "do_finally.subscribe")
    from ..rules import locals_by_init
    # role: the once-flag is the one-element [False] list allocated in subscribe and handed to the dispose hook
    flags = locals_by_init(dsub, lambda v: isinstance(v, ast.List) and len(v.elts) == 1 and isinstance(v.elts[0], ast.Constant) and v.elts[0].value is False)
    def flag_text(g, e):
        """text of the flag cell if e denotes it (`flag[0]` in the handlers, `self.<attr>[0]` in the hook class)"""
        base = e.value if isinstance(e, ast.Subscript) else e
        if isinstance(base, ast.Name) and base.id in flags and g.owner(base.id) is dsub:
            return u(e)
        if isinstance(base, ast.Attribute) and dotted(base.value) == "self":
            return u(e)
        return None
    n_inv = 0
    for g in df.walk():
        if not g.is_func:
            continue
        for s in sites(g):
            n = s.node
            if isinstance(n, ast.Call) and isinstance(n.func, ast.Name) and n.func.id == "finally_action":
                n_inv += 1
                flag = [flag_text(g, e) for e, p in s.ctx.guards if not p and flag_text(g, e)]
                sets = [x for x in sites(g) if isinstance(x.node, ast.Assign) and u(x.node.targets[0]) in flag
                        and isinstance(x.node.value, ast.Constant) and x.node.value.value is True and x.ctx.branch == s.ctx.branch]
                rep.ob("D1-once-flag", g, f"{g.qual.split('.', 1)[-1]}: {short(s.node)}", bool(flag) and bool(sets),
                       "the finally-action is invoked without `not was_invoked` dominating it / without setting the flag on the "
                       "same path: it runs again on dispose after a terminal notification")
    rep.ob("D1-once-flag", dsub, f"do_finally invokes its action on completion, on error and in the dispose hook ({n_inv} sites)", n_inv >= 3,
           "do_finally no longer invokes its action on one of its three exits (completion, error, dispose): the action runs zero times for that ending")
    rep.ob("D1-once-flag", dsub, "was_invoked allocated per subscription", len(flags) == 1,
           "the once-flag is not allocated in subscribe: subscriptions share it")
    hook = [s for s in sites(dsub) if isinstance(s.node, ast.Call) and isinstance(s.node.func, ast.Attribute) and s.node.func.attr == "add"
            and s.node.args and isinstance(s.node.args[0], ast.Call) and call_name(s.node.args[0]) == "OnDispose"
            and [u(a) for a in s.node.args[0].args] == flags]
    ret_ok = any(isinstance(s.node, ast.Return) and hook and u(s.node.value) == dotted(hook[0].node.func.value) for s in sites(dsub))
    rep.ob("D1-once-flag", dsub, "OnDispose(was_invoked) held by the returned composite", bool(hook) and ret_ok,
           "the dispose hook is not part of the returned disposable: the action does not run on unsubscribe")
    slots = {}
    for s in sites(dsub):
        if isinstance(s.node, ast.Call) and isinstance(s.node.func, ast.Attribute) and s.node.func.attr == "subscribe":
            from ..model import subscribe_slots
            slots = {k: u(v) for k, v in subscribe_slots(s.node).items() if v is not None}
    rep.ob("D1-once-flag", dsub, "both terminal slots are the guarded handlers", slots.get("on_error") == "on_error" and slots.get("on_completed") == "on_completed",
           "a terminal slot bypasses the handler that runs the finally-action")
    # ---- do_* forwarding ------------------------------------------------------------
    m = model_of(repo)
    mod = repo.module(DO)
    for g in mod.root.walk():
        if not g.is_func or m.role.get(g) != "handler":
            continue
        slot = m.slot.get(g)
        root = g
        while root.parent is not None and m.role.get(root) != "subscribe":
            root = root.parent
        obs = root.params[0] if root.params else "observer"
        own_args = g.positional_params

        def ev(n: ast.AST) -> Optional[str]:
            if isinstance(n, ast.Call) and isinstance(n.func, ast.Attribute) and dotted(n.func.value) == obs and n.func.attr in KIND:
                return f"{n.func.attr}({', '.join(u(a) for a in n.args)})"
            return None
        want = f"{slot}({', '.join(own_args)})"
        for p in paths(g, ev):
            if p.exc or p.end == "raise":
                continue
            desc = f"{g.qual.split('.', 1)[-1]} path[{' ; '.join(f'{t}={v}' for t, v in p.decisions) or 'straight'}] -> {p.kinds}"
            rep.ob("A1-forward-unchanged", g, desc, p.kinds == [want],
                   f"on a non-raising path the {slot} handler of {root.parent.name if root.parent else root.name} does not forward "
                   f"exactly `{obs}.{want}`: the observed sequence is changed (dropped, duplicated or altered notification)")
    # a side effect that raises is reported as ITS failure: the handler that catches it routes the caught exception
    from ..engines.callguard import handler_routes, handler_catches_exception as _hce
    rep.rule("A3-failure-routed", "do_*: an exception raised by a side-effect callback is the one delivered downstream", floor=6)
    for g in mod.root.walk():
        if not g.is_func or m.role.get(g) != "handler":
            continue
        for n in g.direct_nodes():
            if isinstance(n, ast.Try):
                for h in n.handlers:
                    if _hce(h):
                        rep.ob("A3-failure-routed", g, f"{g.qual.split('.', 1)[-1]}: `except {u(h.type) if h.type else ''} as {h.name}`", handler_routes(h),
                               f"the handler around the side effect in {g.qual} does not deliver the exception it caught (it forwards "
                               f"another value or nothing): the failure of the callback is lost or misreported")
    # the do_* operators observe a sequence without changing it -- that includes *when* it runs: the source is subscribed
    # with the subscriber's scheduler
    from .typestate_common import rule_scheduler_forwarded
    rep.rule("A2-scheduler-forwarded", "do_* operators subscribe their source with the subscriber's scheduler", floor=4)
    for g in mod.root.walk():
        if g.is_func and m.role.get(g) == "subscribe":
            rule_scheduler_forwarded(rep, "A2-scheduler-forwarded", g)
    for rel_, q_ in ((US, "using_.subscribe"), (FA, "finally_action_.finally_action.subscribe")):
        rule_scheduler_forwarded(rep, "A2-scheduler-forwarded", repo.fn(rel_, q_))
    # pass-through slots (bound methods) of the do_* operators forward by construction; count them
    for f in mod.root.children:
        if f.is_func and f.name.startswith("do_") and f.name not in ("do_",):
            for g in f.walk():
                if g.is_func:
                    for s in sites(g):
                        if isinstance(s.node, ast.Call) and isinstance(s.node.func, ast.Attribute) and s.node.func.attr == "subscribe" \
                                and dotted(s.node.func.value) == "source":
                            from ..model import subscribe_slots
                            for k, v in subscribe_slots(s.node).items():
                                if v is None:
                                    rep.ob("A1-forward-unchanged", g, f"{f.name}: slot {k} missing", k == "on_next" and False or False,
                                           f"{f.name} subscribes to its source without an {k} slot: that notification is dropped")
                                elif isinstance(v, ast.Attribute) and isinstance(v.value, ast.Name):
                                    rep.ob("A1-forward-unchanged", g, f"{f.name}: slot {k} = {u(v)}", v.attr == k,
                                           f"{f.name} wires the source's {k} to {u(v)}")
